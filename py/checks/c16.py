"""C16 — velocity regeneration changes only velocities, at the right temperature.

Theorems: coq/theorems/C16.v (model coq/model/VelM.v, constants coq/gen/ParamsC16.v regenerated
from the engine sources by py/params_c16.py).

Tie (deterministic, no statistics): every engine class (TurtleMD, CP2K, LAMMPS, GROMACS with
infretis_genvel, ASE) is constructed offline on small generated inputs in a scratch directory;
`engine.rgen` (and, for ASE, numpy's global generator) is replaced by a recorder that hands out
prescribed standard-normal values and captures the `scale` argument; the REAL
`prepare_shooting_point` (tis.py) -> `modify_velocities` runs; the written genvel.* file, the
returned (dek, kin_new), the number of stream values consumed and the source path/frames are
compared with the extracted model and with the property's own statement (oracle).  Sequence family:
several such calls one after the other in ONE exe_dir without clean-up, on different shooting points
(VelM.modify_seq, rule "extraction overwrites").
"""
import importlib.util  # noqa: F401
import contextlib
import hashlib
import io
import itertools
import json
import math
import os
import random
import tempfile
import textwrap
import time
from fractions import Fraction as Fr

import numpy as np

import common
import params_c16  # noqa: F401  (registers the ParamsC16 extractor before regenerate_all runs)

META = {
    "id": "C16",
    "level": "proof",
    "technique": "Coq theorems over an exact-rational model of draw/reset_momentum/kinetic_energy/modify_velocities (algebra by ring/field, unit constants by vm_compute on constants regenerated from the sources) + lock-step of the extracted model vs the real engine classes with a recording random generator; call sites: a model of the settings dictionary every move of tis.py hands to modify_velocities, in lock-step with the real shoot / wire_fencing / select_shoot / run_md and the real program on a spy engine, and the total momentum of the frames a real in-process engine (TurtleMD) writes inside the moves; several calls in one worker directory: a model with files as trajectories and the engine's scratch files conf.* / genvel.* as state (rule: extraction overwrites), in lock-step with consecutive real modify_velocities calls of all five engine classes in one exe_dir without clean-up",
    "text": "Unbounded theorems over Q: m*v^2 = kT*z^2 for every drawn component (so zero mean and <m v^2> = kT are inherited from the unit normal stream) for every engine's beta = 1/(kb*T), LAMMPS after its velocity scale and ASE's momentum draw included; lifted to the whole operation (C16_modify_variance*: every component of every atom of the velocities written by modify_velocities, momentum reset off) and to the reported kinetic energy (C16_modify_equipartition*: kin_new = (1/2) kT sum z^2 in the engine's unit); per-engine SI statements (C16_temperature_si_*: kg * (m/s)^2 of a written component = k_B(SI) T z^2 within 1e-6, CP2K 2e-6) over the constants regenerated from the sources; zero total momentum and a uniform shift after reset_momentum / Stationary; dek = kin_new - kin_old with kin_new the kinetic energy of the written velocities; positions, box, identities and every file except conf.*/genvel.* untouched; the result is a function of the first npart*dim stream values; source FILES whose optional entries are absent (no VELOCITY block in a .g96 frame, no velocity columns / no 'Box:' entry in an xyz snapshot: VelM.cfile has them as options, the readers' defaults are modelled) -- C16_file_written_is_modify_std: with the special case of GromacsEngine.modify_velocities in place the written genvel file is exactly modify_std of the frame as read, for every engine and every such file, so all theorems above carry over; C16_file_kin_new_is_written: one velocity line per atom, kin_new is the kinetic energy of the written lines; C16_file_no_velocities_kin_old: kin_old = 0 and dek infinite for a source without velocities (GROMACS: the stored system.ekin); C16_gromacs_no_velocity_block_special_case_needed: with a test that never fires the velocity block is empty while kin_new is non-zero (refutation witness). Closed numeric lemmas tie each engine's constants (kb, LAMMPS scale, CP2K mass factor, as exact rationals of the float literals in the sources) to the SI values. The model is tied to /repo by running the real prepare_shooting_point/modify_velocities of all five engine classes on generated inputs with prescribed draws and comparing files and return values with the extracted model, and by evaluating the statement itself (including an SI-unit temperature check independent of the engines' constants) on the implementation's output. Source frames of every set-up include, next to moving frames and a frame at rest, frames whose file has no velocities (GROMACS .g96 without VELOCITY block, TurtleMD/CP2K xyz without velocity columns, ASE Atoms without momenta) and, for the xyz engines, no 'Box:' entry (with and without velocities); the oracle reads the written genvel file back with its own parser: number of velocity entries = number of atoms, kinetic energy of the written velocities = reported kin_new, dek = kin_new - kin_old with kin_old the kinetic energy of the source frame as read (infinite when that is zero, i.e. also for a frame without velocities; GROMACS: the stored ekin), box = the file's, or the CP2K template's / none (TurtleMD) where the file has none. CALL SITES (wherever the package regenerates velocities): C16_call_site_settings -- for every move (shoot; wire_fencing with any number of jumps, usable or not) every dictionary handed to modify_velocities agrees with the ensemble's tis_set on every key except allowmaxlength (nothing is dropped: wire_fencing passes the ensemble's own dictionary with allowmaxlength switched on); C16_call_site_count (one regeneration per shooting move, one per jump); C16_call_site_momentum_zero -- zero_momentum = true in the ensemble's settings gives zero total momentum of the velocities written by EVERY regeneration of EVERY move, the ones inside a wire-fencing move included; C16_call_site_rebuilt_settings_refuted -- a wire-fencing move that builds a fresh {allowmaxlength, maxlength} dictionary for its sub-moves loses the request (TurtleMD then keeps the centre-of-mass motion). Tied to /repo by three families: (a) the real shoot / wire_fencing, called directly, through select_shoot and through run_md, on a spy engine (the lattice plug-in recording the vel_settings it is handed and the chain of tis.py functions on the stack), for configurations with every key that any engine's modify_velocities reads (discovered from the engine sources' ASTs on every run: zero_momentum, and the AMS engine's aimless / momentum / rescale / rescale_energy) at non-default values, each key also flipped alone, and nothing configured; n_jumps 1-3, with and without interface_cap, paths with one / two / no wire-fencing segment; oracle: every such key arrives at every call site with the configured value (a dropped or altered key is reported with the call site, the key, the value received and the value configured); the recorded dictionaries, in order and entry by entry, equal the model's (VelM.handed); (b) the real program (setup_config -> scheduler -> run_md, sh and wf ensembles, 1-2 workers) with the spy as plug-in engine and the settings in [simulation.tis_set] of the input file: same oracle on every regeneration of the run; (c) the real shoot / wire_fencing with a real TurtleMD engine (2 and 3 atoms, Langevin dynamics): every genvel.xyz written inside a move is read back with the independent parser and has zero total momentum when zero_momentum = true is configured (and the same settings oracle). Every place of the package that calls or passes on modify_velocities / prepare_shooting_point / shoot / wire_fencing / select_shoot / run_md is listed from the ASTs and must be one of the driven ones. An exception of the real code on a generated (legal) input -- engine constructor, prepare_shooting_point / modify_velocities, a move, the program -- is reported as a violation with that input. SEQUENCES OF CALLS (velocities are regenerated once per jump of a wire-fencing move between two clean-ups of the worker directory, so conf.* / genvel.* of the earlier calls are still there): VelM.modify_seq -- files are trajectories, a shooting point is (file, index), dump_frame extracts the snapshot into conf.<ext> of the exe_dir, the reader takes the first snapshot of that file, genvel.<ext> is rewritten; C16_extract_overwrites (the rule: after the extraction conf.<ext> holds exactly that snapshot); C16_sequence_independent (unbounded, any number of calls, any operations): with the rule every call of a sequence returns exactly what it returns alone -- its own operation with ITS draws on ITS shooting point as found in the source files -- and the source files are as before; C16_sequence_history_irrelevant (two different histories give the same result for the same last call); C16_sequence_positions (call by call: positions, box, identities are those of that call's shooting point, kin_old is the kinetic energy of that frame's velocities, the result is modify_std of that frame, so every theorem above applies to each call); C16_sequence_append_refuted (an extraction that appends, i.e. write_xyz_trajectory without append=False: the second call carries the positions of the first call's shooting point and its kin_old / dek). Tied to /repo by the sequence family: for every set-up of every engine class (TurtleMD, CP2K, LAMMPS, GROMACS with infretis_genvel, ASE -- none needs its external program for this operation) and zero_momentum absent / False / True, 5-8 consecutive calls of the real prepare_shooting_point -> modify_velocities in ONE fresh exe_dir without any clean-up in between, on different shooting points in a shuffled order (every special frame of the multi-frame trajectory file -- moving, at rest, without velocities, without box entry --, two frames of a second file, and the first shooting point once more at the end; at least one step inside a file and one between files), each call with its own prescribed draws; oracle per call, evaluated for THAT call's shooting point: positions, box and identities of genvel.* read back with the independent parser, kin_old = kinetic energy of that frame's velocities, kin_new = that of the written velocities, dek = kin_new - kin_old (infinite for kin_old = 0 / missing), zero momentum when requested, SI temperature (zero_momentum off), every source file byte-for-byte unchanged, path frames untouched; a regenerated frame that carries the positions of an EARLIER call's shooting point is named as such; the whole sequence is compared with the extracted VelM.seq_results (rule on), values consumed per call included. The per-atom masses of the built engine are compared with the masses its input declares (LAMMPS data files with an unused atom type below a used one, TurtleMD, GROMACS).",
    "note": "All theorems print 'Closed under the global context' (Q only, no real-number axioms, no Interval). Trusted: Coq kernel; extraction (ExtrOcamlBasic) + ocaml/util.ml + ocaml/c16_driver.ml; py/checks/c16.py (input writers, file parsers, recorder, tolerances); py/params_c16.py; the SI constants written in VelM.v / c16.py (2019 SI, CODATA 2018). Not modelled: floating-point rounding (model is exact; comparisons within 1e-9 relative plus the 9-decimal file format quantum), the square root (sigma is captured from the implementation and sigma^2*m*beta = 1 is checked exactly on it to 1e-12), the Gaussian law of numpy's normal(), ASE internals (thermalize_momenta/Stationary are modelled from their source and tied by the lock-step), velocities generated by the external GROMACS program. Frames without velocities: lammpstrj has no optional entries and a .g96 frame keeps its BOX block, so LAMMPS has no such input and GROMACS only the missing VELOCITY block; TurtleMD and CP2K extract the shooting frame with _extract_frame first, which writes zero velocity columns, so for them the velocity-less file is seen by the reader of the extraction, not by modify_velocities itself; these and the GROMACS cases are compared with the file-level model VelM.modify_file (special case on). The variance theorem concerns the draw; with zero_momentum the per-atom variance is reduced by the centre-of-mass part (C16_reset_kinetic quantifies it). CP2K's kb literal is 1.2e-6 away from the 2019 SI value, so its unit lemmas are shown to 2e-6 instead of 1e-6 (no lower bound is asserted: correcting the literal breaks nothing). Lead L5 (ASE draws from numpy's global generator, not engine.rgen) is recorded under C07; this check handles both sources and lists the one in use under coverage.draw_source_per_engine. Call sites: keys and values of the settings dictionaries are interned as integers for the model (True = 1, False = 0, key order kept: the model's dictionary update keeps the position of an existing key and appends a new one, as Python does); the spy engine is the lattice walk of py/plugins/engines.py with a recording modify_velocities (py/plugins/c16_plugins.py), the call site is read off the Python stack; which keys the engines read is taken from `vel_settings.get(\"k\", d)` / `vel_settings[\"k\"]` in every modify_velocities of infretis/classes/engines (any other use of the parameter makes the oracle demand every configured key); the AMS engine itself is not run (needs an AMS worker), its keys are covered through the spy; the TurtleMD family uses an order parameter that does not depend on velocities (Path.reverse of a wire-fencing move with a velocity-dependent one is the C20 finding L12); the external-program engines are not run inside moves (no executables), their modify_velocities is tied by the per-engine lock-step above and the settings they are handed by the spy families; tools/generate_H2_loadpaths.py calls shoot with a given shooting point only (no regeneration). Sequences of calls: the model HAS the engine's scratch state (VelM.tworld: conf / genvel / source files as lists of snapshots), so the family is model + oracle; the model's reader takes the first snapshot of conf.<ext> (read_xyz_file / read_lammpstrj(.., 0, ..) / read_gromos96_file; ase.io.read takes the last one -- with the rule in place the file holds exactly one, C16_extract_overwrites); only calls whose shooting point lies in a source file are covered by the theorem (from_source), a shooting point that IS the previous call's genvel file is not in the family (inside a move the next shooting point comes from a path file written by propagate under its own name); GROMACS source frames are one-frame .g96 files, so for GROMACS every step of a sequence is a step to another file (multi-frame .trr sources need the binary writer and are left out), and GROMACS with velocities generated by the external gmx program (infretis_genvel = false) is not driven (needs gmx grompp/mdrun); the standard deviations handed to the model are those captured in the first call of a sequence (every call's own are checked against sigma^2*m*beta = 1); the sequence family draws its inputs from its own seeded generator so that the inputs of the older families are unchanged.",
    "design_ref": "4/C16",
}
LEVEL = "proof"

# ----------------------------------------------------------------------------- SI table (oracle)
SI_K = Fr(1380649, 10 ** 29)
SI_NA = Fr(602214076 * 10 ** 15)
SI_E = Fr(1602176634, 10 ** 28)
SI_EH = Fr(43597447222071, 10 ** 31)
SI_MU = Fr(166053906660, 10 ** 38)
SI_ME = Fr(91093837015, 10 ** 41)
# engine -> (kg per mass unit, (m/s)^2 per velocity-unit^2) for the numbers in the files
SI_UNITS = {
    "gromacs": (Fr(1, 1000) / SI_NA, Fr(10 ** 6)),        # g/mol, nm/ps
    "turtle": (Fr(1, 1000) / SI_NA, Fr(10 ** 6)),         # only when boltzmann is the kJ/(mol K) value
    "lammps": (Fr(1, 1000) / SI_NA, Fr(10 ** 10)),        # g/mol, Angstrom/fs
    "cp2k": (SI_ME, SI_EH / SI_ME),                       # m_e, atomic unit of velocity
    "ase": (SI_MU, SI_E / SI_MU),                         # amu, Angstrom / (Angstrom sqrt(amu/eV))
}
KB_KJMOL = 0.0083144621

FILE_QUANTUM = {"cp2k": Fr(1, 2 * 10 ** 9), "turtle": Fr(1, 2 * 10 ** 9), "gromacs": Fr(1, 2 * 10 ** 9),
                "lammps": Fr(0), "ase": Fr(0)}
SRC_VEL_MAG = {"cp2k": 1e-4, "turtle": 1.0, "gromacs": 1.0, "lammps": 1e-2, "ase": 0.1}
REL = Fr(1, 10 ** 9)


def fr(x):
    return Fr(*float(x).as_integer_ratio())


def qs(x):
    x = Fr(x)
    return f"{x.numerator}/{x.denominator}"


def qlist(xs):
    xs = list(xs)
    return ",".join(qs(x) for x in xs) if xs else "-"


def qcols(rows):
    """rows: n x d (list of lists) -> 'col1;col2;...' (component-major)."""
    rows = [list(r) for r in rows]
    if not rows:
        return "-"
    d = len(rows[0])
    return ";".join(qlist(r[j] for r in rows) for j in range(d))


def parse_cols(s):
    if s == "-":
        return []
    return [[common.parse_q(x) for x in c.split(",")] for c in s.split(";")]


# ----------------------------------------------------------------------------- recorders
class Recorder:
    """Stands in for a numpy Generator: hands out prescribed standard-normal values in C order
    and records what was asked.  normal() computes loc + scale*z, as numpy does per element."""

    def __init__(self, zs, tag):
        self.zs = [float(z) for z in zs]
        self.pos = 0
        self.calls = []
        self.tag = tag

    def _take(self, size):
        n = int(np.prod(size))
        if self.pos + n > len(self.zs):
            raise RuntimeError(f"recorder {self.tag}: stream exhausted ({self.pos}+{n}>{len(self.zs)})")
        out = np.array(self.zs[self.pos:self.pos + n], dtype=float).reshape(size)
        self.pos += n
        return out

    def normal(self, loc=0.0, scale=1.0, size=None):
        self.calls.append({"fn": "normal", "loc": loc, "scale": np.array(scale, dtype=float, copy=True), "size": tuple(size)})
        return loc + scale * self._take(tuple(size))

    def standard_normal(self, size=None):
        size = tuple(size) if not isinstance(size, int) else (size,)
        self.calls.append({"fn": "standard_normal", "size": size})
        return self._take(size)

    def __getattr__(self, name):   # any other use of the stream is unexpected in this operation
        raise AttributeError(f"recorder {self.tag}: unexpected use of generator method {name}")


class Tap:
    """Wraps a real numpy Generator, recording the scale argument."""

    def __init__(self, gen):
        self.gen = gen
        self.calls = []

    def normal(self, loc=0.0, scale=1.0, size=None):
        self.calls.append({"fn": "normal", "loc": loc, "scale": np.array(scale, dtype=float, copy=True), "size": tuple(size)})
        return self.gen.normal(loc=loc, scale=scale, size=size)

    def standard_normal(self, size=None):
        size = tuple(size) if not isinstance(size, int) else (size,)
        self.calls.append({"fn": "standard_normal", "size": size})
        return self.gen.standard_normal(size)


class PickIdx:
    """rgen handed to prepare_shooting_point: only .integers(lo, hi) is expected."""

    def __init__(self, idx):
        self.idx = idx

    def integers(self, lo, hi):
        assert lo <= self.idx < hi, (lo, self.idx, hi)
        return self.idx


@contextlib.contextmanager
def global_numpy_normal(rec):
    old = np.random.standard_normal
    np.random.standard_normal = rec.standard_normal
    try:
        yield
    finally:
        np.random.standard_normal = old


# ----------------------------------------------------------------------------- engine kits
CP2K_INP = """&GLOBAL
  PROJECT MD
  RUN_TYPE MD
&END GLOBAL
&MOTION
  &MD
    ENSEMBLE NVE
    STEPS 1
    TIMESTEP 0.5
    TEMPERATURE {T}
  &END MD
&END MOTION
&FORCE_EVAL
  METHOD FIST
  &SUBSYS
    &CELL
      ABC 30.0 30.0 30.0
    &END CELL
  &END SUBSYS
&END FORCE_EVAL
"""

LAMMPS_INPUT = """variable 	subcycles index infretis_subcycles
variable	timestep index infretis_timestep
variable	nsteps index infretis_nsteps
variable	initconf index infretis_initconf
variable	name index infretis_name
variable 	lammpsdata index infretis_lammpsdata
variable	temperature index infretis_temperature
variable	seed index infretis_seed
units real
atom_style full
read_data ${lammpsdata}
read_dump ${initconf} 0 x y z vx vy vz box yes
fix 1 all nve
thermo ${subcycles}
thermo_style custom step ke pe etotal temp
dump 1 all custom ${subcycles} ${name}.lammpstrj id type x y z vx vy vz id
timestep ${timestep}
run ${nsteps}
"""

GMX_MDP = """integrator = md-vv
nsteps = 10
dt = 0.002
tcoupl = no
tc-grps = System
gen_vel = no
"""

ASE_CALC = """from ase.calculators.lj import LennardJones


class Calc(LennardJones):
    def __init__(self):
        super().__init__()
"""

CP2K_NAMES = ["H", "O", "C", "Ar", "U", "Li"]
ASE_NUMBERS = {"H": 1, "O": 8, "C": 6, "Ar": 18, "U": 92, "Li": 3}


class Kit:
    """Per-engine input writers, constructor call and independent output parser."""

    def __init__(self, kind, root):
        self.kind = kind
        self.root = root
        self.count = 0

    def newdir(self, what):
        self.count += 1
        d = os.path.join(self.root, f"{self.kind}_{what}_{self.count}")
        os.makedirs(d)
        return d

    # -- engine construction through the real constructors
    def build(self, setup):
        T, masses, names = setup["T"], setup["masses"], setup["names"]
        n = len(names)
        inp = self.newdir("inp")
        k = self.kind
        if k == "turtle":
            from infretis.classes.engines.turtlemdengine import TurtleMDEngine
            eng = TurtleMDEngine(
                timestep=0.001, subcycles=1, temperature=T, boltzmann=setup["kb"],
                integrator={"class": "VelocityVerlet", "settings": {}},
                potential={"class": "LennardJones", "settings": {"parameters": {"1": {"sigma": 0.3, "epsilon": 1.0, "rcut": 1.2}}}},
                particles={"mass": list(masses), "name": list(names), "pos": [[0.1 * i, 0.0, 0.0] for i in range(n)]},
                box={"periodic": [True, True, True], "low": [0, 0, 0], "high": [3, 3, 3]})
        elif k == "cp2k":
            from infretis.classes.engines.cp2k import CP2KEngine
            with open(os.path.join(inp, "initial.xyz"), "w") as f:
                f.write(xyz_frame(names, [[0.5 * i, 0, 0] for i in range(n)], [[0, 0, 0]] * n, [30, 30, 30]))
            with open(os.path.join(inp, "cp2k.inp"), "w") as f:
                f.write(CP2K_INP.format(T=repr(float(T))))
            eng = CP2KEngine("cp2k", inp, 0.5, 1, T)
        elif k == "lammps":
            from infretis.classes.engines.lammps import LAMMPSEngine
            types = setup["types"]          # per atom (by id 1..n) type index 1..ntypes
            tm = setup["type_masses"]
            with open(os.path.join(inp, "lammps.input"), "w") as f:
                f.write(LAMMPS_INPUT)
            with open(os.path.join(inp, "lammps.data"), "w") as f:
                f.write(f"Title\n\n{n} atoms\n0 bonds\n\n{len(tm)} atom types\n0 bond types\n0 30 xlo xhi\n0 30 ylo yhi\n0 30 zlo zhi\n\nMasses\n\n")
                for i, m in enumerate(tm, 1):
                    f.write(f"{i}\t{m!r}\n")
                f.write("\n\nAtoms\n\n")
                order = list(range(1, n + 1))[::-1]     # written in descending id order on purpose
                for a in order:
                    f.write(f"{a}\t1\t{types[a - 1]} 0.000\t{a}.000 0.000 0.000\n")
            eng = LAMMPSEngine("lmp", inp, 0, 0, T)
        elif k == "gromacs":
            from infretis.classes.engines.gromacs import GromacsEngine
            with open(os.path.join(inp, "conf.g96"), "w") as f:
                f.write(g96_frame(names, [[0.1 * i, 0, 0] for i in range(n)], [[0, 0, 0]] * n, [3, 3, 3]))
            with open(os.path.join(inp, "grompp.mdp"), "w") as f:
                f.write(GMX_MDP)
            with open(os.path.join(inp, "topol.top"), "w") as f:
                f.write("[ system ]\nmodel\n")
            eng = GromacsEngine("echo", inp, 0.002, 1, T, masses=list(masses), infretis_genvel=True)
        elif k == "ase":
            from infretis.classes.engines.ase_engine import ASEEngine
            calc = os.path.join(inp, "calc_c16.py")
            with open(calc, "w") as f:
                f.write(ASE_CALC)
            eng = ASEEngine(0.5, T, 1, inp, "velocityverlet", {"module": calc, "class": "Calc"})
        else:
            raise ValueError(k)
        exe = self.newdir("exe")
        eng.exe_dir = exe
        eng.order_function = FirstCoordinate()
        return eng

    def engine_masses(self, eng, setup):
        if self.kind == "gromacs":
            return [float(x) for x in eng.masses[:, 0]]
        if self.kind == "ase":
            return [float(x) for x in setup["masses"]]
        return [float(x) for x in eng.mass[:, 0]]

    # -- source trajectory for the path: returns list of configs (file, idx), one per frame
    def write_source(self, setup, frames):
        d = self.newdir("src")
        names = setup["names"]
        k = self.kind
        if k in ("turtle", "cp2k"):
            fn = os.path.join(d, "traj.xyz")
            with open(fn, "w") as f:
                for fr_ in frames:
                    f.write(xyz_frame(names, fr_["pos"], fr_["vel"], fr_["box"]))
            return [(fn, i) for i in range(len(frames))], [fn]
        if k == "lammps":
            fn = os.path.join(d, "traj.lammpstrj")
            n = len(names)
            perm = setup["file_order"]      # order in which atom ids appear in the file
            ids = lmp_ids(setup)             # the atom ids themselves: increasing, not necessarily 1..N
            with open(fn, "w") as f:
                for fr_ in frames:
                    f.write(f"ITEM: TIMESTEP\n0\nITEM: NUMBER OF ATOMS\n{n}\nITEM: BOX BOUNDS pp pp pp\n")
                    for b in fr_["box"]:
                        f.write(f"0.0 {float(b)!r}\n")
                    f.write("ITEM: ATOMS id type x y z vx vy vz\n")
                    for a in perm:
                        p, v = fr_["pos"][a - 1], fr_["vel"][a - 1]
                        f.write(f"{ids[a - 1]} {setup['types'][a - 1]} " + " ".join(repr(float(x)) for x in list(p) + list(v)) + "\n")
            return [(fn, i) for i in range(len(frames))], [fn]
        if k == "gromacs":
            cfgs, files = [], []
            for i, fr_ in enumerate(frames):
                fn = os.path.join(d, f"frame{i}.g96")
                with open(fn, "w") as f:
                    f.write(g96_frame(names, fr_["pos"], fr_["vel"], fr_["box"]))
                cfgs.append((fn, 0))
                files.append(fn)
            return cfgs, files
        if k == "ase":
            from ase import Atoms
            from ase.io.trajectory import Trajectory
            fn = os.path.join(d, "traj.traj")
            tr = Trajectory(fn, "w")
            for fr_ in frames:
                at = Atoms(numbers=[ASE_NUMBERS[x] for x in names], positions=fr_["pos"], cell=list(fr_["box"]), pbc=True)
                at.set_masses(setup["masses"])
                if fr_["vel"] is not None:      # None: Atoms without momenta
                    at.set_velocities(np.array(fr_["vel"], dtype=float))
                tr.write(at)
            tr.close()
            return [(fn, i) for i in range(len(frames))], [fn]
        raise ValueError(k)

    # -- independent parsers of the written configuration
    def read(self, fn, setup):
        k = self.kind
        if k in ("turtle", "cp2k"):
            with open(fn) as f:
                lines = f.read().split("\n")
            n = int(lines[0])
            hdr = lines[1]
            box = [float(x) for x in hdr.lower().split("box:")[1].split()] if "box:" in hdr.lower() else None
            labels, pos, vel, nvel = [], [], [], 0
            for ln in lines[2:2 + n]:
                t = ln.split()
                labels.append(t[0])
                pos.append([float(x) for x in t[1:4]])
                nvel += len(t) >= 7
                vel.append([float(x) for x in t[4:7]] if len(t) >= 7 else [0.0, 0.0, 0.0])
            assert [x for x in lines[2 + n:] if x.strip()] == [], "trailing data in xyz"
            return {"labels": labels, "pos": pos, "vel": vel, "box": box, "nvel": nvel}
        if k == "lammps":
            with open(fn) as f:
                lines = f.read().split("\n")
            n = int(lines[3])
            box = [[float(x) for x in lines[5 + i].split()] for i in range(3)]
            rows = [ln.split() for ln in lines[9:9 + n]]
            assert [x for x in lines[9 + n:] if x.strip()] == [], "trailing data in lammpstrj"
            return {"labels": [f"{r[0]}:{r[1]}" for r in rows], "pos": [[float(x) for x in r[2:5]] for r in rows],
                    "vel": [[float(x) for x in r[5:8]] if len(r) >= 8 else [0.0, 0.0, 0.0] for r in rows],
                    "nvel": sum(len(r) >= 8 for r in rows), "box": [b[1] - b[0] for b in box], "boxraw": box}
        if k == "gromacs":
            sec, cur = {}, None
            with open(fn) as f:
                for ln in f.read().split("\n"):
                    s = ln.strip()
                    if s in ("TITLE", "POSITION", "VELOCITY", "BOX"):
                        cur = s
                        sec[cur] = []
                    elif s == "END":
                        cur = None
                    elif cur:
                        sec[cur].append(ln)
            def nums(ln):
                return [float(ln[24 + 15 * i:24 + 15 * (i + 1)]) for i in range(3)]
            vlines = sec.get("VELOCITY", [])
            npos = len(sec["POSITION"])
            # a missing VELOCITY line reads back as zero velocity (read_gromos96_file)
            return {"labels": [ln[:24] for ln in sec["POSITION"]], "vlabels": [ln[:24] for ln in vlines],
                    "pos": [nums(ln) for ln in sec["POSITION"]],
                    "vel": [nums(ln) for ln in vlines[:npos]] + [[0.0, 0.0, 0.0]] * max(0, npos - len(vlines)),
                    "nvel": len(vlines), "box": [float(x) for x in sec["BOX"][0].split()], "title": sec.get("TITLE")}
        if k == "ase":
            from ase.io import read
            at = read(fn)
            if isinstance(at, list):
                at = at[0]
            return {"labels": [f"{z}:{m!r}" for z, m in zip(at.numbers.tolist(), at.get_masses().tolist())],
                    "pos": at.positions.tolist(), "vel": at.get_velocities().tolist(),
                    "nvel": len(at.arrays["momenta"]) if "momenta" in at.arrays else 0,
                    "box": at.cell.diagonal().tolist(), "cell": at.cell[:].tolist(), "pbc": at.pbc.tolist()}
        raise ValueError(k)

    def expected_labels(self, setup):
        k = self.kind
        names = setup["names"]
        if k in ("turtle", "cp2k"):
            return list(names)
        if k == "lammps":
            return [f"{lmp_ids(setup)[a - 1]}:{setup['types'][a - 1]}" for a in range(1, len(names) + 1)]
        if k == "gromacs":
            return [g96_label(i, nm) for i, nm in enumerate(names)]
        if k == "ase":
            return [f"{ASE_NUMBERS[nm]}:{float(m)!r}" for nm, m in zip(names, setup["masses"])]


def lmp_ids(setup):
    """LAMMPS atom ids of a set-up: legal ids need not be 1..N (atoms deleted, ids starting elsewhere); derived
    from the file order so that the choice is a function of the generated set-up"""
    n = len(setup["names"])
    style = sum(setup.get("file_order") or [0]) % 3
    if style == 0:
        return list(range(1, n + 1))
    if style == 1:
        return [3 * a + 2 for a in range(n)]          # 2, 5, 8, ...
    return list(range(1001, 1001 + n))


def xyz_frame(names, pos, vel, box):
    """One xyz snapshot.  Both optional entries of the format can be absent: `box=None` gives a
    comment line without "Box:", `vel=None` lines without velocity columns."""
    out = [f"{len(names)}", "# generated for C16" if box is None else "# Box: " + " ".join(f"{float(b):9.4f}" for b in box)]
    for i, (nm, p) in enumerate(zip(names, pos)):
        out.append(f"{nm:5s} " + " ".join(f"{float(x):15.9f}" for x in list(p) + (list(vel[i]) if vel is not None else [])))
    return "\n".join(out) + "\n"


def g96_label(i, nm):
    return f"{1:5d} {'RES':<5s} {nm:<5s}{i + 1:7d}"


def g96_frame(names, pos, vel, box):
    out = ["TITLE", "generated for C16", "END", "POSITION"]
    for i, (nm, p) in enumerate(zip(names, pos)):
        out.append(g96_label(i, nm) + "".join(f"{float(x):15.9f}" for x in p))
    out += ["END"]
    if vel is not None:        # vel=None: a frame without VELOCITY block (e.g. an energy-minimised start configuration)
        out += ["VELOCITY"]
        for i, (nm, v) in enumerate(zip(names, vel)):
            out.append(g96_label(i, nm) + "".join(f"{float(x):15.9f}" for x in v))
        out += ["END"]
    out += ["BOX", "".join(f"{float(b):15.9f}" for b in box), "END"]
    return "\n".join(out) + "\n"


class FirstCoordinate:
    """Order function used by prepare_shooting_point -> calculate_order: reads the frame the
    System points to (so it sees genvel.*), returns x and vx of the first atom."""
    velocity_dependent = True

    def calculate(self, system):
        return [float(system.pos[0][0]), float(system.vel[0][0])]


# ----------------------------------------------------------------------------- case generation
def round_dec(x, d):
    return float(f"{x:.{d}f}")


# Frames of the source path.  0, 1: moving; 2: at rest (zero velocities written out); from 3 on: frames
# whose FILE lacks an optional entry of its format -- "vel": no VELOCITY block (g96) / no velocity
# columns (xyz) / Atoms without momenta (ASE), all of which read as zero velocities; "box": no "Box:"
# entry in the comment line of an xyz snapshot (TurtleMD then writes none either, CP2K takes the
# ABC of its input template).  lammpstrj has no optional entries, a g96 frame needs its BOX block.
MISSING = {
    "turtle": {3: ("vel",), 4: ("vel", "box"), 5: ("box",)},
    "cp2k": {3: ("vel",), 4: ("vel", "box"), 5: ("box",)},
    "gromacs": {3: ("vel",)},
    "ase": {3: ("vel",)},
    "lammps": {},
}
CP2K_TEMPLATE_BOX = [30.0, 30.0, 30.0]       # ABC of CP2K_INP


def shoot_indices(kind):
    return [1, 2] + sorted(MISSING[kind])


def make_frames(rng, kind, n, nframes, zero_vel_at=None, missing=None):
    mag = SRC_VEL_MAG[kind]
    frames = []
    for t in range(nframes):
        pos = [[round_dec(rng.uniform(0.0, 2.9), 6) for _ in range(3)] for _ in range(n)]
        if zero_vel_at is not None and t == zero_vel_at:
            vel = [[0.0, 0.0, 0.0] for _ in range(n)]
        else:
            vel = [[round_dec(rng.uniform(-1, 1) * mag, 9) for _ in range(3)] for _ in range(n)]
        box = [round_dec(rng.uniform(3.0, 9.0), 4) for _ in range(3)]
        miss = (missing or {}).get(t, ())
        frames.append({"pos": pos, "vel": None if "vel" in miss else vel, "box": None if "box" in miss else box})
    return frames


def as_read(kind, src, n):
    """(velocities, box) the engine's own reader returns for a source frame."""
    vel = src["vel"] if src["vel"] is not None else [[0.0, 0.0, 0.0] for _ in range(n)]
    box = src["box"] if src["box"] is not None else (list(CP2K_TEMPLATE_BOX) if kind == "cp2k" else None)
    return vel, box


def missing_of(src):
    return "+".join(k for k in ("vel", "box") if src[k] is None)


def setups_for(kind, tier, rng):
    """(T, masses, names, ...) combinations per engine."""
    Ts = [300.0, 75.5, 1000.25, 2.0] if tier == "quick" else [300.0, 75.5, 1000.25, 2.0, 0.5, 4321.125]
    out = []
    sizes = [1, 2, 3, 4] if tier == "quick" else [1, 2, 3, 4, 5, 7]
    for si, n in enumerate(sizes):
        for ti, T in enumerate(Ts):
            if (si + ti) % (2 if tier == "quick" else 1) != 0 and not (n <= 2 and ti == 0):
                continue
            s = {"kind": kind, "T": T}
            if kind == "lammps":
                if n < 2:
                    continue        # LAMMPSEngine cannot be constructed for one atom (genfromtxt gives 1-D arrays)
                ntypes = min(n, 3)
                tm = [round_dec(rng.uniform(1.0, 40.0), 5) for _ in range(ntypes)]
                types = [1 + (i % ntypes) for i in range(n)]
                if (si + ti) % 4 == 0 or (n == 2 and ti == 0):
                    # the data file declares a type no atom uses, below a used one: the mass of an atom is the
                    # Masses row of its type id, not of the rank of its type among the types present
                    hole = 1 + (si + ti) % ntypes
                    tm.insert(hole - 1, round_dec(rng.uniform(50.0, 90.0), 5))
                    types = [t + 1 if t >= hole else t for t in types]
                rng.shuffle(types)
                s.update(type_masses=tm, types=types, masses=[tm[t - 1] for t in types],
                         names=[f"a{i}" for i in range(n)], file_order=rng.sample(range(1, n + 1), n))
            elif kind == "cp2k":
                names = [CP2K_NAMES[(i + si + ti) % len(CP2K_NAMES)] for i in range(n)]
                s.update(names=names, masses=None)
            elif kind == "ase":
                names = [CP2K_NAMES[(i + 2 * si + ti) % len(CP2K_NAMES)] for i in range(n)]
                s.update(names=names, masses=[round_dec(rng.uniform(1.0, 60.0), 4) for _ in range(n)])
            elif kind == "gromacs":
                s.update(names=[f"A{i}" for i in range(n)], masses=[round_dec(rng.uniform(1.0, 60.0), 4) for _ in range(n)])
            else:   # turtle
                kb = KB_KJMOL if (si + ti) % 2 == 0 else round_dec(rng.uniform(0.5, 2.0), 3)
                s.update(names=[("H", "O", "C")[i % 3] for i in range(n)],
                         masses=[round_dec(rng.uniform(0.5, 30.0), 4) for _ in range(n)], kb=kb)
            out.append(s)
    return out


ALPHA = [Fr(-1), Fr(0), Fr(3, 2)]


def z_patterns(rng, n, tier, full=True):
    """Streams of n*3 standard-normal values: exhaustive over ALPHA for one atom, all sign/zero
    structures sampled for more, then dyadic random values.  `full`: thorough tier enumerates all
    729 two-atom streams (done for the first set-up of each (engine, size), sampled for the rest)."""
    m = n * 3
    pats = []
    if n == 1:
        pats += [list(p) for p in itertools.product(ALPHA, repeat=3)]
    else:
        allp = list(itertools.product(ALPHA, repeat=m)) if m <= 6 else None
        k = 30 if tier == "quick" else 80
        if allp is not None and tier == "thorough" and full:
            pats += [list(p) for p in allp]
        elif allp is not None:
            pats += [list(p) for p in rng.sample(allp, k)]
        else:
            pats += [[rng.choice(ALPHA) for _ in range(m)] for _ in range(k)]
    nr = 12 if tier == "quick" else 30
    for _ in range(nr):
        pats.append([Fr(rng.randrange(-4096, 4097), 1024) for _ in range(m)])
    return pats


# ----------------------------------------------------------------------------- one evaluation
def file_hashes(files):
    out = {}
    for f in files:
        with open(f, "rb") as fh:
            out[f] = hashlib.sha1(fh.read()).hexdigest()
    return out


def snapshot_path(path):
    snap = []
    for s in path.phasepoints:
        snap.append((id(s), tuple(s.config), list(s.order), s.ekin, s.vpot, s.vel_rev,
                     np.array(s.pos).tobytes(), np.array(s.vel).tobytes(),
                     None if s.box is None else np.array(s.box).tobytes(), dict(s.temperature)))
    return snap


def evaluate(kit, eng, setup, frames, cfgs, files, idx, zm, stream, ekins, ase_source, use_real=None, ref_stream=None, fresh=True):
    """Run the real prepare_shooting_point on a path over `frames`, shooting from `idx`.
    `fresh=False`: conf.* / genvel.* left in the exe_dir by an earlier call stay where they are
    (no clean-up between the calls of one move).

    Returns (obs, errs): observations for the correspondence and a list of oracle failures."""
    from infretis.classes.path import Path as InfPath
    from infretis.classes.system import System
    from infretis.core.tis import prepare_shooting_point
    kind = kit.kind
    n = len(setup["names"])
    path = InfPath(maxlen=20)
    for i, cfg in enumerate(cfgs):
        s = System()
        s.config = cfg
        s.order = [0.25 * i, 0.0]
        s.ekin = ekins[i]
        s.vpot = -1.5 * i
        s.vel_rev = False
        path.append(s)
    before = snapshot_path(path)
    hashes = file_hashes(files)
    vs = {"aimless": True}
    if zm is not None:
        vs["zero_momentum"] = zm
    for fn in ("conf", "genvel") if fresh else ():
        p = os.path.join(eng.exe_dir, f"{fn}.{eng.ext}")
        if os.path.exists(p):
            os.remove(p)
    if use_real is None:
        rec = Recorder(stream, "engine.rgen")
        grec = Recorder(stream, "numpy.random")
    else:
        rec, grec = use_real
    eng.rgen = rec
    ret = {}
    orig = type(eng).modify_velocities

    def wrapped(system, vel_settings):
        out = orig(eng, system, vel_settings)
        ret["out"] = out
        ret["system"] = system
        return out

    eng.modify_velocities = wrapped
    try:
        with (global_numpy_normal(grec) if (kind == "ase" and use_real is None) else contextlib.nullcontext()), \
                contextlib.redirect_stdout(io.StringIO()):     # GROMACS print()s a note for a frame without velocities
            shpt, ridx, dek = prepare_shooting_point(path, PickIdx(idx), eng, {"tis_set": vs})
    finally:
        del eng.modify_velocities
    (dek_ret, kin_new_ret) = ret["out"]
    errs = []
    obs = {}
    # --- which stream was used
    used = rec if rec.calls else grec
    if rec.calls and grec.calls:
        errs.append("both engine.rgen and numpy's global generator were used")
    obs["draw_source"] = "engine.rgen" if rec.calls else ("numpy.random (global)" if grec.calls else "none")
    obs["consumed"] = getattr(used, "pos", None)
    if len(used.calls) != 1:
        errs.append(f"expected exactly one draw call, saw {len(used.calls)}")
    call = used.calls[0] if used.calls else {}
    # --- sigma
    mass = kit.engine_masses(eng, setup)
    obs["mass"] = mass
    beta = eng.beta
    if kind == "ase":
        from ase import units as aseu
        sig = [float(x) for x in np.sqrt(np.array(mass) * (aseu.kB * eng.temperature))]
        kT_draw = fr(aseu.kB) * fr(eng.temperature)
        for s_, m_ in zip(sig, mass):
            if abs(fr(s_) ** 2 / (fr(m_) * kT_draw) - 1) > Fr(1, 10 ** 12):
                errs.append("sigma_p^2 != m*kT (harness model of ASE's draw)")
        if call.get("size") != (n, 3):
            errs.append(f"ASE drew size {call.get('size')}, expected {(n, 3)}")
    else:
        sc = call.get("scale")
        if sc is None or sc.shape != (n, 1):
            errs.append(f"scale argument has shape {None if sc is None else sc.shape}, expected {(n, 1)}")
            sig = [1.0] * n
        else:
            sig = [float(x) for x in sc[:, 0]]
        if call.get("loc") != 0.0:
            errs.append(f"loc = {call.get('loc')}")
        if call.get("size") != (n, 3):
            errs.append(f"drew size {call.get('size')}, expected {(n, 3)}")
        for s_, m_ in zip(sig, mass):
            if abs(fr(s_) ** 2 * fr(m_) * fr(beta) - 1) > Fr(1, 10 ** 12):
                errs.append(f"sigma^2*m*beta = {float(fr(s_) ** 2 * fr(m_) * fr(beta))!r} != 1 (sigma={s_!r}, m={m_!r}, beta={beta!r})")
    obs["sig"] = sig
    obs["beta"] = beta
    # --- files
    genvel = os.path.join(eng.exe_dir, f"genvel.{eng.ext}")
    out = kit.read(genvel, setup)
    src = frames[idx]
    obs["out"] = out
    exp_labels = kit.expected_labels(setup)
    # the written file carries one velocity entry per atom (whether or not the source frame had any)
    if out["nvel"] != n:
        errs.append(f"genvel.{eng.ext} holds {out['nvel']} velocity entries for {n} atoms "
                    f"(source frame {'without' if src['vel'] is None else 'with'} velocities): the regenerated velocities "
                    f"are not in the file, the missing ones read back as zero")
    if out["labels"] != exp_labels:
        errs.append(f"atom identities changed: {out['labels']} != {exp_labels}")
    elif kind == "gromacs" and out["nvel"] == n and out["vlabels"] != exp_labels:
        errs.append(f"atom identities changed in the VELOCITY block: {out['vlabels']} != {exp_labels}")
    if [[fr(x) for x in r] for r in out["pos"]] != [[fr(x) for x in r] for r in src["pos"]]:
        errs.append(f"positions changed: {out['pos']} != {src['pos']}")
    src_vel, src_box = as_read(kind, src, n)
    if (out["box"] is None) != (src_box is None) or [fr(x) for x in out["box"] or []] != [fr(x) for x in src_box or []]:
        errs.append(f"box changed: {out['box']} != {src_box}")

    if kind == "lammps" and [b[0] for b in out["boxraw"]] != [0.0, 0.0, 0.0]:
        errs.append("box origin changed")
    if kind == "ase" and (out["pbc"] != [True, True, True] or
                          out["cell"] != [[src["box"][0], 0, 0], [0, src["box"][1], 0], [0, 0, src["box"][2]]]):
        errs.append("cell/pbc changed")
    # --- source path, frames and files untouched; the returned System is a new object
    after = snapshot_path(path)
    if after != before:
        errs.append("a frame of the source path was altered by prepare_shooting_point")
    if file_hashes(files) != hashes:
        errs.append("a source trajectory file was altered")
    if any(shpt is s for s in path.phasepoints) or ret["system"] is not shpt:
        errs.append("velocities were modified on a frame object of the path (no copy)")
    if ridx != idx:
        errs.append("returned index differs from the picked one")
    if tuple(shpt.config) != (genvel, 0):
        errs.append(f"returned System points to {shpt.config}, expected {(genvel, 0)}")
    if shpt.ekin != kin_new_ret:
        errs.append(f"System.ekin {shpt.ekin!r} != returned kin_new {kin_new_ret!r}")
    if dek != dek_ret:
        errs.append("prepare_shooting_point returned another dek than modify_velocities")
    if list(shpt.order) != [out["pos"][0][0], out["vel"][0][0]]:
        errs.append(f"order parameter {shpt.order} not computed from the regenerated frame")
    # --- kinetic energies recomputed from the files (exact rational arithmetic)
    q = FILE_QUANTUM[kind]
    M = [fr(m) for m in mass]
    vf = [[fr(x) for x in r] for r in out["vel"]]
    kin_file = sum(M[i] * vf[i][j] ** 2 for i in range(n) for j in range(3)) / 2
    vmag, kin_scale = scales(kind, obs, M, stream if stream is not None else ref_stream, n)
    obs["vmag"], obs["kin_scale"] = vmag, kin_scale
    kin_slack = sum(M[i] * (abs(vf[i][j]) * q + q * q / 2) for i in range(n) for j in range(3)) + REL * max(abs(kin_file), kin_scale)
    obs["kin_file"] = kin_file
    obs["kin_slack"] = kin_slack
    kn = fr(kin_new_ret)
    if abs(kn - kin_file) > kin_slack:
        errs.append(f"returned kin_new {kin_new_ret!r} is not the kinetic energy of the written velocities {float(kin_file)!r}")
    if kind == "gromacs":
        kin_old = None if ekins[idx] is None else fr(ekins[idx])
        inf_expected = kin_old is None
    else:
        vo = [[fr(x) for x in r] for r in src_vel]       # zero when the source frame has no velocities
        kin_old = sum(M[i] * vo[i][j] ** 2 for i in range(n) for j in range(3)) / 2
        inf_expected = kin_old == 0
    obs["kin_old"] = kin_old
    if inf_expected:
        if dek_ret != float("inf"):
            errs.append(f"dek = {dek_ret!r} although the old kinetic energy is missing/zero")
    else:
        if not math.isfinite(dek_ret):
            errs.append(f"dek = {dek_ret!r} although kin_old = {float(kin_old)!r}")
        elif abs(fr(dek_ret) - (kn - kin_old)) > REL * max(abs(kn), abs(kin_old), kin_scale):
            errs.append(f"dek {dek_ret!r} != kin_new - kin_old = {float(kn - kin_old)!r}")
    # --- zero total momentum when requested
    obs["P"] = [sum(M[i] * vf[i][j] for i in range(n)) for j in range(3)]
    obs["Pslack"] = sum(M) * q + REL * sum(M) * vmag
    if zm is True:
        for j in range(3):
            if abs(obs["P"][j]) > obs["Pslack"]:
                errs.append(f"total momentum component {j} = {float(obs['P'][j])!r} after zero_momentum")
    obs["ret"] = (dek_ret, kin_new_ret)
    obs["genvel_bytes"] = open(genvel, "rb").read()
    obs["vel_rev"] = shpt.vel_rev
    return obs, errs


def scales(kind, obs, M, stream, n):
    """Largest drawn speed and the kinetic energy before any momentum reset (tolerance scales only)."""
    div = [Fr(48) if kind == "lammps" else (M[i] if kind == "ase" else Fr(1)) for i in range(n)]
    pre = [[abs(fr(obs["sig"][i]) * Fr(stream[i * 3 + j]) / div[i]) for j in range(3)] for i in range(n)]
    vmag = max(max(r) for r in pre)
    return vmag, sum(M[i] * pre[i][j] ** 2 for i in range(n) for j in range(3)) / 2


def temperature_oracle(kind, setup, obs, stream, T):
    """m v^2 in SI against k_B T z^2 (zero_momentum off), independent of the engines' constants."""
    if kind == "turtle" and setup["kb"] != KB_KJMOL:
        return [], 0, 0
    mu, v2 = SI_UNITS[kind]
    q = FILE_QUANTUM[kind]
    errs, done, skipped = [], 0, 0
    tol = Fr(3, 10 ** 6)
    n = len(obs["mass"])
    for i in range(n):
        for j in range(3):
            z = Fr(stream[i * 3 + j])
            v = fr(obs["out"]["vel"][i][j])
            if z == 0:
                if abs(v) > q:
                    errs.append(f"component ({i},{j}) is {float(v)!r} for z = 0 (non-zero mean)")
                done += 1
                continue
            rnd = 2 * q / abs(v) if v != 0 else Fr(1)
            if rnd > Fr(1, 10 ** 4):
                skipped += 1
                continue
            lhs = fr(obs["mass"][i]) * mu * v * v * v2
            rhs = SI_K * fr(T) * z * z
            if abs(lhs / rhs - 1) > tol + rnd or (v > 0) != (z > 0):
                errs.append(f"m v^2 = {float(lhs)!r} J but k_B T z^2 = {float(rhs)!r} J for atom {i} component {j} (ratio {float(lhs / rhs)!r})")
            done += 1
    return errs, done, skipped


def request_for(kind, setup, obs, frames, idx, zm, stream, ekin, ase_fixed):
    src = frames[idx]
    n = len(setup["names"])
    zmq = "N" if zm is None else str(int(zm))
    ids = ",".join(str(i + 1) for i in range(n))
    src_vel, src_box = as_read(kind, src, n)
    tail = [ids, qlist(fr(s) for s in obs["sig"]), qlist(stream)]
    mass, pos = qlist(fr(m) for m in obs["mass"]), qcols([[fr(x) for x in r] for r in src["pos"]])
    if kind == "ase":
        return " ".join(["ase", str(int(ase_fixed)), zmq, mass, pos, qcols([[fr(x) for x in r] for r in src_vel]),
                         qlist(fr(x) for x in src_box)] + tail)
    ek = "N" if ekin is None else qs(fr(ekin))
    if kind == "gromacs" or src["vel"] is None or src["box"] is None:
        # file-level model (VelM.modify_file): the optional entries of the source FILE are options,
        # the reader's defaults (zero velocities; CP2K: template box) are the model's, and the number
        # of velocity lines written follows write_gromos96_file's "one per entry of txt['VELOCITY']"
        # with the special case for a frame without VELOCITY block switched on (as in /repo)
        velo = "N" if src["vel"] is None else qcols([[fr(x) for x in r] for r in src["vel"]])
        boxo = "N" if src["box"] is None else qlist(fr(x) for x in src["box"])
        dflt = qlist(fr(x) for x in CP2K_TEMPLATE_BOX) if kind == "cp2k" else "-"
        return " ".join(["file", kind, "1", zmq, ek, dflt, mass, pos, velo, boxo] + tail)
    return " ".join(["std", kind, zmq, ek, mass, pos, qcols([[fr(x) for x in r] for r in src_vel]),
                     qlist(fr(x) for x in src_box)] + tail)


def compare_model(kind, obs, ans, stream_len):
    """Model answer vs implementation. Returns list of disagreement strings."""
    if ans.startswith("ERR"):
        return [f"model runner error: {ans}"]
    t = ans.split(" ")
    mvel, mkin, mdek, mkold, mpos, mbox, mids, mrest = t
    bad = []
    q = FILE_QUANTUM[kind]
    cols = parse_cols(mvel)
    vf = obs["out"]["vel"]
    n = len(vf)
    if len(cols) != 3 or any(len(c) != n for c in cols):
        return [f"model velocity shape {len(cols)}x{[len(c) for c in cols]} (implementation wrote {obs['out'].get('nvel')} velocity entries for {n} atoms)"]
    if obs["out"].get("nvel", n) != n:
        return [f"velocity entries written: impl {obs['out'].get('nvel')} model {n}"]
    for i in range(n):
        for j in range(3):
            d = abs(fr(vf[i][j]) - cols[j][i])
            if d > q + REL * max(abs(cols[j][i]), obs["vmag"]):
                bad.append(f"velocity ({i},{j}): file {vf[i][j]!r} model {float(cols[j][i])!r}")
    dek_ret, kin_new_ret = obs["ret"]
    mk = common.parse_q(mkin)
    if abs(fr(kin_new_ret) - mk) > REL * max(abs(mk), obs["kin_scale"]):
        bad.append(f"kin_new: impl {kin_new_ret!r} model {float(mk)!r}")
    if mdek == "INF":
        if dek_ret != float("inf"):
            bad.append(f"dek: impl {dek_ret!r} model inf")
    else:
        md = common.parse_q(mdek)
        ko = common.parse_q(mkold) if mkold != "N" else Fr(0)
        if not math.isfinite(dek_ret) or abs(fr(dek_ret) - md) > REL * max(abs(mk), abs(ko), obs["kin_scale"]):
            bad.append(f"dek: impl {dek_ret!r} model {float(md)!r}")
    if stream_len - int(mrest) != obs["consumed"]:
        bad.append(f"stream values consumed: impl {obs['consumed']} model {stream_len - int(mrest)}")
    # positions / box are echoed by the model: compare with the written file
    pc = parse_cols(mpos)
    for i in range(n):
        for j in range(3):
            if fr(obs["out"]["pos"][i][j]) != pc[j][i]:
                bad.append(f"position ({i},{j}) differs from the model's (= input)")
    if [fr(x) for x in obs["out"]["box"] or []] != ([] if mbox == "-" else [common.parse_q(x) for x in mbox.split(",")]):
        bad.append("box differs from the model's (= input; CP2K without 'Box:': the template's; TurtleMD without: none)")
    return bad[:4]


def run_parallel(runner, reqs, workers=8):
    """The extracted rational arithmetic is slow (~15 ms per request): several runner processes."""
    from concurrent.futures import ThreadPoolExecutor
    if len(reqs) < 4 * workers:
        return runner.run(reqs)
    size = (len(reqs) + workers - 1) // workers
    chunks = [reqs[i:i + size] for i in range(0, len(reqs), size)]
    with ThreadPoolExecutor(max_workers=workers) as ex:
        parts = list(ex.map(runner.run, chunks))
    return [a for p_ in parts for a in p_]


# ----------------------------------------------------------------------------- sequences of calls in one exe_dir
# Velocities are regenerated several times between two clean_up() calls of a worker directory: select_shoot
# cleans it once per move, wire_fencing then calls shoot -> prepare_shooting_point once per jump.  conf.<ext> and
# genvel.<ext> of the earlier calls are still in the directory when the next call dumps ITS shooting point.
# Family: several consecutive calls of the real prepare_shooting_point -> modify_velocities in ONE exe_dir, no
# clean-up in between, on DIFFERENT shooting points (other frames of the same trajectory file, frames of another
# file, frames whose file lacks velocities / the box entry, and the first shooting point once more at the end), each
# call with its own draws.  Oracle per call = the oracle of `evaluate` for THAT call's shooting point (positions,
# box, identities, kin_old of that frame's velocities, kin_new of the written velocities, dek, momentum, sources
# untouched) + the SI temperature statement; model: VelM.modify_seq with the rule "extraction overwrites"
# (C16_sequence_independent: every call yields what it yields alone).
SEQ_EXTRA = 2          # stream values handed out beyond the npart*3 a call consumes
SEQ_WALL = [0.0]       # seconds spent in the real calls of the family (reported under coverage.sequences)


def sequence_calls(rng, kind, n):
    """[{file, idx, stream}]: every special frame of source 0, two frames of source 1, in an order that has both a
    step inside one file and a step between files; then the first shooting point again."""
    cand = [(0, i) for i in shoot_indices(kind)] + [(1, 1), (1, 2)]
    for _ in range(50):
        rng.shuffle(cand)
        steps = list(zip(cand, cand[1:]))
        if any(a[0] == b[0] for a, b in steps) and any(a[0] != b[0] for a, b in steps):
            break
    cand = cand + [cand[0]]
    return [{"file": f, "idx": i, "stream": [qs(Fr(rng.randrange(-4096, 4097), 1024)) for _ in range(n * 3 + SEQ_EXTRA)]} for f, i in cand]


def run_sequence(kit, eng, setup, sources, calls, zm, ekins, ase_src):
    """The calls, one after the other, in one fresh exe_dir.  sources: [(frames, cfgs, files)].
    -> [(obs or None, errs)] per call made (stops after a call that raised)."""
    kind = kit.kind
    n = len(setup["names"])
    old_exe = eng.exe_dir
    eng.exe_dir = kit.newdir("seqexe")
    allfiles = [f for _, _, fl in sources for f in fl]
    out = []
    try:
        for k, c in enumerate(calls):
            frames, cfgs, _ = sources[c["file"]]
            stream = [common.parse_q(z) for z in c["stream"]]
            try:
                obs, errs = evaluate(kit, eng, setup, frames, cfgs, allfiles, c["idx"], zm, stream, ekins, ase_src, fresh=False)
            except Exception as e:  # noqa: BLE001  a crash of the real code on a legal input is a finding
                import traceback
                out.append((None, [f"prepare_shooting_point / modify_velocities raised {type(e).__name__}: {e} [{traceback.format_exc(limit=3)[-400:]}]"]))
                break
            if any(x.startswith("positions changed") for x in errs):
                got = [[fr(x) for x in r] for r in obs["out"]["pos"]]
                whose = [j + 1 for j, cj in enumerate(calls[:k]) if [[fr(x) for x in r] for r in sources[cj["file"]][0][cj["idx"]]["pos"]] == got]
                if whose:
                    errs.insert(0, f"the regenerated frame carries the positions of the shooting point of call {whose[-1]} (source {calls[whose[-1] - 1]['file']}, frame {calls[whose[-1] - 1]['idx']}), "
                                   f"not of its own (source {c['file']}, frame {c['idx']}): state of an earlier call leaked through the exe_dir")
            if zm is False:
                e_, _, _ = temperature_oracle(kind, setup, obs, stream, setup["T"])
                errs += ["wrong temperature: " + m for m in e_[:1]]
            out.append((obs, errs))
    finally:
        eng.exe_dir = old_exe
    return out


def seq_request(kind, setup, sources, calls, zm, ekins, sig, mass, ase_fixed, overwrite=True):
    """One request line for VelM.seq_results: the source files as read (reader defaults filled in), the calls."""
    n = len(setup["names"])

    def fstr(src):
        vel, box = as_read(kind, src, n)
        return "@".join([qcols([[fr(x) for x in r] for r in src["pos"]]), qcols([[fr(x) for x in r] for r in vel]), qlist(fr(x) for x in (box or []))])

    files = "!".join("|".join(fstr(f) for f in frames) for frames, _, _ in sources)
    cs = "|".join("~".join([str(c["file"]), str(c["idx"]), "N" if ekins[c["idx"]] is None else qs(fr(ekins[c["idx"]])), ",".join(c["stream"])]) for c in calls)
    return " ".join(["seq", kind, str(int(overwrite)), str(int(ase_fixed)), "N" if zm is None else str(int(zm)), qlist(fr(m) for m in mass),
                     ",".join(str(i + 1) for i in range(n)), qlist(fr(x) for x in sig), files, cs])


def sequence_stage(ctx, kit, eng, setup, sources, ekins, ase_src, ase_fixed, seq_runs, rng):
    kind = kit.kind
    n = len(setup["names"])
    t0 = time.time()
    for zm in (None, False, True):
        calls = sequence_calls(rng, kind, n)
        desc = {"family": "sequence", "engine": kind, "setup": setup, "sources": [fr_ for fr_, _, _ in sources], "calls": calls, "zero_momentum": zm, "ekins": list(ekins)}
        res = run_sequence(kit, eng, setup, sources, calls, zm, ekins, ase_src)
        first = next((o for o, _ in res if o is not None), None)
        req = seq_request(kind, setup, sources, calls[:len(res)], zm, ekins, first["sig"], first["mass"], ase_fixed) if first is not None else None
        seq_runs.append((kind, desc, res, req))
        for k, (o, _) in enumerate(res):
            ctx.count(("sequence", kind, k, req))
            ctx.dist(f"sequence/{kind}/zm={zm}")
            src = sources[calls[k]["file"]][0][calls[k]["idx"]]
            ctx.dist(f"sequence/{kind}/shooting point: " + ("complete frame" if not missing_of(src) else "file without " + missing_of(src)))
        for a, b in zip(calls, calls[1:]):
            ctx.dist("sequence/step " + ("inside one trajectory file" if a["file"] == b["file"] and kind != "gromacs" else "to another file"))
    SEQ_WALL[0] += time.time() - t0


def sequence_report(ctx, runner, seq_runs):
    """Oracle failures (with the sequence as failing input) first; the lock-step with VelM.seq_results otherwise."""
    reqs = [rq for _, _, _, rq in seq_runs if rq is not None]
    try:
        outs = iter(run_parallel(runner, reqs)) if runner is not None else None
    except Exception as e:  # noqa: BLE001  (e.g. a stale runner that does not know the request)
        ctx.violation(f"model runner failed on the sequence requests: {e!r}", {"obligation": "c16 runner `seq`"}, False)
        outs = None
    reported = corr = ncalls = 0
    pending = []
    for kind, desc, res, rq in seq_runs:
        ncalls += len(res)
        ans = next(outs) if (outs is not None and rq is not None) else None
        bad_call = next((k for k, (_, errs) in enumerate(res) if errs), None)
        if bad_call is not None:
            reported += 1
            o, errs = res[bad_call]
            if reported <= 3:
                ctx.violation(f"C16 statement fails on the implementation ({kind}, call {bad_call + 1} of {len(desc['calls'])} consecutive modify_velocities calls in one exe_dir without clean-up, "
                              f"shooting point = source {desc['calls'][bad_call]['file']} frame {desc['calls'][bad_call]['idx']}): {errs[0]}",
                              {"case": desc, "failing_call": bad_call + 1, "errors": errs[:6], "impl": impl_view(o) if o is not None else None,
                               "errors_of_all_calls": [e[:2] for _, e in res], "model": None if ans is None else ans[:2000]}, True)
            continue
        if ans is None:
            continue
        parts = ans.split(" # ")
        bad = []
        if ans.startswith("ERR") or ans == "NONE" or len(parts) != len(res):
            bad = [f"model answered {ans[:200]!r} for {len(res)} calls"]
        else:
            for k, ((o, _), a) in enumerate(zip(res, parts)):
                d = compare_model(kind, o, a + f" {SEQ_EXTRA}", len(desc["calls"][k]["stream"]))
                if d:
                    bad = [f"call {k + 1}: {x}" for x in d]
                    break
        if bad:
            corr += 1
            pending.append((f"correspondence model/implementation broken for a sequence of {kind} modify_velocities calls in one exe_dir: {bad[0]} "
                            f"(the property oracle found no failing input in this sequence)",
                            {"correspondence": "c16 runner `seq` (VelM.seq_results, extraction overwrites) vs consecutive engine.modify_velocities calls", "case": desc, "differences": bad[:4], "request": rq[:3000], "model": ans[:2000]}))
    if not reported:
        for what, payload in pending[:3]:
            ctx.violation(what, payload, False)
    ctx.cov["sequences"] = {"sequences": len(seq_runs), "calls": ncalls, "compared_with_model": len(reqs) if outs is not None else 0, "oracle_failures": reported, "model_disagreements": corr, "wall_s_real_calls": round(SEQ_WALL[0], 1),
                            "calls_per_sequence": sorted({len(d["calls"]) for _, d, _, _ in seq_runs})}
    if seq_runs:
        kind, desc, res, rq = seq_runs[len(seq_runs) // 2]
        ctx.sample({"sequence": {"engine": kind, "zero_momentum": desc["zero_momentum"], "calls": [(c["file"], c["idx"]) for c in desc["calls"]],
                                 "returned (dek, kin_new)": [[repr(x) for x in o["ret"]] for o, _ in res if o is not None]}}, cap=8)


# ----------------------------------------------------------------------------- call sites
# "gives zero total momentum when requested" -- wherever the package regenerates velocities.  The only
# caller of modify_velocities is tis.prepare_shooting_point (vel_settings = ens_set["tis_set"]), reached
# from shoot, from every jump of wire_fencing (which hands its sub-moves a sub-ensemble), through
# select_shoot / run_md and, in a real run, from the scheduler with the tis_set of the input file.  Three
# families: (a) the real moves on a spy engine (lattice walk recording what modify_velocities is handed),
# every velocity-related setting at non-default values, against the model VelM.handed; (b) the real
# program (setup_config -> scheduler -> run_md) with the spy as plug-in engine; (c) the real moves with a
# real in-process engine (TurtleMD): total momentum of every genvel.xyz written inside a move.
CALL_SITES_EXPECTED = {
    ("infretis/core/tis.py", "prepare_shooting_point", "modify_velocities", "call"),
    ("infretis/core/tis.py", "shoot", "prepare_shooting_point", "call"),
    ("infretis/core/tis.py", "wire_fencing", "shoot", "call"),
    ("infretis/core/tis.py", "select_shoot", "shoot", "ref"),
    ("infretis/core/tis.py", "select_shoot", "wire_fencing", "ref"),
    ("infretis/core/tis.py", "run_md", "select_shoot", "call"),
    ("infretis/setup.py", "setup_runner", "run_md", "ref"),                                   # the worker task: family (b)
    ("infretis/tools/generate_H2_loadpaths.py", "create_initial_paths", "shoot", "call"),    # always with a shooting point: no regeneration
}
K_ALLOW, K_MAXLEN = "allowmaxlength", "maxlength"
MISSING_KEY = "<no such key>"
CS_GLOBAL_INTF = [0.5, 1.5, 2.5, 5.5]
CS_ENS_NUM = 2                                      # ensemble [2+]: interfaces (0.5, 2.5, 5.5)
CS_PATHS = {"crossing": [0, 1, 2, 3, 4, 3, 2, 1, 0], "two_humps": [0, 1, 3, 4, 3, 2, 3, 5, 4, 3, 1, 0], "below": [0, 1, 2, 1, 0]}


def discover_call_sites():
    reads = params_c16.vel_settings_reads()
    sites = params_c16.velocity_call_sites()
    keys = {}
    for cls, d in reads.items():
        for k, dfl in d["keys"].items():
            keys.setdefault(k, {})[cls.split(":")[1]] = dfl
    opaque = {cls: d["opaque"] for cls, d in reads.items() if d["opaque"]}
    return reads, sites, keys, opaque


def setting_variants(keys):
    """Every key the engines read at non-default values: boolean keys at True and at False (zero_momentum
    defaults to True for CP2K / GROMACS-gmx and to False elsewhere, so each value is non-default for some
    engine), numeric / optional keys at two distinctive numbers; plus each key flipped alone."""
    def is_bool(k):
        return all(d in ("True", "False") for ds in keys[k].values() for d in ds)
    ks = sorted(keys)
    a = {k: (True if is_bool(k) else 1.5) for k in ks}
    b = {k: (False if is_bool(k) else 0.25) for k in ks}
    out = [a, b]
    for k in ks:
        for base in (a, b):
            v = dict(base)
            v[k] = (not base[k]) if is_bool(k) else (0.25 if base[k] == 1.5 else 1.5)
            if v not in out:
                out.append(v)
    out.append({})                       # nothing configured: the engines' defaults must then be left to apply
    return out


def cs_lattice_path(root, orders, name):
    from infretis.classes.path import Path as InfPath
    from infretis.classes.system import System
    fn = os.path.join(root, f"{name}.lat")
    if not os.path.exists(fn):
        with open(fn, "w") as f:
            f.write("".join(f"{x}\n" for x in orders))
    path = InfPath(maxlen=200)
    for k, x in enumerate(orders):
        s = System()
        s.config = (fn, k)
        s.order = [float(x)]
        s.vel_rev = False
        s.ekin = 0.0
        s.vpot = 0.0
        path.append(s)
    path.status = "ACC"
    path.generated = ("ld", 0, 0, 0)
    path.path_number = 7
    path.weights = (1.0,)
    return path


def cs_tis_set(desc):
    t = {K_MAXLEN: desc["maxlength"], K_ALLOW: False, "n_jumps": desc["n_jumps"], "lambda_minus_one": False, "quantis": False, "accept_all": False}
    if desc.get("cap") is not None:
        t["interface_cap"] = desc["cap"]
    t.update(desc["settings"])
    return t


def run_spy_case(desc, root):
    """One real move on the spy engine.  desc: via (direct | select_shoot | run_md), move (sh | wf), n_jumps, cap,
    path, seed, settings.  -> (records, status, configured tis_set, exception text or None)"""
    import copy
    import infretis.core.tis as tis
    from plugins.c16_plugins import SpyLatticeEngine
    from plugins.engines import IntOrder
    work = tempfile.mkdtemp(prefix="cs_", dir=root)
    exe = os.path.join(work, "exe")
    os.makedirs(exe)
    path = cs_lattice_path(root, CS_PATHS[desc["path"]], desc["path"])
    eng = SpyLatticeEngine(wall=-4)
    eng.exe_dir = exe
    eng.order_function = IntOrder()
    eng.rgen = np.random.default_rng(1000 + desc["seed"])
    tis_set = cs_tis_set(desc)
    configured = copy.deepcopy(tis_set)
    ens = {"interfaces": (CS_GLOBAL_INTF[0], CS_GLOBAL_INTF[CS_ENS_NUM], CS_GLOBAL_INTF[-1]), "tis_set": tis_set, "mc_move": desc["move"],
           "ens_name": f"{CS_ENS_NUM + 1:03d}", "start_cond": ("L",), "rgen": np.random.default_rng(desc["seed"])}
    status, exc = None, None
    saved = tis.ENGINES
    try:
        if desc["via"] == "direct":
            fn = tis.shoot if desc["move"] == "sh" else tis.wire_fencing
            _, _, status = fn(ens, path, eng, start_cond=("L",))
        else:
            tis.ENGINES = {"engine": [eng]}
            picked = {CS_ENS_NUM: {"ens": ens, "traj": path, "pn_old": 7, "eng_idx": {"engine": 0}, "exe_dir": exe}}
            if desc["via"] == "select_shoot":
                _, _, status = tis.select_shoot(picked)
            else:
                mvs = ["sh"] * (len(CS_GLOBAL_INTF))
                mvs[CS_ENS_NUM + 1] = desc["move"]
                md = {"picked": picked, "moves": [], "mc_moves": mvs, "trial_len": [], "trial_op": [], "generated": [],
                      "interfaces": list(CS_GLOBAL_INTF), "cap": desc.get("cap")}
                status = tis.run_md(md)["status"]
    except Exception as e:  # noqa: BLE001  a crash of the real move on a legal input is a finding
        import traceback
        exc = f"{type(e).__name__}: {e} [{traceback.format_exc(limit=4)[-500:]}]"
    finally:
        tis.ENGINES = saved
        common.rmtree(work)
    return eng.records, status, configured, exc


def settings_errors(records, configured, keys, opaque, what):
    """The oracle of the call-site families: every key an engine reads arrives with the configured value
    (one message per regeneration, naming the call site, the keys, the values received and configured)."""
    errs = []
    check = set(keys) | ((set(configured) - {K_ALLOW}) if opaque else set())
    order = sorted(check, key=lambda k: (k != "zero_momentum", k))
    for i, rec in enumerate(records):
        got = rec["got"]
        bad = []
        for k in order:
            want = configured.get(k, MISSING_KEY)
            have = got.get(k, MISSING_KEY)
            if have != want or type(have) is not type(want):
                bad.append((k, have, want))
        if bad:
            readers = "; ".join(f"{k}: " + (", ".join(f"{c} (default {'/'.join(d)})" for c, d in sorted(keys.get(k, {}).items())) or "an engine using the whole dictionary") for k, _, _ in bad)
            errs.append(f"{what}: regeneration {i + 1} of {len(records)} at call site {' > '.join(rec['chain']) or '?'} > modify_velocities was handed "
                        + ", ".join(f"{k} = {h!r}" for k, h, _ in bad) + "; the ensemble's tis_set has " + ", ".join(f"{k} = {w!r}" for k, _, w in bad)
                        + f" (engines reading them -- {readers})")
    return errs


class Intern:
    def __init__(self):
        self.keys = {K_ALLOW: 0, K_MAXLEN: 1}
        self.vals = {("bool", "True"): 1, ("bool", "False"): 0}

    def k(self, x):
        return self.keys.setdefault(x, len(self.keys))

    def v(self, x):
        return self.vals.setdefault((type(x).__name__, repr(x)), len(self.vals))

    def enc(self, d):
        return ",".join(f"{self.k(k)}:{self.v(v)}" for k, v in d.items()) or "-"


def handed_request(desc, configured, usable):
    it = Intern()
    mv = "sh" if desc["move"] == "sh" else f"wf:{int(usable)}:{desc['n_jumps']}"
    return f"handed 0 1 1 {mv} {it.enc(configured)}", it


def compare_handed(ans, it, records):
    if ans.startswith("ERR"):
        return f"model runner error: {ans}"
    impl = [it.enc(r["got"]) for r in records]
    model = [] if ans == "-" else ans.split(";")
    if ans == "KEYERROR":
        return "model: KeyError('maxlength'), implementation ran"
    if impl != model:
        return f"dictionaries handed to modify_velocities (interned key:value, in order): implementation {impl} != model {model}"
    return None


def spy_cases(tier, variants):
    q = tier == "quick"
    out = []
    for vi, st in enumerate(variants):
        for via in ("direct", "select_shoot", "run_md"):
            for seed in ((3,) if q else (3, 4, 5)):
                out.append({"family": "callsite-spy", "via": via, "move": "sh", "n_jumps": 2, "cap": None, "path": "crossing", "seed": seed + vi, "maxlength": 60, "settings": st})
                for nj in (1, 2, 3):
                    for cap in (None, 4.5):
                        for pth in (("crossing", "two_humps") if (q and via == "direct") or not q else ("crossing",)):
                            out.append({"family": "callsite-spy", "via": via, "move": "wf", "n_jumps": nj, "cap": cap, "path": pth, "seed": seed + vi, "maxlength": 60, "settings": st})
            out.append({"family": "callsite-spy", "via": via, "move": "wf", "n_jumps": 2, "cap": None, "path": "below", "seed": 9, "maxlength": 60, "settings": st})
    return out


# ---- (b) the real program with the spy engine as plug-in
def _system_case(arg):
    """Runs in a forked child (sysharness.run_many): write a lattice set-up, switch the engine to the spy,
    add the velocity settings to [simulation.tis_set], run the real scheduler; -> records, tis_set of the file."""
    import sysharness
    import tomli
    import tomli_w
    wd, desc = arg
    sysharness.write_setup(wd, n_intf=4, moves=desc["moves"], workers=desc["workers"], steps=desc["steps"], seed=desc["seed"], cap=desc["cap"], maxlength=80, n_jumps=desc["n_jumps"],
                           init_reach=[0, 4, 4, 4])
    fn = os.path.join(wd, "infretis.toml")
    with open(fn, "rb") as f:
        c = tomli.load(f)
    c["engine"]["class"] = "SpyLatticeEngine"
    c["engine"]["module"] = os.path.join(os.path.dirname(sysharness.PLUGINS), "c16_plugins.py")
    c["simulation"]["tis_set"].pop("zero_momentum", None)
    c["simulation"]["tis_set"].update(desc["settings"])
    with open(fn, "wb") as f:
        tomli_w.dump(c, f)
    log = os.path.join(wd, "spy.jsonl")
    os.environ["INFV_C16_SPY_LOG"] = log
    res = sysharness.run_sim(wd)
    recs = []
    if os.path.exists(log):
        with open(log) as f:
            recs = [json.loads(ln) for ln in f if ln.strip()]
    return {"status": res.get("status"), "cstep": res.get("cstep"), "records": recs, "tis_set": c["simulation"]["tis_set"]}


def system_cases(tier, variants):
    out = []
    for vi, st in enumerate(variants[:4] if tier == "quick" else variants):
        out.append({"family": "callsite-system", "moves": ["sh", "sh", "wf", "wf"], "workers": 1 + vi % 2, "steps": 24 if tier == "quick" else 60, "seed": 5 + vi,
                    "cap": 3.25 if vi % 2 else None, "n_jumps": 2 + vi % 2, "settings": st})
    return out


# ---- (c) the real moves with a real in-process engine
class XOrder:
    """x of the first atom (not velocity dependent: Path.reverse of a wire-fencing move does not re-evaluate it)"""
    velocity_dependent = False

    def calculate(self, system):
        return [float(system.pos[0][0])]


TURTLE_INTF = (1.0, 1.2, 2.0)


def run_turtle_case(desc, root):
    """Real shoot / wire_fencing with a TurtleMD engine (LangevinInertia, weak Lennard-Jones, 3-D periodic box).
    desc: n, masses, move, n_jumps, zero_momentum (True | False | None = key absent), seed.
    -> (records [{chain, got, P, slack, nvel}], status, configured tis_set, exception text or None)"""
    import copy
    import infretis.core.tis as tis
    from infretis.classes.engines.turtlemdengine import TurtleMDEngine
    from infretis.classes.path import Path as InfPath
    from infretis.classes.system import System
    from plugins.c16_plugins import tis_chain
    n = desc["n"]
    masses = list(desc["masses"])
    names = [("H", "O", "C", "N")[i % 4] for i in range(n)]
    setup = {"kind": "turtle", "T": 300.0, "names": names, "masses": masses, "kb": KB_KJMOL}
    kit = Kit("turtle", tempfile.mkdtemp(prefix="cs_tmd_", dir=root))
    work = kit.newdir("csw")
    pos0 = [[1.1, 0.5 + 0.9 * i, 0.5] for i in range(n)]
    records, status, exc, configured = [], None, None, None
    try:
        with contextlib.redirect_stdout(io.StringIO()):
            eng = TurtleMDEngine(timestep=0.004, subcycles=1, temperature=300.0, boltzmann=KB_KJMOL,
                                 integrator={"class": "LangevinInertia", "settings": {"gamma": 0.5, "beta": 1.0 / (KB_KJMOL * 300.0)}},
                                 potential={"class": "LennardJones", "settings": {"parameters": {"1": {"sigma": 0.3, "epsilon": 0.01, "rcut": 0.5}}}},
                                 particles={"mass": masses, "name": names, "pos": pos0},
                                 box={"periodic": [True, True, True], "low": [0, 0, 0], "high": [4, 4, 4]})
        eng.exe_dir = kit.newdir("exe")
        eng.order_function = XOrder()
        eng.rgen = np.random.default_rng(desc["seed"])
        tis_set = {K_MAXLEN: 3000, K_ALLOW: True, "n_jumps": desc["n_jumps"], "interface_cap": 1.8, "aimless": True}
        if desc["zero_momentum"] is not None:
            tis_set["zero_momentum"] = desc["zero_momentum"]
        ens = {"interfaces": TURTLE_INTF, "tis_set": tis_set, "mc_move": "sh", "ens_name": "002", "start_cond": ("L",), "rgen": np.random.default_rng(desc["seed"] + 1)}
        # a starting path: one forward/backward propagation from a frame just right of the left interface, first atom moving right
        start = os.path.join(work, "start.xyz")
        with open(start, "w") as f:
            f.write(xyz_frame(names, pos0, [[2.0, 0.1, 0.0]] + [[0.0, 0.0, 0.0]] * (n - 1), [4, 4, 4]))
        p0 = None
        for _ in range(40):
            sp = System()
            sp.set_pos((start, 0))
            sp.order = [1.1]
            sp.vel_rev = False
            ok, cand, st = tis.shoot(ens, InfPath(maxlen=3000), eng, shooting_point=sp)
            if st == "ACC":
                p0 = cand
                break
        if p0 is None:
            return records, "no-start-path", None, None
        tis_set[K_ALLOW] = False
        ens["mc_move"] = desc["move"]
        configured = copy.deepcopy(tis_set)
        orig = type(eng).modify_velocities
        M = [fr(m) for m in masses]

        def spy(system, vel_settings):
            got = {str(k): (v if isinstance(v, (bool, int, float, str, type(None))) else repr(v)) for k, v in dict(vel_settings).items()}
            chain = tis_chain()
            out = orig(eng, system, vel_settings)
            r = kit.read(system.config[0], setup)
            vf = [[fr(x) for x in row] for row in r["vel"]]
            q = FILE_QUANTUM["turtle"]
            vmag = max([abs(x) for row in vf for x in row] + [Fr(0)])
            records.append({"chain": chain, "got": got, "nvel": r["nvel"], "file": os.path.basename(system.config[0]),
                            "P": [sum(M[i] * vf[i][j] for i in range(n)) for j in range(3)], "slack": sum(M) * q + REL * sum(M) * vmag})
            return out

        eng.modify_velocities = spy
        fn = tis.shoot if desc["move"] == "sh" else tis.wire_fencing
        _, _, status = fn(ens, p0, eng, start_cond=("L",))
    except Exception as e:  # noqa: BLE001
        import traceback
        exc = f"{type(e).__name__}: {e} [{traceback.format_exc(limit=4)[-500:]}]"
    return records, status, configured, exc


def turtle_cases(tier):
    out = []
    seeds = (11,) if tier == "quick" else (11, 12, 13)
    for n, masses in ((2, [1.008, 1.008]), (3, [1.0, 16.0, 12.0])):
        for zm in (True, False, None):
            for seed in seeds:
                out.append({"family": "callsite-turtlemd", "n": n, "masses": masses, "move": "wf", "n_jumps": 3 if n == 2 else 2, "zero_momentum": zm, "seed": seed})
                if zm is not False:
                    out.append({"family": "callsite-turtlemd", "n": n, "masses": masses, "move": "sh", "n_jumps": 2, "zero_momentum": zm, "seed": seed})
    return out


def turtle_errors(records, configured):
    errs = []
    for i, rec in enumerate(records):
        if rec["nvel"] != len(rec["P"]) and rec["nvel"] == 0:
            errs.append(f"regeneration {i + 1}: {rec['file']} holds no velocities")
        if configured.get("zero_momentum") is True:
            for j in range(3):
                if abs(rec["P"][j]) > rec["slack"]:
                    errs.append(f"zero_momentum = true was requested for the ensemble, but the velocities written to {rec['file']} by regeneration {i + 1} of {len(records)} "
                                f"(call site {' > '.join(rec['chain'])} > modify_velocities, handed zero_momentum = {rec['got'].get('zero_momentum', MISSING_KEY)!r}) "
                                f"have total momentum component {j} = {float(rec['P'][j])!r} (|.| <= {float(rec['slack']):.2e} expected)")
                    break
    return errs


def callsite_stage(ctx, runner, root):
    """Families (a), (b), (c).  Returns nothing; registers violations / coverage on ctx."""
    tier = ctx.tier
    try:
        reads, sites, keys, opaque = discover_call_sites()
    except Exception as e:  # noqa: BLE001
        ctx.violation(f"call sites: the engine / move sources could not be analysed: {e!r}", {"obligation": "params_c16.vel_settings_reads / velocity_call_sites"}, False)
        reads, sites, opaque = {}, [], {}
        keys = {"zero_momentum": {"?": ["?"]}}
    ctx.cov["call_sites"] = {"keys_read_by_engines": {k: v for k, v in sorted(keys.items())}, "whole_dictionary_used_by": opaque,
                             "call_sites_found": [list(x) for x in sites]}
    new_sites = [x for x in sites if tuple(x) not in CALL_SITES_EXPECTED]
    if new_sites:
        ctx.violation(f"a place of the package that calls or passes on a velocity-regenerating function is not driven by the call-site family: {new_sites[:3]}",
                      {"obligation": "py/checks/c16.py CALL_SITES_EXPECTED", "new": [list(x) for x in new_sites]}, False)
    variants = setting_variants(keys)
    reported = {"oracle": 0, "corr": 0}
    per_family = {}

    def report(errs, desc, extra=None):
        reported["oracle"] += 1
        fam = desc.get("family")
        per_family[fam] = per_family.get(fam, 0) + 1
        if per_family[fam] <= 2:
            ctx.violation(f"C16 statement fails on the implementation (call site): {errs[0]}", {"case": desc, "errors": errs[:6], **(extra or {})}, True)

    # ---- (a) spy engine, lock-step with VelM.handed
    reqs, metas = [], []
    n_calls = {"sh": 0, "wf": 0}
    for desc in spy_cases(tier, variants):
        records, status, configured, exc = run_spy_case(desc, root)
        ctx.count(("callsite-spy", json.dumps(desc, sort_keys=True)))
        ctx.dist(f"call site/spy/{desc['via']}/{desc['move']}")
        if exc is not None:
            report([f"the real move raised {exc}"], desc)
            continue
        errs = settings_errors(records, configured, keys, opaque, f"{desc['via']} {desc['move']}")
        usable = not (desc["move"] == "wf" and status == "NSG" and not records)
        expected_n = 1 if desc["move"] == "sh" else (desc["n_jumps"] if usable else 0)
        n_calls[desc["move"]] += len(records)
        chain_ok = all(r["chain"][-1:] == ["prepare_shooting_point"] and (("wire_fencing" in r["chain"]) == (desc["move"] == "wf")) for r in records)
        if errs:
            report(errs, desc, {"handed": [r["got"] for r in records], "configured": configured})
            continue
        rq, it = handed_request(desc, configured, usable)
        reqs.append(rq)
        metas.append((desc, it, records, expected_n, chain_ok, status))
    outs = runner.run(reqs) if (runner is not None and reqs) else [None] * len(reqs)
    corr_pending = []
    for rq, ans, (desc, it, records, expected_n, chain_ok, status) in zip(reqs, outs, metas):
        bad = None
        if len(records) != expected_n:
            bad = f"{len(records)} velocity regenerations, expected {expected_n} (status {status})"
        elif not chain_ok:
            bad = f"unexpected call chain {[r['chain'] for r in records][:2]}"
        elif ans is not None:
            bad = compare_handed(ans, it, records)
        if bad:
            reported["corr"] += 1
            corr_pending.append((f"correspondence model/implementation broken for the settings handed to modify_velocities ({desc['via']} {desc['move']}): {bad} "
                                 f"(every engine-read key arrived with its configured value in this case)", {"correspondence": "c16 runner `handed` vs real moves on the spy engine", "case": desc, "request": rq, "model": ans}))
    if n_calls["wf"] == 0 or n_calls["sh"] == 0:
        ctx.violation(f"call-site family (a) observed no velocity regeneration inside {'wire_fencing' if n_calls['wf'] == 0 else 'shoot'}: the family does not reach the call site",
                      {"obligation": "coverage of the call-site family", "regenerations": n_calls}, False)

    # ---- (b) the real program
    import sysharness
    sdescs = system_cases(tier, variants)
    sroot = tempfile.mkdtemp(prefix="cs_sys_", dir=root)
    sres = sysharness.run_many(_system_case, [(os.path.join(sroot, f"run{i}"), d) for i, d in enumerate(sdescs)], jobs=4, timeout=300)
    sys_calls = {"inside wire_fencing": 0, "plain shoot": 0}
    for desc, (tag, res) in zip(sdescs, sres):
        ctx.count(("callsite-system", json.dumps(desc, sort_keys=True)))
        ctx.dist("call site/system run")
        if tag != "ok":
            report([f"the real program raised / did not finish on a legal input: {str(res)[-600:]}"], desc)
            continue
        configured = {k: v for k, v in res["tis_set"].items()}
        errs = settings_errors(res["records"], configured, keys, opaque, "run of the program (scheduler > run_md)")
        for r in res["records"]:
            sys_calls["inside wire_fencing" if "wire_fencing" in r["chain"] else "plain shoot"] += 1
        if res["status"] != "done":
            errs.append(f"the run ended with status {res['status']}")
        if errs:
            report(errs, desc, {"configured": configured})
    if sdescs and min(sys_calls.values()) == 0:
        ctx.violation(f"call-site family (b) observed no velocity regeneration for: {[k for k, v in sys_calls.items() if v == 0]}",
                      {"obligation": "coverage of the call-site family", "regenerations": sys_calls}, False)

    # ---- (c) TurtleMD: momentum of the frames written inside the moves
    t_calls = {"inside wire_fencing": 0, "plain shoot": 0, "momentum kept (not requested)": 0}
    for desc in turtle_cases(tier):
        records, status, configured, exc = run_turtle_case(desc, root)
        ctx.count(("callsite-turtlemd", json.dumps(desc, sort_keys=True)))
        ctx.dist(f"call site/turtlemd/{desc['move']}/zero_momentum={desc['zero_momentum']}")
        if exc is not None:
            report([f"the real move raised {exc}"], desc)
            continue
        if configured is None:
            ctx.dist("call site/turtlemd/no starting path")
            continue
        errs = turtle_errors(records, configured) + settings_errors(records, configured, keys, opaque, f"TurtleMD {desc['move']}")
        for r in records:
            t_calls["inside wire_fencing" if "wire_fencing" in r["chain"] else "plain shoot"] += 1
            if configured.get("zero_momentum") is not True and any(abs(p) > r["slack"] for p in r["P"]):
                t_calls["momentum kept (not requested)"] += 1
        if errs:
            report(errs, desc, {"configured": configured, "observed": [{"chain": r["chain"], "handed": r["got"], "total_momentum": [float(p) for p in r["P"]]} for r in records]})
    if t_calls["inside wire_fencing"] == 0:
        ctx.violation("call-site family (c) observed no velocity regeneration inside a TurtleMD wire-fencing move", {"obligation": "coverage of the call-site family", "regenerations": t_calls}, False)
    # DESIGN 2.4: a broken correspondence starts the search for a failing input of the property; when the oracle of
    # these families exhibits one, that input is the report
    if not reported["oracle"]:
        for what, payload in corr_pending[:3]:
            ctx.violation(what, payload, False)
    ctx.cov["call_sites"].update({"oracle_failures": reported["oracle"], "model_disagreements": reported["corr"], "setting_variants": variants, "spy_regenerations": n_calls, "spy_cases_compared_with_model": len(reqs),
                                  "system_run_regenerations": sys_calls, "turtlemd_regenerations": t_calls})
    ctx.sample({"call_site_case": metas[len(metas) // 2][0] if metas else None, "handed": [r["got"] for r in metas[len(metas) // 2][2]] if metas else None}, cap=8)


# ----------------------------------------------------------------------------- the check
KINDS = ["turtle", "cp2k", "lammps", "gromacs", "ase"]


def detect_ase_variant(kit, rng):
    """Replays the Coq witness of C16_ase_kin_before_stationary_refuted on the implementation:
    two equal masses, both drawn +1 along x, zero_momentum on.  True = repaired order."""
    setup = {"kind": "ase", "T": 300.0, "names": ["H", "H"], "masses": [1.0, 1.0]}
    eng = kit.build(setup)
    frames = make_frames(rng, "ase", 2, 3)
    cfgs, files = kit.write_source(setup, frames)
    stream = [Fr(1), Fr(0), Fr(0), Fr(1), Fr(0), Fr(0)]
    obs, errs = evaluate(kit, eng, setup, frames, cfgs, files, 1, True, stream, [1.0, 1.0, 1.0], None)
    fixed = abs(fr(obs["ret"][1]) - obs["kin_file"]) <= obs["kin_slack"]
    return fixed, obs["draw_source"]


def run(ctx):
    common.proof_stage(ctx, "C16", ["extract/c16.vo"])
    runner = common.runner_stage(ctx, "c16")
    try:    # why the generated constants are missing, if the extractor failed closed
        with open(os.path.join(common.COQ, "gen", "ParamsC16.v")) as fh:
            head = fh.readline().strip()
        if "extraction FAILED" in head:
            ctx.cov["params_extraction_failed"] = head
    except OSError:
        pass
    # runner is None when the model no longer builds (e.g. parameter extraction failed closed on a
    # changed source): the violation is already recorded; the oracle still runs on the implementation
    # alone to look for a concrete failing input.
    import logging
    logging.disable(logging.CRITICAL)
    root = common.scratch_dir("infv_c16_")
    cwd = os.getcwd()
    try:
        os.chdir(root)
        _run(ctx, runner, root)
    finally:
        os.chdir(cwd)
        common.rmtree(root)
        logging.disable(logging.NOTSET)


def _run(ctx, runner, root):
    rng = ctx.rng
    tier = ctx.tier
    reqs, metas = [], []
    oracle_fail = {}
    si_done = si_skipped = 0
    draw_sources = {}
    kits = {k: Kit(k, root) for k in KINDS}
    full_done = set()
    seq_runs = []
    SEQ_WALL[0] = 0.0

    def crashed(what, exc, desc):
        """an exception of the real code on a legal input is a finding with that input"""
        import traceback
        crashes.append(what)
        if len(crashes) <= 3:
            ctx.violation(f"C16 statement fails on the implementation ({desc.get('engine', '?')}): {what} raised {type(exc).__name__}: {exc}",
                          {"case": desc, "errors": [f"{what} raised {type(exc).__name__}: {exc}"], "traceback": traceback.format_exc()[-1500:]}, True)

    crashes = []
    try:
        ase_fixed, ase_src = detect_ase_variant(kits["ase"], rng)
    except Exception as e:  # noqa: BLE001
        crashed("ASEEngine construction / modify_velocities (two equal masses, zero_momentum on)", e,
                {"engine": "ase", "setup": {"kind": "ase", "T": 300.0, "names": ["H", "H"], "masses": [1.0, 1.0]}, "zero_momentum": True})
        ase_fixed, ase_src = True, "engine.rgen"
    ctx.cov["ase_variant"] = {"kin_new_after_Stationary": ase_fixed, "draw_source": ase_src}

    # constants of the model against the running implementation (kb, beta, zero_momentum default)
    const_reqs, const_meta = [], []

    for kind in KINDS:
        kit = kits[kind]
        for setup in setups_for(kind, tier, rng):
            try:
                eng = kit.build(setup)
                if kind == "cp2k":
                    setup["masses"] = kit.engine_masses(eng, setup)
            except Exception as e:  # noqa: BLE001
                crashed(f"construction of the {kind} engine", e, {"engine": kind, "setup": setup})
                continue
            if kind in ("lammps", "turtle", "gromacs"):
                # the masses the engine regenerates velocities with are the ones its input declares, atom by atom
                em = kit.engine_masses(eng, setup)
                if [float(x) for x in em] != [float(x) for x in setup["masses"]]:
                    oracle_fail.setdefault(f"the engine built from the input holds per-atom masses {em} but the input declares {setup['masses']}"
                                           + (f" (atom types {setup['types']}, Masses table {setup['type_masses']})" if kind == "lammps" else "")
                                           + ": velocities are drawn with sqrt(kT/m) of the wrong mass, the temperature of the regenerated velocities is not the requested one",
                                           {"engine": kind, "setup": setup})
                ctx.dist(f"{kind}/masses read back" + ("/unused atom type declared" if kind == "lammps" and len(setup["type_masses"]) > len(set(setup["types"])) else ""))
            n = len(setup["names"])
            T = setup["T"]
            kbu = qs(fr(setup.get("kb", 0.0)))
            const_reqs.append(f"beta {kind} {kbu} {qs(fr(T))}")
            const_meta.append(("beta", kind, setup, eng.beta))
            if kind != "turtle":
                const_reqs.append(f"kb {kind} 0/1")
                const_meta.append(("kb", kind, setup, eng.kb))
            shoot = shoot_indices(kind)
            nframes = max(4, shoot[-1] + 2)        # the first and the last frame of a path are never shot from
            frames = make_frames(rng, kind, n, nframes, zero_vel_at=2, missing=MISSING[kind])
            cfgs, files = kit.write_source(setup, frames)
            ekins = ([None, 0.0, 2.5, round_dec(rng.uniform(0.1, 9.0), 3)] + [1.25, None, 0.75])[:nframes]
            pats = z_patterns(rng, n, tier, full=(kind, n) not in full_done)
            full_done.add((kind, n))
            for pi, stream in enumerate(pats):
                # 1: moving frame, 2: frame at rest (kin_old == 0), 3..: frames whose file has no velocities / no box entry
                idx = shoot[pi % len(shoot)]
                if kind == "gromacs":
                    ekins = ekins[1:] + ekins[:1]
                per_zm = {}
                for zm in (None, False, True):
                    desc = {"engine": kind, "setup": setup, "frames": frames, "idx": idx, "zero_momentum": zm,
                            "stream": [qs(z) for z in stream], "ekins": list(ekins)}
                    try:
                        obs, errs = evaluate(kit, eng, setup, frames, cfgs, files, idx, zm, stream, ekins, ase_src)
                    except Exception as e:   # noqa: BLE001
                        crashed("prepare_shooting_point / modify_velocities", e, desc)
                        continue
                    draw_sources[kind] = obs["draw_source"]
                    per_zm[zm] = obs
                    req = request_for(kind, setup, obs, frames, idx, zm, stream, ekins[idx], ase_fixed)
                    reqs.append(req)
                    metas.append((kind, obs, errs, desc, len(stream)))
                    ctx.dist(f"{kind}/n={n}/zm={zm}")
                    ctx.dist(f"gromacs ekin={ekins[idx]}" if kind == "gromacs" else "kin_old=0" if (frames[idx]["vel"] is None or idx == 2) else "kin_old>0")
                    ctx.dist(f"{kind}/source file: " + ("complete" if not missing_of(frames[idx]) else "no " + missing_of(frames[idx])))
                # same draws -> same output (second run on the same inputs)
                if pi % 7 == 0 and True in per_zm:
                    try:
                        obs2, _ = evaluate(kit, eng, setup, frames, cfgs, files, idx, True, stream, ekins, ase_src)
                    except Exception as e:   # noqa: BLE001
                        crashed("the second run of prepare_shooting_point / modify_velocities on the same input", e, desc)
                        continue
                    if obs2["genvel_bytes"] != per_zm[True]["genvel_bytes"] or obs2["ret"] != per_zm[True]["ret"]:
                        oracle_fail.setdefault("not reproducible: same draws gave another genvel file / return value", desc)
                    ctx.count(("repro", kind, pi, json.dumps(setup, sort_keys=True)))
                # the shift between zero_momentum off and on is the same vector for every atom
                if False in per_zm and True in per_zm and n >= 1:
                    a, b = per_zm[False]["out"]["vel"], per_zm[True]["out"]["vel"]
                    q = FILE_QUANTUM[kind]
                    for j in range(3):
                        sh = [fr(a[i][j]) - fr(b[i][j]) for i in range(n)]
                        tolj = 2 * q + REL * per_zm[False]["vmag"] * 4
                        if max(sh) - min(sh) > tolj:
                            oracle_fail.setdefault(f"zero_momentum shift differs between atoms (component {j})", desc)
                # temperature in SI units, zero_momentum off
                if False in per_zm:
                    e, d, s = temperature_oracle(kind, setup, per_zm[False], stream, T)
                    si_done += d
                    si_skipped += s
                    for msg in e[:1]:
                        oracle_fail.setdefault("wrong temperature: " + msg, dict(desc, zero_momentum=False))
            # real numpy generator: reproducible from the job's stream, exact consumption
            for seed in ([11, 12] if tier == "quick" else [11, 12, 13, 14, 15]):
                try:
                    real_case(ctx, kit, eng, setup, frames, cfgs, files, ekins, seed, ase_src, ase_fixed, reqs, metas, oracle_fail)
                except Exception as e:   # noqa: BLE001
                    crashed("prepare_shooting_point / modify_velocities with a real numpy Generator", e,
                            {"engine": kind, "setup": setup, "frames": frames, "real_generator_seed": seed, "ekins": list(ekins)})
            # several calls in one exe_dir without clean-up (own generator: the families above keep their inputs)
            try:
                srng = random.Random(f"c16-seq/{ctx.seed}/{kind}/{len(seq_runs)}")
                frames_b = make_frames(srng, kind, n, 4)
                cfgs_b, files_b = kit.write_source(setup, frames_b)
                sequence_stage(ctx, kit, eng, setup, [(frames, cfgs, files), (frames_b, cfgs_b, files_b)], ekins, ase_src, ase_fixed, seq_runs, srng)
            except Exception as e:   # noqa: BLE001
                import traceback
                ctx.violation(f"sequence family could not be evaluated for {kind}: {e!r}", {"obligation": "py/checks/c16.py sequence_stage", "traceback": traceback.format_exc()[-2000:]}, False)

    # call sites: the moves of tis.py, the real program, a real in-process engine
    try:
        callsite_stage(ctx, runner, root)
    except Exception as e:   # noqa: BLE001
        import traceback
        ctx.violation(f"call-site families could not be evaluated: {e!r}", {"obligation": "py/checks/c16.py callsite_stage", "traceback": traceback.format_exc()[-2000:]}, False)

    # zero_momentum defaults
    for kind in KINDS:
        const_reqs.append(f"usezm {kind} N")
        const_meta.append(("usezm", kind, None, None))
    const_reqs.append("aselibkb")
    const_meta.append(("aselibkb", "ase", None, None))
    cans = runner.run(const_reqs) if runner is not None else []
    const_bad = 0
    zm_default_model = {}
    for rq, an, (what, kind, setup, val) in zip(const_reqs, cans, const_meta):
        if what == "usezm":
            zm_default_model[kind] = an == "1"
            continue
        if what == "aselibkb":
            from ase import units as aseu
            ok = common.parse_q(an) == fr(aseu.kB)
        elif what == "kb":
            ok = common.parse_q(an) == fr(val)
        else:
            m = common.parse_q(an)
            ok = abs(fr(val) - m) <= Fr(1, 10 ** 12) * abs(m)
        ctx.count(("const", rq))
        if not ok:
            const_bad += 1
            if const_bad <= 2:
                ctx.violation(f"model constant disagrees with the running engine: {rq} -> model {an}, engine {val!r}",
                              {"correspondence": "c16 constants", "request": rq, "model": an, "engine": repr(val)}, False)

    outs = run_parallel(runner, reqs) if runner is not None else ["<model not built>"] * len(reqs)
    corr_fail = 0
    reported = 0
    for req, ans, (kind, obs, errs, desc, slen) in zip(reqs, outs, metas):
        ctx.count(req)
        bad = compare_model(kind, obs, ans, slen) if runner is not None else []
        if errs:
            reported += 1
            if reported <= 3:
                ctx.violation(f"C16 statement fails on the implementation ({kind}): {errs[0]}",
                              {"case": desc, "errors": errs[:5], "impl": impl_view(obs), "model": ans[:2000], "request": req}, True)
        elif bad:
            corr_fail += 1
            if corr_fail <= 3:
                ctx.violation(f"correspondence model/implementation broken for {kind} modify_velocities: {bad[0]} "
                              f"(property oracle found no failing input among {len(reqs)} cases)",
                              {"correspondence": "c16 runner vs engine.modify_velocities", "case": desc, "differences": bad,
                               "impl": impl_view(obs), "model": ans[:2000], "request": req}, False)
    for what, desc in list(oracle_fail.items())[:3]:
        ctx.violation(f"C16 statement fails on the implementation ({desc['engine']}): {what}", {"case": desc, "errors": [what]}, True)
    sequence_report(ctx, runner, seq_runs)
    for k in (0, len(reqs) // 3, (2 * len(reqs)) // 3, len(reqs) - 1):
        if reqs:
            ctx.sample({"request": reqs[k][:600], "model": outs[k][:600], "impl": impl_view(metas[k][1])})
    ctx.cov["rule"] = (
        f"engines {KINDS} x (temperature, masses, atom count 1..{4 if tier == 'quick' else 7}) set-ups built through the real constructors; per set-up: "
        f"all 27 streams over {[str(a) for a in ALPHA]} for one atom / {'all 729 (first temperature of each engine; a sample of 80 for the other temperatures)' if tier == 'thorough' else 'a sample of the 729'} for two atoms / sampled for more, plus dyadic random streams, "
        f"each x zero_momentum in (absent, False, True), shooting in turn from a moving frame, a frame at rest (kin_old = 0) and the frames whose file lacks the optional entries (no velocities; xyz: no 'Box:' entry, with and without velocities), "
        f"GROMACS with stored ekin in (None, 0.0, values); plus runs with a real numpy Generator per set-up (seeded) checking exact consumption npart*3 in row-major order. "
        f"A case is distinct by its model request line (engine, masses, source frame, sigma, stream, setting); all are non-trivial (velocities are regenerated in each). "
        f"Sequences: per set-up and zero_momentum in (absent, False, True) one sequence of 5-8 consecutive calls in one exe_dir without clean-up (one evaluation = one call; shooting points: the special frames of the trajectory file, two frames of a second file, the first one again; shuffled, own draws per call). "
        f"Call sites: one evaluation = one real move (or one real run of the program) with all regenerations it makes; spy family: every setting variant (all engine-read keys at value set A, at value set B, each key flipped alone, nothing configured) "
        f"x (direct, select_shoot, run_md) x (sh; wf with n_jumps 1..3 x cap absent / 4.5 x paths) ; program runs: 4 variants (thorough: all) on 4 interfaces with moves sh sh wf wf; TurtleMD: 2 and 3 atoms x zero_momentum true / false / absent x (wf, sh).")
    ctx.cov["correspondence"] = {"compared": len(reqs) if runner is not None else 0, "disagreements": corr_fail, "constants_compared": len(const_reqs), "constants_disagree": const_bad,
                                 "si_temperature_components_checked": si_done, "si_skipped_format_too_coarse": si_skipped}
    ctx.cov["draw_source_per_engine"] = draw_sources
    ctx.cov["zero_momentum_default_model"] = zm_default_model
    obs_notes = []
    if draw_sources.get("ase") != "engine.rgen":
        obs_notes.append("lead L5 confirmed: ASEEngine.modify_velocities draws from numpy's global generator (np.random.standard_normal), "
                         "engine.rgen is never used; reproducibility from the job's stream is therefore not given for ASE (reported under C07, not as a C16 violation)")
    obs_notes.append("LAMMPS: kin_new/dek/System.ekin are in (g/mol)(A/fs)^2, not kcal/mol (factor 2390.06); dek is a consistent difference but not in the engine's energy unit")
    obs_notes.append("GROMACS infretis_genvel path leaves System.vel_rev unchanged (the external path resets it to False)")
    ctx.cov["observations"] = obs_notes
    ctx.cov["trusted_base"] += ["extraction: ExtrOcamlBasic only; ocaml/util.ml + ocaml/c16_driver.ml",
                                "py/checks/c16.py: input writers, independent parsers of genvel.*, recorder generator, tolerances",
                                "py/params_c16.py (constants and expression shapes read from the Python AST)",
                                "SI constants (2019 SI / CODATA 2018) in VelM.v and c16.py",
                                "call sites: py/plugins/c16_plugins.py (spy engine on py/plugins/engines.py, call site from the Python stack), py/sysharness.py (in-process runner of the real scheduler), "
                                "params_c16.vel_settings_reads / velocity_call_sites (AST readers), interning of keys and values for the model"]
    ctx.assumptions += ["positive masses, T > 0; LAMMPS needs >= 2 atoms (engine cannot be constructed for one)",
                        "floating-point rounding not modelled: 1e-9 relative + half a unit of the 9-decimal file formats (xyz, g96)",
                        "source coordinates have <= 6 decimals, velocities <= 9, box <= 4 (exactly representable in every format)",
                        "numpy's normal(loc, scale, size) = loc + scale * standard_normal in C order (checked against a real Generator per set-up)",
                        "ASE: sigma_p = sqrt(m * units.kB * T) and Stationary as in the installed ASE " + _ase_version(),
                        "sequences of calls: shooting points refer to source files (not to conf.* / genvel.* of the exe_dir); the exe_dir is used by one engine at a time",
                        "call sites: the settings are a flat dictionary of scalars (as a TOML table gives); velocity regeneration is reached only through the functions listed under coverage.call_sites"]


def _ase_version():
    import ase
    return ase.__version__


def impl_view(obs):
    return {"vel": obs["out"]["vel"], "dek_kin_new": [repr(x) for x in obs["ret"]], "kin_from_file": float(obs["kin_file"]),
            "kin_old": None if obs["kin_old"] is None else float(obs["kin_old"]), "total_momentum": [float(p) for p in obs["P"]],
            "sigma": obs["sig"], "mass": obs["mass"], "draw_source": obs["draw_source"], "consumed": obs["consumed"]}


def real_case(ctx, kit, eng, setup, frames, cfgs, files, ekins, seed, ase_src, ase_fixed, reqs, metas, oracle_fail):
    """Run with a real numpy Generator; the model gets the values numpy would hand out."""
    kind = kit.kind
    n = len(setup["names"])
    zm = (None, False, True)[seed % 3]
    idx = 1 if seed % 2 else shoot_indices(kind)[-1]     # a moving frame / the last special one (at rest, no velocities, no box entry)
    extra = 5
    desc = {"engine": kind, "setup": setup, "frames": frames, "idx": idx, "zero_momentum": zm, "real_generator_seed": seed, "ekins": list(ekins)}
    if kind == "ase" and ase_src != "engine.rgen":
        # global legacy generator: seed it, reference values from an identically seeded RandomState
        ref = np.random.RandomState(seed).standard_normal(n * 3 + extra)
        np.random.seed(seed)
        old = np.random.standard_normal

        class _Legacy:
            standard_normal = staticmethod(old)

        tap_e, tap_g = Tap(np.random.default_rng(seed)), Tap(_Legacy)
        np.random.standard_normal = tap_g.standard_normal
        try:
            obs, errs = evaluate(kit, eng, setup, frames, cfgs, files, idx, zm, None, ekins, ase_src, use_real=(tap_e, tap_g), ref_stream=[fr(x) for x in ref])
        finally:
            np.random.standard_normal = old
        nxt = np.random.standard_normal(extra)
    else:
        ref = np.random.default_rng(seed).standard_normal(n * 3 + extra)
        g = np.random.default_rng(seed)
        tap_e, tap_g = Tap(g), Tap(None)
        obs, errs = evaluate(kit, eng, setup, frames, cfgs, files, idx, zm, None, ekins, ase_src, use_real=(tap_e, tap_g), ref_stream=[fr(x) for x in ref])
        nxt = g.standard_normal(extra)
    stream = [fr(x) for x in ref]
    # exact consumption: the generator continues with value number n*3 of the reference stream
    if list(nxt) != list(ref[n * 3:]):
        oracle_fail.setdefault(f"the generator was not advanced by exactly npart*3 = {n * 3} normal values", desc)
    obs["consumed"] = n * 3 if list(nxt) == list(ref[n * 3:]) else -1
    desc["stream"] = [qs(z) for z in stream]
    reqs.append(request_for(kind, setup, obs, frames, idx, zm, stream, ekins[idx], ase_fixed))
    metas.append((kind, obs, errs, desc, len(stream)))
    ctx.dist(f"{kind}/real-generator")


# ----------------------------------------------------------------------------- replay
def replay(doc):
    import logging
    logging.disable(logging.CRITICAL)
    print(json.dumps({k: doc[k] for k in ("property", "what", "found_failing_input")}, indent=1))
    case = doc["replay"].get("case")
    if case and str(case.get("family", "")).startswith("callsite"):
        return replay_callsite(case)
    if case and case.get("family") == "sequence":
        return replay_sequence(case)
    if not case or "engine" not in case:
        print(json.dumps(doc["replay"], indent=1)[:4000])
        return 0
    root = common.scratch_dir("infv_c16r_")
    cwd = os.getcwd()
    try:
        os.chdir(root)
        kit = Kit(case["engine"], root)
        import random
        ase_fixed, ase_src = detect_ase_variant(kit, random.Random(1)) if case["engine"] == "ase" else (True, "engine.rgen")
        setup = case["setup"]
        try:
            eng = kit.build(setup)
            if "frames" not in case or "stream" not in case:
                print("the engine is constructed without error now; the stored case has no frames/stream to re-run")
                return 0
            cfgs, files = kit.write_source(setup, case["frames"])
            stream = [common.parse_q(z) for z in case["stream"]]
            obs, errs = evaluate(kit, eng, setup, case["frames"], cfgs, files, case["idx"], case["zero_momentum"], stream, case["ekins"], ase_src)
        except Exception as e:  # noqa: BLE001
            print(f"implementation raises now: {type(e).__name__}: {e}")
            return 1
        req = request_for(case["engine"], setup, obs, case["frames"], case["idx"], case["zero_momentum"], stream,
                          case["ekins"][case["idx"]], ase_fixed)
        ans = common.Runner("c16").run([req])[0]
        print("implementation now:", json.dumps(impl_view(obs), indent=1))
        print("oracle failures now:", errs)
        print("model now answers:", ans[:1500])
        print("model/implementation differences now:", compare_model(case["engine"], obs, ans, len(stream)))
        return 1 if errs else 0
    finally:
        os.chdir(cwd)
        common.rmtree(root)
        logging.disable(logging.NOTSET)



def replay_sequence(case):
    import logging
    root = common.scratch_dir("infv_c16r_")
    cwd = os.getcwd()
    try:
        os.chdir(root)
        kind = case["engine"]
        kit = Kit(kind, root)
        ase_fixed, ase_src = detect_ase_variant(kit, random.Random(1)) if kind == "ase" else (True, "engine.rgen")
        setup = case["setup"]
        try:
            eng = kit.build(setup)
        except Exception as e:  # noqa: BLE001
            print(f"engine construction raises now: {type(e).__name__}: {e}")
            return 1
        sources = []
        for frames in case["sources"]:
            cfgs, files = kit.write_source(setup, frames)
            sources.append((frames, cfgs, files))
        res = run_sequence(kit, eng, setup, sources, case["calls"], case["zero_momentum"], case["ekins"], ase_src)
        first = next((o for o, _ in res if o is not None), None)
        ans = None
        if first is not None:
            rq = seq_request(kind, setup, sources, case["calls"][:len(res)], case["zero_momentum"], case["ekins"], first["sig"], first["mass"], ase_fixed)
            ans = common.Runner("c16").run([rq])[0].split(" # ")
        for k, ((o, errs), c) in enumerate(zip(res, case["calls"])):
            print(f"call {k + 1}: shooting point = source {c['file']} frame {c['idx']}")
            if o is not None:
                print("  implementation now:", json.dumps({"pos": o["out"]["pos"], **impl_view(o)}))
                if ans is not None and len(ans) == len(res):
                    print("  model/implementation differences now:", compare_model(kind, o, ans[k] + f" {SEQ_EXTRA}", len(c["stream"])))
            print("  oracle failures now:", errs)
        return 1 if any(errs for _, errs in res) else 0
    finally:
        os.chdir(cwd)
        common.rmtree(root)
        logging.disable(logging.NOTSET)


def replay_callsite(case):
    import logging
    root = common.scratch_dir("infv_c16r_")
    cwd = os.getcwd()
    try:
        os.chdir(root)
        _, _, keys, opaque = discover_call_sites()
        fam = case["family"]
        print("case:", json.dumps(case))
        if fam == "callsite-spy":
            records, status, configured, exc = run_spy_case(case, root)
            errs = [f"the real move raised {exc}"] if exc else settings_errors(records, configured, keys, opaque, f"{case['via']} {case['move']}")
            print("status:", status, " handed to modify_velocities:", json.dumps([{"call_site": r["chain"], "vel_settings": r["got"]} for r in records], indent=1))
            if not exc:
                usable = not (case["move"] == "wf" and status == "NSG" and not records)
                rq, it = handed_request(case, configured, usable)
                print("model vs implementation:", compare_handed(common.Runner("c16").run([rq])[0], it, records) or "agree")
        elif fam == "callsite-system":
            import sysharness
            (tag, res), = sysharness.run_many(_system_case, [(os.path.join(root, "run"), case)], jobs=1, timeout=300)
            if tag != "ok":
                errs = [f"the real program raised / did not finish: {str(res)[-800:]}"]
            else:
                errs = settings_errors(res["records"], res["tis_set"], keys, opaque, "run of the program (scheduler > run_md)")
                print("status:", res["status"], " regenerations:", len(res["records"]))
        else:
            records, status, configured, exc = run_turtle_case(case, root)
            errs = [f"the real move raised {exc}"] if exc else (turtle_errors(records, configured) + settings_errors(records, configured, keys, opaque, f"TurtleMD {case['move']}") if configured else [])
            print("status:", status, json.dumps([{"call_site": r["chain"], "vel_settings": r["got"], "file": r["file"], "total_momentum": [float(p) for p in r["P"]]} for r in records], indent=1))
        print("oracle failures now:", errs[:6])
        return 1 if errs else 0
    finally:
        os.chdir(cwd)
        common.rmtree(root)
        logging.disable(logging.NOTSET)
