"""C03 — a busy ensemble, path, engine or work directory is never shared.

Theorems: coq/theorems/C03.v (model coq/model/RepexM.v, proofs coq/proofs/RepexP.v,
EnginesP.v): an invariant proved by induction over ARBITRARY operation sequences of the REPEX
state machine (= every interleaving of job completions with every accept/reject outcome).
Tie: trace validation.  The real program (setup_config -> setup_internal -> scheduler() with the
real REPEX_state, run_md, PathStorage, ...) runs on the lattice plug-in engine under prescribed
completion schedules (all completion orders for small systems, random deep runs incl. clean
stops + restarts, several engine types); every scheduler operation and the observable state
after it are recorded; the extracted model must accept each recorded transition and reproduce
each recorded state; and the statement of C03 is evaluated directly on the recorded states.
"""
import importlib.util  # noqa: F401

import common
import repex_runs as RR
import sysharness as H

META = {
    "id": "C03",
    "level": "proof",
    "technique": "Coq invariant proof by induction over arbitrary operation sequences of an executable REPEX state-machine model + trace validation of the real scheduler/REPEX_state under enumerated completion orders",
    "text": "Unbounded theorem: in every state reachable by any sequence of picks (any random outcome, with or without zero swap), re-issued jobs after a restart and job completions in any order with any accept/reject outcome, the ensembles and the paths held by in-flight jobs are pairwise disjoint, exactly the held ensembles (and the ghost) are marked busy, each job holds the path sitting in its ensemble with non-zero weight there, worker pins (hence worker directories) are distinct, a zero swap needs both [0-] and [0+] idle and holds both; an engine instance handed to a job was free and instances of other workers are untouched. The model is tied to /repo by trace validation of the real scheduler()/REPEX_state on the lattice plug-in: all completion orders for (ensembles<=4/5, workers<=3, steps<=5..7) plus random deep runs (<=8 ensembles, <=7 workers, restarts, 1-3 engine types); the extracted model must accept every recorded transition and reproduce every recorded state, and the property is evaluated directly on the recorded implementation states.",
    "note": "Trusted: Coq kernel; extraction (ExtrOcamlBasic) + OCaml driver; the harness (in-process runner that executes the real run_md on a pickled copy of md_items and completes futures in the prescribed order; recorder wrapping REPEX_state methods). Jobs are executed eagerly at submission and only their completion order is permuted. Not modelled: real process isolation of workers (separate address spaces, the OS directory), which is runtime. The probability matrix is an input of the model's pick (any outcome with idle row/column and non-zero weight is allowed), so the invariant holds for every possible draw.",
    "design_ref": "4/C03",
}
LEVEL = "proof"
EXTRACTS = ["repex", "c02"]


def _run(case):
    return RR.run_case(case)


def run(ctx, which="C03"):
    common.proof_stage(ctx, which, ["extract/repex.vo"])
    runner = common.runner_stage(ctx, "repex")
    if runner is None:
        return
    common.runner_stage(ctx, "c02")   # the Coq model of inf_retis supplies the P of every recorded step
    cases = RR.gen_cases(ctx.tier, ctx.rng)
    results = H.run_many(_run, cases, jobs=14, timeout=900)
    agg = {}
    nprop = nmodel = 0
    for case, (tag, res) in zip(cases, results):
        ctx.dist(f"{case['kind']}:E{case['n_intf']}:W{case['workers']}")
        if tag != "ok":
            ctx.violation(f"harness failure on case {case}: {res[:300]}", {"case": case, "error": res}, found_input=False)
            continue
        for k, v in res["stats"].items():
            agg[k] = max(agg.get(k, 0), v) if k == "max_inflight" else agg.get(k, 0) + v
        ctx.count(("case", repr(case)), nontrivial=res["stats"]["treats"] > 0, n=res["stats"]["ops"])
    # concrete failing histories of the property first, then broken correspondence
    ok_results = [(c, r) for c, (t, r) in zip(cases, results) if t == "ok"]
    for case, res in sorted(ok_results, key=lambda cr: len(cr[0].get("schedule") or []) + cr[0]["steps"]):
        if res[which] and nprop < 4:
            nprop += 1
            ctx.violation(f"{which} statement fails on the implementation: {res[which][0][:300]}",
                          {"case": case, "property_problems": res[which][:8], "model_problems": res["model"][:3]}, found_input=True)
    for case, res in ok_results:
        if res["model"] and not res[which] and nmodel < 3:
            nmodel += 1
            ctx.violation(f"model and implementation disagree: {res['model'][0][:300]}",
                          {"case": case, "model_problems": res["model"][:5]}, found_input=False)
    # ---- jobs drawn from LARGE non-uniform blocks (more than 12 idle paths with unequal weights: the probability matrix is the
    # Monte-Carlo estimate of REPEX_state.random_prob): the real pick() on a real REPEX_state, the statement on every job
    big = [(m, 100 * m + r, 3) for m in ((13, 14, 15) if ctx.tier == "quick" else (13, 14, 15, 16, 18)) for r in range(1 if ctx.tier == "quick" else 4)]
    if which != "C03":
        big = []          # C04 / C05 reuse this function for the system runs only
    nbig = 0
    for bc, (tag, res) in zip(big, H.run_many(RR.big_pick_case, big, jobs=8, timeout=900)):
        ctx.dist(f"big_block_picks:m{bc[0]}")
        if tag != "ok":
            ctx.violation(f"harness failure on large-block case {bc}: {str(res)[:300]}", {"big_pick": bc, "error": str(res)}, found_input=False)
            continue
        ctx.count(("big_pick", bc), nontrivial=res["random_prob_calls"] > 0, n=res["picks"])
        nbig += res["picks"]
        if res[which] and nprop < 6:
            nprop += 1
            ctx.violation(f"{which} statement fails on the implementation: large non-uniform block ({bc[0]} plus ensembles, seed {bc[1]}): {res[which][0][:300]}",
                          {"big_pick": list(bc), "W": res["W"], "property_problems": res[which][:8]}, found_input=True)
    agg["big_block_picks"] = nbig
    ctx.cov["rule"] = ("one evaluation = one recorded scheduler operation (prep_md_items or treat_output) of the real program, "
                       "accepted and reproduced by the extracted model and judged by the property oracle; a case is non-trivial when at least one job completed")
    ctx.cov["correspondence"] = {"cases": len(cases), **agg}
    ctx.sample({"case": cases[0]})
    ctx.cov["trusted_base"] += ["extraction ExtrOcamlBasic + ocaml/repex_driver.ml", "py/sysharness.py in-process scheduled runner",
                                "py/plugins/engines.py lattice plug-in engine", "py/repex_trace.py recorder"]
    ctx.assumptions += ["process isolation of workers is not modelled (jobs run in-process on pickled copies)",
                        "the model's pick accepts any (row, column) with idle row/column and non-zero weight; which of them is drawn is C02's matter"]


def replay(doc):
    if "big_pick" in doc["replay"]:
        (tag, res), = H.run_many(RR.big_pick_case, [tuple(doc["replay"]["big_pick"])], jobs=1)
        print(tag, {k: v for k, v in res.items() if k != "W"} if tag == "ok" else res)
        return 1 if tag != "ok" or res["C03"] else 0
    case = doc["replay"]["case"]
    (tag, res), = H.run_many(_run, [case], jobs=1)
    print(tag, {k: v for k, v in res.items() if k != "stats"} if tag == "ok" else res)
    bad = tag != "ok" or res["model"] or res["C03"]
    return 1 if bad else 0
