"""C05 — the sampler never stalls: a job can always be drawn, sorting terminates.

Theorems: coq/theorems/C05.v (coq/model/MatchM.v, coq/proofs/MatchP.v).  Tie: (a) certified
trace validation — for every pick of the real program a perfect matching of the idle block
containing the picked pair is computed and checked by the extracted model (step_m); the model
reproduces every recorded state; (b) functional lock-step of the literal sort_trajstate loop on
ALL staircase states (every height vector, every busy set) up to the tier's size against the
real REPEX_state.sort_trajstate.  Oracle: distinct live paths, fresh numbers, non-zero diagonal
after every step, finite P with unit row/column sums, bounded number of sort swaps, no hang,
restart files load (restarts are part of the runs).
"""
import importlib.util  # noqa: F401
import itertools

import numpy as np

import common
import repex_trace as T
from checks import c03

META = {
    "id": "C05",
    "level": "proof",
    "technique": "Coq invariant proof (perfect matching of the idle block preserved by certified picks, completions and re-sorting, over arbitrary operation sequences) + termination proof of the literal sort_trajstate loop for staircase rows of any size (lexicographic measure, pigeonhole on the matching) + certified trace validation and exhaustive lock-step of the sorting loop against the real code",
    "text": "Unbounded theorems: in every state reachable by picks that have non-zero probability (certified by a perfect matching through the picked pair), re-issued jobs and completions in any order with any outcome, the idle block of the weight matrix admits a perfect matching; for any idle slot a certified pick exists and is accepted (a job can always be drawn); after every completed step every slot holds a path with non-zero weight there (what load_paths asserts on the restart file written at that moment); live paths are distinct and below the next path number, which never decreases; when the sorting loop returns no slot needs moving. C05_sort_terminates (unbounded): on every state satisfying the exclusivity invariant, with a matchable idle block and staircase weight rows of full length, the literal sort_trajstate loop ends without error within n(n+1)+n+1 swaps, leaves no slot that needs moving and preserves all of this (the first badly placed slot never moves left; while it stays, the row in it gets strictly longer). A bounded exhaustive version (<= 4 plus ensembles) is kept as well. Tie: certified trace validation of the real scheduler()/REPEX_state (as C03) and exhaustive lock-step of sort_trajstate on all staircase states up to 5 (quick) / 6 (thorough) plus ensembles.",
    "note": "Trusted: Coq kernel; extraction + OCaml driver; harness. Termination of the sorting loop is proved for staircase rows of any size; the staircase hypothesis (and full row length) is evaluated on every recorded real state before re-sorting (counted in the evidence: staircase_states / non_staircase_states); weight rows are staircase (shooting: by construction; wire fencing: when the order parameter does not jump over a whole region — true for the lattice engine). That P_ij > 0 iff (i, j) lies on a perfect matching is perm_pos_iff_matching (C02's domain); here the certificate is computed by the harness and checked by the model.",
    "design_ref": "4/C05",
}
LEVEL = "proof"
EXTRACTS = ["repex", "c02"]


class _T:
    def __init__(self, pn):
        self.path_number = pn


def real_sort(hs, lk):
    """Run the real sort_trajstate on the staircase state (heights hs, busy flags lk)."""
    from infretis.classes.repex import REPEX_state
    m = len(hs)
    n = m + 2
    st = REPEX_state.__new__(REPEX_state)
    st.n = n
    st._offset = 1
    st.state = np.zeros((n, n))
    st.state[0, 0] = 1
    for r, h in enumerate(hs):
        st.state[r + 1, 1:1 + h] = 1
    st._locks = np.array(list(lk) + [1], dtype=float)
    st._trajs = [_T(i) for i in range(m + 1)] + [""]
    st.toinitiate = -1
    st._last_prob = None
    count = [0]
    o_swap = REPEX_state.swap

    def swap(a, b):
        count[0] += 1
        if count[0] > 10 * n * n:
            raise RuntimeError("hang")
        return o_swap(st, a, b)

    st.swap = swap
    # the P computation at the end is C02's matter; keep it from masking the sort result
    st.inf_retis = lambda mat, locks: np.zeros((n, n))
    try:
        st.sort_trajstate()
    except ValueError:
        return "VALUEERROR"
    except RuntimeError:
        return "HANG"
    W = ";".join(",".join(str(int(x)) for x in row) for row in st.state)
    Tn = ",".join(str(t.path_number) for t in st._trajs[:-1]) + ",0"
    return f"OK {W} {Tn} {count[0]}"


def run(ctx):
    c03.run(ctx, "C05")
    runner = common.runner_stage(ctx, "repex")
    if runner is None:
        return
    maxm = 4 if ctx.tier == "quick" else 5
    reqs, metas = [], []
    for m in range(1, maxm + 1):
        for hs in itertools.product(range(1, m + 1), repeat=m):
            for lk in itertools.product((0, 1), repeat=m + 1):
                n = m + 2
                W = [[0] * n for _ in range(n)]
                W[0][0] = 1
                for r, h in enumerate(hs):
                    for c in range(1, 1 + h):
                        W[r + 1][c] = 1
                locks = list(lk) + [1]
                # reachable-state filter: busy slots valid, idle block matchable
                if any(locks[c] and W[c][c] == 0 for c in range(n - 1)):
                    continue
                if T.find_matching(W, locks) is None:
                    continue
                Ws = ";".join(",".join(map(str, r)) for r in W)
                reqs.append(f"sort {Ws} {','.join(map(str, list(range(m + 1)) + [0]))} {','.join(map(str, locks))}")
                metas.append((hs, lk))
    outs = runner.run(reqs)
    nbad = 0
    for req, out, (hs, lk) in zip(reqs, outs, metas):
        impl = real_sort(hs, lk)
        ctx.count(("sort", hs, lk), nontrivial=not out.endswith(" 0"))
        ctx.dist(f"sort:m{len(hs)}")
        if impl != out and nbad < 5:
            nbad += 1
            found = not impl.startswith("OK")
            ctx.violation(f"sort_trajstate: model {out[:80]} vs implementation {impl[:80]} on heights {hs} busy {lk}",
                          {"sort": {"heights": hs, "busy": lk}, "model": out, "impl": impl}, found_input=found)
        elif not impl.startswith("OK") and nbad < 5:
            nbad += 1
            ctx.violation(f"C05 statement fails on the implementation: sort_trajstate {impl} on a valid staircase state heights {hs} busy {lk}",
                          {"sort": {"heights": hs, "busy": lk}, "impl": impl}, found_input=True)
    ctx.cov["correspondence"]["sort_states"] = len(reqs)
    ctx.cov["rule"] += "; C05: plus one evaluation per staircase state given to both the literal model loop and the real sort_trajstate (non-trivial when at least one swap is needed)"


def replay(doc):
    import sysharness as H
    rp = doc["replay"]
    if "sort" in rp:
        print(real_sort(tuple(rp["sort"]["heights"]), tuple(rp["sort"]["busy"])))
        return 0
    (tag, res), = H.run_many(c03._run, [rp["case"]], jobs=1)
    print(tag, {k: v for k, v in res.items() if k != "stats"} if tag == "ok" else res)
    return 1 if (tag != "ok" or res["model"] or res["C05"]) else 0
