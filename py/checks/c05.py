"""C05 — the sampler never stalls: a job can always be drawn, sorting terminates.

Theorems: coq/theorems/C05.v (coq/model/MatchM.v, coq/proofs/MatchP.v).  Tie: (a) certified
trace validation — for every pick of the real program a perfect matching of the idle block
containing the picked pair is computed and checked by the extracted model (step_m); the model
reproduces every recorded state; (b) functional lock-step of the literal sort_trajstate loop on
ALL staircase states (every height vector, every busy set) up to the tier's size against the
real REPEX_state.sort_trajstate.  Oracle: distinct live paths, fresh numbers, non-zero diagonal
after every step, finite P with unit row/column sums, bounded number of sort swaps, no hang,
restart files load (restarts are part of the runs).  (c) py/c05_enum.py: exhaustive small-system
exploration of the real REPEX_state under a scripted random generator (every outcome of every random
decision): all multi-worker start-ups and all "one job finishes" steps from every sorted valid state;
this is also the stage that searches the implementation for a concrete failing input.
"""
import importlib.util  # noqa: F401
import itertools
import os
import re
import time

import numpy as np

import c05_enum as E
import common
import repex_trace as T
from checks import c03

META = {
    "id": "C05",
    "level": "proof",
    "technique": "Coq invariant proof (perfect matching of the idle block preserved by certified picks, completions and re-sorting, over arbitrary operation sequences) + termination proof of the literal sort_trajstate loop for staircase rows of any size (lexicographic measure, pigeonhole on the matching) + certified trace validation and exhaustive lock-step of the sorting loop against the real code + exhaustive enumeration of all random outcomes of the real pick()/pick_traj_ens()/prep_md_items start-up and of all one-step completions (treat_output -> sort_trajstate -> restart file) on small systems",
    "text": "Unbounded theorems: in every state reachable by picks that have non-zero probability (certified by a perfect matching through the picked pair), re-issued jobs and completions in any order with any outcome, the idle block of the weight matrix admits a perfect matching; for any idle slot a certified pick exists and is accepted (a job can always be drawn); after every completed step every slot holds a path with non-zero weight there (what load_paths asserts on the restart file written at that moment); live paths are distinct and below the next path number, which never decreases; when the sorting loop returns no slot needs moving. C05_sort_terminates (unbounded): on every state satisfying the exclusivity invariant, with a matchable idle block and staircase weight rows of full length, the literal sort_trajstate loop ends without error within n(n+1)+n+1 swaps, leaves no slot that needs moving and preserves all of this (the first badly placed slot never moves left; while it stays, the row in it gets strictly longer). A bounded exhaustive version (<= 4 plus ensembles) is kept as well. Tie: certified trace validation of the real scheduler()/REPEX_state (as C03) and exhaustive lock-step of sort_trajstate on all staircase states up to 5 (quick) / 6 (thorough) plus ensembles. Exhaustive small-system families on the REAL REPEX_state (py/c05_enum.py, scripted generator enumerating every outcome with non-zero probability of choice()/random(), DFS): (1) start-up of 2..ensembles-1 workers exactly as scheduler() does it (initiate/prep_md_items/pick_lock/pick/pick_traj_ens) from every loadable staircase set of initial paths (3..5 ensembles complete, 0/1 weights and two or three integer-weight kinds; 6 ensembles, 0/1 weights: a seeded sample of the reach vectors in the quick tier, complete in the thorough tier) — after every pick the held ensembles/paths are disjoint and consistent with the busy flags, the remaining idle block has a perfect matching (brute force), P evaluates, is finite and has unit row/column sums; an exception in a pick is a stall; (2) from every such state with one worker (3..6 ensembles) or two workers (3..5) one job, then the other, finishes through loop()/treat_output() with every outcome (rejected, accepted with every reach legal for the ensemble): sorting terminates, every idle live path has non-zero weight where it sits, live paths distinct, numbers fresh, P fine, idle block matchable, the restart.toml written by that treat_output has the live order and the in-flight jobs and loads through REPEX_state + load_paths; the state at entry of every such sort_trajstate is also given to the extracted model (lock-step). The decision sequence is reported as the failing input. Accepted-configuration family: for 2..4 (thorough 5) ensembles, with and without lambda_minus_one, sh / wf, workers 1..ensembles+1 and several seeds, every configuration the real setup_config accepts is run on the lattice engine for 2*ensembles+2 steps; an exception in the scheduler is a stall and the configuration is the failing input.",
    "note": "Trusted: Coq kernel; extraction + OCaml driver; harness. Termination of the sorting loop is proved for staircase rows of any size; the staircase hypothesis (and full row length) is evaluated on every recorded real state before re-sorting (counted in the evidence: staircase_states / non_staircase_states); weight rows are staircase (shooting: by construction; wire fencing: when the order parameter does not jump over a whole region — true for the lattice engine). That P_ij > 0 iff (i, j) lies on a perfect matching is perm_pos_iff_matching (C02's domain); here the certificate is computed by the harness and checked by the model. The exhaustive families use stand-in path objects (only the attributes REPEX_state reads) with prescribed staircase weights (powers of two, so the permanent code is exact), a stand-in PathStorage, and explore by saving/restoring the fields of the REPEX_state object; every reported failure and a sample of the visited states are re-run from scratch with the full script and must reproduce.",
    "design_ref": "4/C05",
}
LEVEL = "proof"
EXTRACTS = ["repex", "c02"]


class _T:
    def __init__(self, pn):
        self.path_number = pn


def real_sort(hs, lk):
    """Run the real sort_trajstate on the staircase state (heights hs, busy flags lk)."""
    from infretis.classes.repex import REPEX_state
    m = len(hs)
    n = m + 2
    st = REPEX_state.__new__(REPEX_state)
    st.n = n
    st._offset = 1
    st.state = np.zeros((n, n))
    st.state[0, 0] = 1
    for r, h in enumerate(hs):
        st.state[r + 1, 1:1 + h] = 1
    st._locks = np.array(list(lk) + [1], dtype=float)
    st._trajs = [_T(i) for i in range(m + 1)] + [""]
    st.toinitiate = -1
    st._last_prob = None
    count = [0]
    o_swap = REPEX_state.swap

    def swap(a, b):
        count[0] += 1
        if count[0] > 10 * n * n:
            raise RuntimeError("hang")
        return o_swap(st, a, b)

    st.swap = swap
    # the P computation at the end is C02's matter; keep it from masking the sort result
    st.inf_retis = lambda mat, locks: np.zeros((n, n))
    try:
        st.sort_trajstate()
    except ValueError:
        return "VALUEERROR"
    except RuntimeError:
        return "HANG"
    W = ";".join(",".join(str(int(x)) for x in row) for row in st.state)
    Tn = ",".join(str(t.path_number) for t in st._trajs[:-1]) + ",0"
    return f"OK {W} {Tn} {count[0]}"


def sort_oracle(impl, lk):
    """C05 on the result of the real sort_trajstate: every idle slot holds a path with non-zero weight
    there, paths distinct.  Returns a description of what fails or None."""
    if not impl.startswith("OK"):
        return f"sort_trajstate ends with {impl}"
    _, W, Tn, _ = impl.split(" ")
    rows = [[int(x) for x in r.split(",")] for r in W.split(";")]
    tr = Tn.split(",")[:-1]
    if len(set(tr)) != len(tr):
        return f"live paths not distinct after sorting: {tr}"
    for i in range(len(rows) - 1):
        busy = lk[i] if i < len(lk) else 1
        if not busy and rows[i][i] == 0:
            return (f"after sort_trajstate idle path p{tr[i]} sits in slot {i} where its weight is zero "
                    f"(row {rows[i][:-1]}; a restart file written now does not load: assert valid[ens] != 0)")
    return None


def run(ctx):
    c03.run(ctx, "C05")
    runner = common.runner_stage(ctx, "repex")
    if runner is None:
        return
    maxm = 4 if ctx.tier == "quick" else 5
    reqs, metas = [], []
    for m in range(1, maxm + 1):
        for hs in itertools.product(range(1, m + 1), repeat=m):
            for lk in itertools.product((0, 1), repeat=m + 1):
                n = m + 2
                W = [[0] * n for _ in range(n)]
                W[0][0] = 1
                for r, h in enumerate(hs):
                    for c in range(1, 1 + h):
                        W[r + 1][c] = 1
                locks = list(lk) + [1]
                # reachable-state filter: busy slots valid, idle block matchable
                if any(locks[c] and W[c][c] == 0 for c in range(n - 1)):
                    continue
                if T.find_matching(W, locks) is None:
                    continue
                Ws = ";".join(",".join(map(str, r)) for r in W)
                reqs.append(f"sort {Ws} {','.join(map(str, list(range(m + 1)) + [0]))} {','.join(map(str, locks))}")
                metas.append((hs, lk))
    outs = runner.run(reqs)
    nbad = 0
    for req, out, (hs, lk) in zip(reqs, outs, metas):
        impl = real_sort(hs, lk)
        ctx.count(("sort", hs, lk), nontrivial=not out.endswith(" 0"))
        ctx.dist(f"sort:m{len(hs)}")
        orc = sort_oracle(impl, lk)
        if orc is not None and impl.startswith("OK") and nbad < 5:
            nbad += 1
            ctx.violation(f"C05 statement fails on the implementation: {orc}; valid staircase state heights {hs} busy {lk}",
                          {"sort": {"heights": hs, "busy": lk}, "impl": impl, "model": out}, found_input=True)
        elif impl != out and nbad < 5:
            nbad += 1
            found = not impl.startswith("OK")
            ctx.violation(f"sort_trajstate: model {out[:80]} vs implementation {impl[:80]} on heights {hs} busy {lk}",
                          {"sort": {"heights": hs, "busy": lk}, "model": out, "impl": impl}, found_input=found)
        elif not impl.startswith("OK") and nbad < 5:
            nbad += 1
            ctx.violation(f"C05 statement fails on the implementation: sort_trajstate {impl} on a valid staircase state heights {hs} busy {lk}",
                          {"sort": {"heights": hs, "busy": lk}, "impl": impl}, found_input=True)
    ctx.cov["correspondence"]["sort_states"] = len(reqs)
    ctx.cov["rule"] += "; C05: plus one evaluation per staircase state given to both the literal model loop and the real sort_trajstate (non-trivial when at least one swap is needed)"
    enum_stage(ctx, runner)
    accepted_stage(ctx)
    # concrete failing inputs first
    ctx.violations.sort(key=lambda v: not v[2])


def accepted_case(case):
    """(n_intf, lm1, moves, W, seed): is the configuration accepted by the real setup_config, and if so does a short run get
    through?  One forked child per case."""
    import shutil
    import tempfile
    import traceback
    import sysharness as H
    n_intf, lm1, moves, W, seed = case
    wd = tempfile.mkdtemp(prefix="c05acc_")
    try:
        H.write_setup(wd, n_intf=n_intf, moves=list(moves), workers=W, steps=2 * n_intf + 2, seed=seed, wall=-3, lambda_minus_one=lm1)
        old = os.getcwd()
        os.chdir(wd)
        try:
            from infretis.setup import setup_config
            H.reset_class_state()
            try:
                cfg = setup_config("infretis.toml")
            except Exception as e:      # noqa: BLE001
                return {"accepted": False, "why": f"{type(e).__name__}: {e}"[:200]}
        finally:
            os.chdir(old)
        if cfg is None:
            return {"accepted": False, "why": "setup_config returned None"}
        try:
            res = H.run_sim(wd)
        except Exception as e:          # noqa: BLE001
            tb = traceback.extract_tb(e.__traceback__)
            where = "; ".join(f"{os.path.basename(f.filename)}:{f.lineno} {f.name}" for f in tb[-3:])
            return {"accepted": True, "stall": f"{type(e).__name__}: {e}"[:200], "where": where}
        return {"accepted": True, "status": res["status"], "completed": len(res.get("completed") or [])}
    finally:
        shutil.rmtree(wd, ignore_errors=True)


def accepted_stage(ctx):
    """Every worker count the real check_config ACCEPTS must be one with which a job can always be drawn: configurations
    with and without lambda_minus_one, shooting / wire fencing, workers 1 .. ensembles + 1, several seeds (a zero swap
    among the start-up picks takes two ensembles for one worker)."""
    import sysharness as H
    quick = ctx.tier == "quick"
    cases = []
    for n_intf in ((2, 3, 4) if quick else (2, 3, 4, 5)):
        for lm1 in (None, -2.0):
            for moves in (("sh",) * n_intf, tuple("wf" if i % 2 else "sh" for i in range(n_intf))):
                for W in range(1, n_intf + 2):
                    for seed in range(4 if quick else 12):
                        cases.append((n_intf, lm1, moves, W, seed))
    results = H.run_many(accepted_case, cases, jobs=14, timeout=300)
    nbad = 0
    acc_max = {}
    for case, (tag, res) in zip(cases, results):
        n_intf, lm1, moves, W, seed = case
        if tag != "ok":
            if nbad < 4:
                nbad += 1
                ctx.violation(f"harness failure on accepted-configuration case {case}: {str(res)[:300]}", {"accepted_case": list(case), "error": str(res)[:2000]}, found_input=False)
            continue
        ctx.count(("accepted", case), nontrivial=bool(res.get("accepted")))
        ctx.dist(f"accepted-workers:E{n_intf}:{'lm1' if lm1 is not None else 'plain'}:W{W}:{'accepted' if res.get('accepted') else 'rejected'}")
        if not res.get("accepted"):
            continue
        key = (n_intf, lm1 is not None)
        acc_max[key] = max(acc_max.get(key, 0), W)
        if res.get("stall") and nbad < 4:
            nbad += 1
            ctx.violation(f"C05 statement fails on the implementation: the configuration with {n_intf} ensembles, "
                          f"{'lambda_minus_one = ' + repr(lm1) if lm1 is not None else 'no lambda_minus_one'}, moves {list(moves)}, {W} workers, seed {seed} "
                          f"is accepted by setup_config, and the run stalls: {res['stall']} ({res['where']})",
                          {"accepted_case": list(case), "result": res}, found_input=True)
        elif not res.get("stall") and (res.get("status") != "done" or res.get("completed") != 2 * n_intf + 2) and nbad < 4:
            nbad += 1
            ctx.violation(f"C05 statement fails on the implementation: accepted configuration {case} ends with status {res.get('status')} after "
                          f"{res.get('completed')} of {2 * n_intf + 2} steps", {"accepted_case": list(case), "result": res}, found_input=True)
    ctx.cov["correspondence"]["accepted_worker_counts"] = {f"E{k[0]}{':lm1' if k[1] else ''}": v for k, v in sorted(acc_max.items())}
    ctx.cov["rule"] += "; accepted-configuration family: one evaluation per (ensembles, lambda_minus_one, moves, workers, seed), non-trivial when setup_config accepts it"


def enum_stage(ctx, runner):
    """Exhaustive small-system exploration of the real REPEX_state (py/c05_enum.py)."""
    t0 = time.time()
    cases, results = E.run_all(ctx.tier, ctx.rng)
    wall = round(time.time() - t0, 1)
    keys = ("runs", "picks", "zero_swaps", "states", "leaves", "steps", "step_swaps", "step_nontrivial", "scratch_checks")
    agg = {k: 0 for k in keys}
    agg["max_decisions"] = 0
    sorts = {}
    fails = []
    nerr = 0
    for case, r in zip(cases, results):
        fam = "startup" if case["steps"] == 0 else "step"
        ctx.dist(f"enum-{fam}:E{case['n_ens']}:W{case['workers']}:{case['kind']}")
        if r is None or isinstance(r, tuple):
            if nerr < 2:
                nerr += 1
                ctx.violation(f"harness failure in the exhaustive exploration of {case}: {str(r)[:300]}",
                              {"enum_case": case, "error": str(r)[-3000:]}, found_input=False)
            continue
        for k in keys:
            agg[k] += r[k]
        agg["max_decisions"] = max(agg["max_decisions"], r["max_decisions"])
        ctx.count(("enum", repr(case)), nontrivial=(r["picks"] + r["steps"]) > 0, n=r["picks"] + r["steps"])
        for req, ans in r["sorts"].items():
            sorts.setdefault(req, (ans, case))
        fails += r["failures"]
    fails.sort(key=lambda f: (f["case"]["n_ens"], f["case"]["workers"], len(f["script"]) + len(f["completions"]), f["case"]["kind"] != "01"))
    seen = set()
    for f in fails:
        # one report per kind of failure (the smallest input first), at most four
        sig = (f["family"], f["problems"][0][:30])
        if sig in seen or len(seen) >= 4:
            continue
        seen.add(sig)
        what = ("start-up of the workers" if f["family"] == "startup" else "one completed step")
        c = f["case"]
        short = " / ".join(re.sub(r"\s*\[option.*$", "", re.sub(r" \(slot [^)]*\)", "", d)).replace("zero-swap ", "") for d in f["decisions"])
        ctx.violation(f"C05 statement fails on the implementation ({what}, exhaustive): {f['problems'][0][:150]} || input: {c['n_ens']} ensembles, "
                      f"{c['workers']} worker(s), initial paths of [0+].. reach {c['reach']} (weights {c['kind']}); decisions: {short}",
                      {"enum": f, "input": E.describe(c)}, found_input=True)
    # lock-step of every sort_trajstate call of the step family with the extracted model
    reqs = sorted(sorts)
    outs = runner.run(reqs) if reqs else []
    nbad = 0
    for req, out in zip(reqs, outs):
        impl, case = sorts[req]
        if impl != out and nbad < 3:
            nbad += 1
            ctx.violation(f"sort_trajstate inside treat_output: model {out[:90]} vs implementation {impl[:90]} on {req[:120]}",
                          {"sort_request": req, "model": out, "impl": impl, "enum_case": case}, found_input=False)
    ctx.cov["correspondence"]["enum"] = {"cases": len(cases), **agg, "sort_lockstep_states": len(reqs), "wall_s": wall}
    ctx.cov["rule"] += ("; exhaustive exploration: one evaluation per pick of the real start-up (all outcomes of choice()/random() with non-zero "
                        "probability) and per completed step (treat_output with every outcome), each judged by the C05 oracle")
    ctx.sample({"enum_case": cases[len(cases) // 2]})
    ctx.cov["trusted_base"] += ["py/c05_enum.py: scripted generator, stand-in paths/PathStorage, save/restore exploration (failures re-run from scratch)"]
    ctx.assumptions += ["exhaustive families: staircase weight rows (0/1 and three power-of-two integer kinds), 3..6 ensembles; "
                        "a decision is enumerated when the probability the code hands to choice() is > 0"]


def replay(doc):
    import sysharness as H
    rp = doc["replay"]
    if "enum" in rp:
        return E.replay_failure(rp["enum"])
    if "accepted_case" in rp:
        c = rp["accepted_case"]
        (tag, res), = H.run_many(accepted_case, [(c[0], c[1], tuple(c[2]), c[3], c[4])], jobs=1)
        print(tag, res)
        return 1 if (tag != "ok" or (res.get("accepted") and (res.get("stall") or res.get("status") != "done"))) else 0
    if "sort_request" in rp:
        print("model", rp["model"], "impl", rp["impl"])
        return 1
    if "sort" in rp:
        print(real_sort(tuple(rp["sort"]["heights"]), tuple(rp["sort"]["busy"])))
        return 0
    (tag, res), = H.run_many(c03._run, [rp["case"]], jobs=1)
    print(tag, {k: v for k, v in res.items() if k != "stats"} if tag == "ok" else res)
    return 1 if (tag != "ok" or res["model"] or res["C05"]) else 0
