"""C08 — a crash at any point leaves a restartable, consistent state.

Theorems: coq/theorems/C08.v (model coq/model/DiskM.v, proofs coq/proofs/DiskP.v).
Tie: (a) effect-trace correspondence — every file-system effect of the main process during the
real treat_output is logged (py/crash_harness.py) and its abstraction must equal the model's
effect list for the step description read off the disk before/after the step; the hypotheses of
the theorem (new paths get fresh numbers, only paths that are live neither before nor after are
deleted, ...) are evaluated on those real steps; (b) fault enumeration — for EVERY effect index
of every recorded step, before the effect and half-way through it when it is a write, the main
process is killed there, the real program is restarted from what is on disk and continued; the
record found and the data rows kept must be the model's recover(crash k t ...).
Oracle: the statement itself on the real outcome (restart starts, needed paths load, no live
path lost files, every replaced path exactly one row, recorded in-flight jobs re-issued, also
for a second crash after the restart).
Family 'orders a hair off an interface' (crash_cases.write_setup, key `hair`): integer interfaces, order =
position + eps with |eps| < 5e-7, so that what order.txt holds (six decimals) is exactly ON an interface while
the value in memory is beside it; same enumeration, same oracle.
"""
import importlib.util  # noqa: F401
import os
import shutil

import common
import crash_cases as CC
import crash_harness as CH
import sysharness as H

META = {
    "id": "C08",
    "level": "proof",
    "technique": "Coq theorem over an abstract disk/effect model (every crash index and torn flag of any step, by frame lemmas over the effect list) + effect-trace correspondence and exhaustive fault injection (process death at every file-system effect, torn writes) against the real program with restart and continuation",
    "text": "Unbounded theorem: for every disk consistent with its restart record, every step description (any number of new paths and deletions, accepted or rejected) satisfying the stated side conditions, EVERY crash index and torn flag: the restart reads the old or the new record, every path it lists is complete on disk, no effect prefix touches a file of a path the on-disk record lists, and the rows kept are those of before the step (old record; the step is redone) or those plus one row per replaced path (new record): after continuing every replaced path has exactly one row. The original code (in-place rewrite of restart.toml, no trimming) is refuted at two crash points. Tie: the logged effects of real treat_output calls equal the model's effect list; the side conditions are evaluated on the real steps; the real program is killed at every effect index (and half-way through every write) of steps of several kinds (shooting, wire fencing, zero swap, rejected, delete_old, delete_old_all, two workers), restarted and continued, and record/rows found are compared with the model; double crashes in both tiers. Family 'orders a hair off an interface': the same crash enumeration on runs whose interfaces are INTEGERS and whose order parameter is position + eps (|eps| < 5e-7, lost in the six decimals of order.txt; plain shooting only and mixed with wire fencing; thorough: also eps < 0, interface_cap and lambda_minus_one on integers, two workers): a live path that crosses the interface of its slot by eps in memory is stored with a maximum EQUAL to the interface, so the weights the restart recomputes from disk (calc_cv_vector in load_paths) are the only place where strict and non-strict comparisons differ; the restart must start and every live path must load with non-zero weight in its slot; the check fails closed when no traced step has such a path live.",
    "note": "Trusted: Coq kernel; extraction + OCaml driver; py/crash_harness.py (patches builtins.open, os.remove/rmdir/rename/replace/makedirs/mkdir, shutil.move/copy; a crash is a BaseException raised at the effect, writes are torn at half of the bytes of one write call; in the second, 'buffered' mode written data reaches the disk only when the file is flushed or closed, that flush is the tearable effect and a file still open at the crash loses its buffer). POSIX semantics of rename/append/truncate and loss of page-cache contents on power failure are NOT modelled: a crash is process death. Worker processes are not crashed (jobs run in-process). The abstraction of the log (consecutive mkdir/rmdir collapsed, open+writes of one file = one write effect, move+rename = one atomic move) is part of the harness. Hair family: py/plugins/engines.py (order_eps, default 0.0 = unchanged) and crash_cases.write_setup (rewrites the interfaces of the set-up written by sysharness to integers and shifts the order.txt of the hand-made initial paths by +-1e-6, so that they are valid under any reading of the comparisons: only paths the program stored itself sit on an interface). Known finding (known_findings.json, 'six-decimal order files'): with an interface of more than six decimals a path maximum between the interface and the next multiple of 1e-6 is stored BELOW the interface and every restart while that path is live dies in add_traj (assert valid[ens] != 0); one fixed scenario (interfaces k + 3e-7, orders = position + 4e-7, crash in step 2 at effects 0, 5, 30; oracle only) exercises it in both tiers: KNOWN-FINDING line while the entry is listed, VIOLATION with the input when it is not, an ordinary case when it passes, and any other failure of that scenario is a VIOLATION.",
    "design_ref": "4/C08",
}
LEVEL = "proof"

KNOWN_SIX_DECIMALS = ("six-decimal order files: restart fails (add_traj: assert valid[ens] != 0) when an interface has more than six decimals "
                      "and a live path's maximum lies above it by less than the rounding of order.txt")

TXT = {"order.txt": 0, "energy.txt": 1, "traj.txt": 2}


def disk_view(wd):
    """load tree + data rows + restart record, as the model sees them."""
    import tomli
    files = {}
    load = os.path.join(wd, "load")
    for pn in sorted(os.listdir(load)) if os.path.isdir(load) else []:
        if not pn.isdigit():
            continue
        d = os.path.join(load, pn)
        fl = {}
        for t in TXT:
            if os.path.isfile(os.path.join(d, t)):
                fl[t] = TXT[t]
        acc = os.path.join(d, "accepted")
        names = sorted(os.listdir(acc)) if os.path.isdir(acc) else []
        for i, nm in enumerate(names):
            fl["accepted/" + nm] = 3 + i
        files[int(pn)] = fl
    rec = None
    rp = os.path.join(wd, "restart.toml")
    if os.path.exists(rp):
        with open(rp, "rb") as f:
            c = tomli.load(f)
        rec = {"cstep": c["current"]["cstep"], "active": list(c["current"]["active"]), "traj_num": c["current"]["traj_num"],
               "data_file": c["output"]["data_file"]}
    rows = []
    if rec:
        p = os.path.join(wd, rec["data_file"])
        for line in open(p):
            if not line.startswith("#") and line.strip():
                rows.append(int(line.split()[0]))
    return {"files": files, "rec": rec, "rows": rows}


def dry_step(arg):
    """Run up to the `which`-th treat_output and record the effects of that call with the disk before/after."""
    setup, which, sched = arg
    wd = H.scratch("infv_c08d_")
    info = {}
    try:
        CC.write_setup(wd, setup)
        inj = CH.Injector()

        class R(H.Recorder):
            def attach(self, state):
                super().attach(state)
                inner = state.treat_output
                cnt = {"k": 0}

                def treat(md):
                    k = cnt["k"]
                    cnt["k"] += 1
                    if k == which:
                        info["before"] = disk_view(wd)
                        if "hair" in setup and info["before"]["rec"] is not None:
                            info["on_interface"] = CC.on_interface(wd)
                        info["status"] = md["status"]
                        info["pn_old"] = [int(md["picked"][e]["pn_old"]) for e in md["picked"]]
                        inj.active = True
                    try:
                        return inner(md)
                    finally:
                        if k == which:
                            inj.active = False
                            info["after"] = disk_view(wd)
                state.treat_output = treat
        inj.install(wd)
        try:
            H.run_sim(wd, recorder=R(with_frac=False), schedule=list(sched or []))
        finally:
            inj.uninstall()
        info["log"] = inj.log
    finally:
        shutil.rmtree(wd, ignore_errors=True)
    return info


def abstract_log(info):
    """real effect log -> list of (abstract effect string, [real indices], tearable-after-first)."""
    before, after = info["before"], info["after"]
    out = []
    rows_written = 0
    olds = info["pn_old"] if info["status"] == "ACC" else []
    i = 0
    log = info["log"]
    problems = []
    while i < len(log):
        idx, kind, tgt = log[i]
        parts = tgt.split(os.sep)
        if kind == "mkdir" or kind == "rmdir":
            j = i
            while j < len(log) and log[j][1] == kind:
                j += 1
            out.append(("N", [x[0] for x in log[i:j]], False))
            i = j
            continue
        if kind.startswith("open:") and parts[0] == "load" and parts[-1] in TXT:
            pn = int(parts[1])
            j = i + 1
            while j < len(log) and log[j][1].startswith("write") and log[j][2] == tgt:
                j += 1
            out.append((f"P{pn}.{TXT[parts[-1]]}", [x[0] for x in log[i:j]], True))
            i = j
            continue
        if kind == "move" and parts[0] == "load":
            pn = int(parts[1])
            name = "accepted/" + parts[-1]
            fid = after["files"].get(pn, {}).get(name)
            j = i + 1
            if j < len(log) and log[j][1] in ("rename", "copy") and log[j][2] == tgt:
                j += 1
            if fid is None:
                problems.append(f"moved file {tgt} is not in the stored path afterwards")
                fid = 99
            out.append((f"P{pn}.{fid}", [x[0] for x in log[i:j]], False))
            i = j
            continue
        if kind == "remove" and parts[0] == "load":
            pn = int(parts[1])
            name = "/".join(parts[2:])
            fid = before["files"].get(pn, {}).get(name)
            if fid is None:
                # removal of an existing destination before a move (same file name)
                problems.append(f"removed file {tgt} was not part of a stored path before the step")
                fid = 99
            out.append((f"D{pn}.{fid}", [idx], False))
            i += 1
            continue
        if kind == "open:a" and "infretis_data" in parts[-1]:
            i += 1
            continue
        if kind.startswith("write") and "infretis_data" in parts[-1]:
            pn = olds[rows_written] if rows_written < len(olds) else -1
            rows_written += 1
            out.append((f"R{pn}", [idx], True))
            i += 1
            continue
        if kind.startswith("open:") and parts[-1] == "restart.toml.tmp":
            j = i + 1
            while j < len(log) and log[j][1].startswith("write") and log[j][2] == tgt:
                j += 1
            out.append(("T", [x[0] for x in log[i:j]], True))
            i = j
            continue
        if kind == "replace" and parts[-1] == "restart.toml":
            out.append(("S", [idx], False))
            i += 1
            continue
        if kind.startswith("open:") and parts[-1] == "restart.toml":
            j = i + 1
            while j < len(log) and log[j][1].startswith("write") and log[j][2] == tgt:
                j += 1
            out.append(("I", [x[0] for x in log[i:j]], True))
            i = j
            continue
        problems.append(f"effect outside the model: {kind} {tgt}")
        i += 1
    return out, problems


def step_spec(info):
    """Model request fields for the step read off the disk before/after it."""
    before, after = info["before"], info["after"]
    olds = info["pn_old"] if info["status"] == "ACC" else []
    news = [pn for pn in after["files"] if pn not in before["files"]]
    removed = {}
    for pn, fl in before["files"].items():
        gone = [fid for name, fid in fl.items() if name not in after["files"].get(pn, {})]
        if gone:
            removed[pn] = sorted(gone)
    need = {}
    for pn, fl in list(before["files"].items()) + list(after["files"].items()):
        need.setdefault(pn, sorted(set(need.get(pn, [])) | set(fl.values())))
    return news, removed, olds, need


def enc_need(need):
    return ";".join(f"{pn}:{','.join(map(str, fs))}" for pn, fs in sorted(need.items())) or "-"


def enc_disk(view):
    files = ";".join(f"{pn}.{fid}.1" for pn, fl in sorted(view["files"].items()) for fid in sorted(fl.values())) or "-"
    rows = ";".join(f"{pn}.1" for pn in view["rows"]) or "-"
    rec = "-" if view["rec"] is None else f"{view['rec']['cstep']}/{','.join(map(str, view['rec']['active']))}/{view['rec']['traj_num']}"
    return files, rows, rec


def run(ctx):
    common.proof_stage(ctx, "C08", ["extract/c08.vo"])
    runner = common.runner_stage(ctx, "c08")
    if runner is None:
        return
    quick = ctx.tier == "quick"
    rng = ctx.rng
    scenarios = [
        (dict(n_intf=3, workers=1, steps=7, seed=3, moves=["sh", "sh", "wf"], cap=2.5, delete_old=True), None, [0, 3, 4, 5] if quick else list(range(7))),
        (dict(n_intf=3, workers=2, steps=6, seed=5, moves=["sh", "sh", "sh"], delete_old=True, delete_old_all=True), [1, 0, 1, 0, 0, 0],
         [1, 3] if quick else list(range(6))),
        # long enough for the directory written by the crashed (then redone) step to be deleted again
        (dict(n_intf=3, workers=1, steps=16, seed=3, moves=["sh", "sh", "sh"], delete_old=True, delete_old_all=True), None,
         [2, 3] if quick else [2, 3, 6, 7, 8]),
    ]
    # initial paths reaching beyond their own interface: steps 0 and 2 of this run re-sort the path/ensemble
    # table (sort_trajstate swaps); the crashes are placed in the steps that follow a re-sorting step
    scenarios.append((dict(n_intf=4, workers=2, steps=7, seed=9, moves=["sh"] * 4, init_reach=[0, 4, 2, 4], delete_old=True),
                      [0, 1, 0, 0, 1, 0, 0], [1, 3] if quick else [0, 1, 2, 3, 4]))
    if not quick:
        scenarios += [
            (dict(n_intf=4, workers=1, steps=9, seed=11, moves=["sh", "sh", "wf", "wf"], cap=3.25, delete_old=True, delete_old_all=True), None, list(range(9))),
            (dict(n_intf=4, workers=3, steps=8, seed=2, moves=["sh", "sh", "sh", "sh"]), [2, 0, 1, 1, 0, 0, 0, 0], list(range(8))),
        ]
    # orders a hair off an interface: the lattice plug-in reports x + eps (|eps| < 5e-7) and the interfaces are
    # INTEGERS, so a path that crosses its interface by eps in memory has, in order.txt (six decimals), a maximum
    # EQUAL to the interface: strict and non-strict comparisons agree in the running process and differ after a
    # restart.  eps > 0: interfaces 1..n, eps < 0: interfaces 0..n-1 (CC.write_setup).  The crashes are placed in
    # steps whose old/new record lists a path stored exactly on the interface of its slot (checked below).
    hair = [
        (dict(n_intf=3, workers=1, steps=8, seed=3, moves=["sh", "sh", "sh"], delete_old=True, hair=2e-7), None,
         [1, 4] if quick else list(range(8))),
        (dict(n_intf=3, workers=1, steps=10, seed=3, moves=["sh", "sh", "wf"], cap=3.0, wall=-3, delete_old=True, hair=4e-7), None,
         [1, 3] if quick else list(range(10))),
    ]
    if not quick:
        hair += [
            (dict(n_intf=4, workers=1, steps=10, seed=5, moves=["sh", "sh", "sh", "wf"], wall=-3, delete_old=True, delete_old_all=True, hair=4e-7),
             None, [4, 5, 6, 7, 8, 9]),
            # the cap of the wire-fencing ensembles on an integer strictly inside (frames a hair above the cap)
            (dict(n_intf=5, workers=1, steps=12, seed=7, moves=["sh", "sh", "wf", "wf", "sh"], cap=4.0, wall=-3, delete_old=True, hair=3e-7),
             None, [1, 4, 6, 7, 8, 9, 10]),
            # two workers, lambda_minus_one on an integer
            (dict(n_intf=4, workers=2, steps=10, seed=9, moves=["sh", "wf", "sh", "wf"], wall=-3, lambda_minus_one=-2.0, delete_old=True,
                  delete_old_all=True, hair=4e-7), [1, 0, 1, 0, 0, 1, 0, 0, 0, 0], [1, 2, 5, 7, 8]),
            # a hair BELOW: a stored maximum equal to the NEXT interface (weight gained at the restart), a [0-] path
            # whose end points and a [i+] path whose start point are stored ON lambda_0
            (dict(n_intf=3, workers=1, steps=10, seed=3, moves=["sh", "sh", "sh"], delete_old=True, hair=-2e-7), None, [1, 3, 4, 5, 7]),
            (dict(n_intf=4, workers=1, steps=10, seed=5, moves=["sh", "sh", "wf", "wf"], cap=3.0, delete_old=True, hair=-4e-7), None, [3, 5, 6, 7, 8]),
            (dict(n_intf=5, workers=1, steps=12, seed=7, moves=["sh", "sh", "wf", "wf", "sh"], cap=3.0, delete_old=True, hair=-3e-7), None,
             [3, 5, 6, 8, 9]),
        ]
    scenarios += hair
    dry_args = [(setup, w, sched) for setup, sched, whiches in scenarios for w in whiches]
    dres = H.run_many(dry_step, dry_args, jobs=14, timeout=600)
    cases, cmeta, reqs_eff, eff_meta = [], [], [], []
    hcases, hmeta, hair_steps = [], [], 0
    for (setup, which, sched), (tag, info) in zip(dry_args, dres):
        if tag != "ok" or "after" not in info:
            ctx.violation(f"harness failure in dry run {setup} step {which}: {str(info)[:300]}", {"setup": setup, "which": which, "error": str(info)}, found_input=False)
            continue
        # the hair family is collected apart: the sample drawn from the other scenarios stays what it was
        xcases, xmeta = (hcases, hmeta) if "hair" in setup else (cases, cmeta)
        if "hair" in setup:
            oi = info.get("on_interface") or []
            hair_steps += 1 if any(mv == "sh" for _, _, mv in oi) else 0
            ctx.dist(f"hair:eps{setup['hair']:+.0e}:live-on-interface:" + (",".join(sorted({mv for _, _, mv in oi})) or "none"))
        if info["before"]["rec"] is None:
            # first completed step: nothing persisted yet; a crash means a fresh start (not modelled, oracle only)
            for idx, kind, _ in info["log"]:
                xcases.append(dict(setup=setup, which=which, crash_at=idx, torn=False, schedule=sched))
                xmeta.append(None)
            continue
        abst, aprob = abstract_log(info)
        news, removed, olds, need = step_spec(info)
        ctx.dist(f"step:{info['status']}:new{len(news)}:del{len(removed)}:W{setup['workers']}")
        # ---- hypotheses of the theorem on the real step
        hyp = []
        act_old, act_new = info["before"]["rec"]["active"], info["after"]["rec"]["active"]
        for pn in news:
            if pn in act_old:
                hyp.append(f"new path number {pn} is a live path of the old record")
        for pn in olds:
            if pn not in act_old or pn in act_new:
                hyp.append(f"replaced path {pn} is not live before / still live after the step")
        for pn in removed:
            if pn in act_old or pn in act_new:
                hyp.append(f"files {removed[pn]} of path {pn} were removed although the path is live (before: {pn in act_old}, after: {pn in act_new})")
        for pn in act_new:
            if pn not in act_old and pn not in news:
                hyp.append(f"path {pn} of the new record is neither old nor new")
        for pn in info["before"]["rows"]:
            if pn in act_old:
                hyp.append(f"live path {pn} already has a data row")
        if hyp:
            ctx.violation(f"C08 statement fails on the implementation: {hyp[0]}", {"setup": setup, "which": which, "problems": hyp}, found_input=True)
        for pr in aprob:
            ctx.violation(f"effect log of step {which} does not fit the model: {pr}", {"setup": setup, "which": which, "log": info["log"][:40]}, found_input=False)
        # parts: new path followed by the deletions logged before the next new path / the rows
        parts = []
        cur = None
        for a, _, _ in abst:
            if a[0] == "P":
                pn = int(a[1:].split(".")[0])
                if cur is None or cur[0] != pn:
                    cur = [pn, {}]
                    parts.append(cur)
            elif a[0] == "D":
                pn, fid = a[1:].split(".")
                if cur is None:
                    cur = [-1, {}]
                    parts.append(cur)
                cur[1].setdefault(int(pn), []).append(int(fid))
        if any(p[0] == -1 for p in parts):
            ctx.violation(f"step {which}: a deletion precedes every new path (not expressible in the model)", {"setup": setup, "which": which}, found_input=False)
            continue
        pstr = ";".join(f"{pn}>" + ("+".join(f"{d}:{','.join(map(str, fs))}" for d, fs in dl.items()) or "-") for pn, dl in parts) or "-"
        files, rows, rec = enc_disk(info["before"])
        rnew = f"{info['after']['rec']['cstep']}/{','.join(map(str, act_new))}/{info['after']['rec']['traj_num']}"
        base = f"crash 1 {enc_need(need)} {files} {rows} {rec} {pstr} {','.join(map(str, olds)) or '-'} {rnew}"
        reqs_eff.append(base + " 0 0")
        eff_meta.append((setup, which, sched, info, abst, base))
    # ---- (a) effect lists
    outs = runner.run(reqs_eff)
    for (setup, which, sched, info, abst, base), out in zip(eff_meta, outs):
        model_eff = out.split(" | ")[0].split(" ", 1)[1].split(",")
        real_eff = [a for a, _, _ in abst]
        ctx.count(("trace", repr(setup), which), nontrivial=True, n=len(real_eff))
        def canon(effs):
            """drop no-ops; the order in which the trajectory files of one path are moved is immaterial"""
            out, run = [], []
            for e in [x for x in effs if x != "N"]:
                mv = e[0] == "P" and int(e.split(".")[1]) >= 3
                if mv and run and run[-1].split(".")[0] == e.split(".")[0]:
                    run.append(e)
                    continue
                out += sorted(run)
                run = [e] if mv else []
                if not mv:
                    out.append(e)
            return out + sorted(run)
        if canon(model_eff) != canon(real_eff):
            ctx.violation(f"effects of step {which} differ: implementation {real_eff}, model {model_eff}",
                          {"setup": setup, "which": which, "implementation": real_eff, "model": model_eff}, found_input=False)
            continue
        # map every real effect index to the model's (k, torn)
        for ai, (a, idxs, tear) in enumerate(abst):
            if a == "N":
                nxt = next((b for b, _, _ in abst[ai + 1:] if b != "N"), None)
                mi = model_eff.index(nxt) if nxt is not None else len(model_eff)
                tear = False
            else:
                mi = model_eff.index(a)
            for j, ridx in enumerate(idxs):
                kind = info["log"][ridx][1]
                mt = 1 if (j > 0 and tear) else 0
                xcases, xmeta = (hcases, hmeta) if "hair" in setup else (cases, cmeta)
                xcases.append(dict(setup=setup, which=which, crash_at=ridx, torn=False, schedule=sched))
                xmeta.append((base, mi, mt, info))
                if kind.startswith("write"):
                    xcases.append(dict(setup=setup, which=which, crash_at=ridx, torn=True, schedule=sched))
                    xmeta.append((base, mi, 1 if tear else 0, info))
    # buffered writes: what a process writes reaches the disk when the file is flushed or closed (the
    # flush is the effect; a file still open at the crash loses its buffer).  Oracle only.
    for (setup, which, sched), (tag, info) in zip(dry_args, dres):
        if tag != "ok" or "after" not in info:
            continue
        n_open = sum(1 for _, kind, _ in info["log"] if kind.startswith("open"))
        n_write = sum(1 for _, kind, _ in info["log"] if kind.startswith("write"))
        xcases, xmeta = (hcases, hmeta) if "hair" in setup else (cases, cmeta)
        for idx in range(len(info["log"]) - n_write + n_open + 1):
            for torn in (False, True):
                xcases.append(dict(setup=setup, which=which, crash_at=idx, torn=torn, schedule=sched, buffered=True))
                xmeta.append(None)
    # sample when too many
    cap = 2500 if quick else 16000
    if len(cases) > cap:
        keep = sorted(rng.sample(range(len(cases)), cap))
        cases = [cases[i] for i in keep]
        cmeta = [cmeta[i] for i in keep]
    # double crashes: a second crash in one of the first steps after the restart (several workers: the
    # completion order after the restart is varied so that re-issued jobs are still in flight then)
    extra = []
    multi = [c for c in cases if c["setup"]["workers"] > 1]
    pool = (multi * 3 + cases) if multi else cases
    for c in rng.sample(pool, min(60 if quick else 600, len(pool))):
        c2 = dict(c)
        W = c["setup"]["workers"]
        c2["schedule"] = [rng.randrange(W) for _ in range(12)]
        c2["second"] = (rng.randint(0, 1), rng.randint(0, 80), rng.random() < 0.5)
        extra.append(c2)
    cases += extra
    cmeta += [None] * len(extra)
    # the hair family (own budget; drawn after everything else, so the draws above are what they were)
    if hair and not hair_steps:
        ctx.violation("no traced step of the 'hair off an interface' set-ups has a live plain-shooting path stored exactly on its interface: "
                      "the family tests nothing", {"setups": [h[0] for h in hair]}, found_input=False)
    hcap = 320 if quick else 2500
    if len(hcases) > hcap:
        keep = sorted(rng.sample(range(len(hcases)), hcap))
        hcases = [hcases[i] for i in keep]
        hmeta = [hmeta[i] for i in keep]
    hextra = []
    for c in rng.sample(hcases, min(10 if quick else 150, len(hcases))):
        c2 = dict(c)
        W = c["setup"]["workers"]
        c2["schedule"] = [rng.randrange(W) for _ in range(12)]
        c2["second"] = (rng.randint(0, 1), rng.randint(0, 80), rng.random() < 0.5)
        hextra.append(c2)
    n_hair = len(hcases) + len(hextra)
    cases += hcases + hextra
    cmeta += hmeta + [None] * len(hextra)
    # interfaces with MORE than six decimals (k + 3e-7, orders = position + 4e-7): path 4, accepted in [0+] at step 1
    # with maximum 1.0000004 > 1.0000003, is stored with maximum 1.000000 < 1.0000003.  One fixed scenario, both
    # tiers, oracle only (the disk model has no order values).  On /repo the restart dies in add_traj: reported as
    # the known finding while known_findings.json lists it, as a VIOLATION otherwise; any other failure is a
    # VIOLATION like everywhere else; if it passes it is an ordinary case.
    fine_setup = dict(n_intf=3, workers=1, steps=8, seed=3, moves=["sh", "sh", "sh"], delete_old=True, hair=4e-7, hair_intf_shift=3e-7)
    fine = [dict(setup=fine_setup, which=1, crash_at=k, torn=False, schedule=None) for k in (0, 5, 30)]
    cases += fine
    cmeta += [None] * len(fine)
    fine_seen = {"known": 0, "ok": 0, "other": 0}
    res = H.run_many(CC.crash_case, cases, jobs=14, timeout=900)
    for c in cases[:3]:
        ctx.sample({k: v for k, v in c.items()})
    reqs, refs = [], []
    nbad = 0
    for case, meta, (tag, r) in zip(cases, cmeta, res):
        if tag != "ok":
            ctx.violation(f"harness failure on crash case: {str(r)[:300]}", {"case": case, "error": str(r)}, found_input=False)
            continue
        ctx.count(("crash", repr(case["setup"]), case["which"], case["crash_at"], case["torn"], case.get("buffered", False), repr(case.get("second"))),
                  nontrivial=not r["info"].get("no_crash"))
        ctx.dist(("bcrash:" if case.get("buffered") else "crash:") + ("none" if r["info"].get("no_crash") else (r["info"]["crashed_effect"][1].split(":")[0] if r["info"].get("crashed_effect") else "?")))
        mine = [p for cat, p in r["problems"] if cat == "C08"]
        harness = [p for cat, p in r["problems"] if cat == "harness"]
        if harness and nbad < 6:
            nbad += 1
            ctx.violation(f"harness problem: {harness[0][:300]}", {"case": case, "problems": r["problems"]}, found_input=False)
        if "hair_intf_shift" in case["setup"]:
            bi = r["info"].get("below_interface")
            is_known = (len(mine) == 1 and mine[0].startswith("restart after a crash") and "in add_traj: `assert valid[ens] != 0`" in mine[0]
                        and isinstance(bi, list) and bi and all(0 < d < 5e-7 for _, _, d in bi))
            if is_known:
                fine_seen["known"] += 1
                ctx.dist("interfaces-with-more-than-six-decimals:restart-dies-in-add_traj(known finding)")
                if any("property=C08" in k and "six-decimal order files" in k for k in common.load_findings().get("known", [])):
                    ctx.known(KNOWN_SIX_DECIMALS)
                else:
                    st = case["setup"]
                    ctx.violation(f"C08 statement fails on the implementation: {mine[0].split(' :: ')[0][:200]} [interfaces "
                                  f"{[v + st['hair_intf_shift'] for v in CC.hair_interfaces(st['n_intf'], st['hair'])]}, orders = position {st['hair']:+.0e}, "
                                  f"moves {','.join(st['moves'])}, seed {st['seed']}, step {case['which'] + 1}; live paths stored BELOW their interface "
                                  f"(slot, path, by): {[(a, b, float(f'{d:.1e}')) for a, b, d in bi]}]",
                                  {"case": case, "problems": r["problems"], "info": r["info"]}, found_input=True)
                mine = []
            else:
                fine_seen["other" if mine else "ok"] += 1
                ctx.dist("interfaces-with-more-than-six-decimals:" + ("other-failure" if mine else "restart-ok"))
        elif "hair" in case["setup"] and not r["info"].get("no_crash"):
            oi = r["info"].get("on_interface")
            ctx.dist("hair-restart:" + ("fresh-start" if oi is None else "unreadable" if isinstance(oi, str) else
                                        "loads-path-stored-on-its-interface:" + (",".join(sorted({mv for _, _, mv in oi})) or "none")))
        if mine and nbad < 6:
            nbad += 1
            head, where = mine[0][:300], ""
            if "hair" in case["setup"]:
                st = case["setup"]
                oi = r["info"].get("on_interface")
                head = mine[0].split(" :: ")[0][:230]       # the traceback stays in the replay file
                where = (f" [interfaces {CC.hair_interfaces(st['n_intf'], st['hair'])}, orders = position {st['hair']:+.0e}, moves {','.join(st['moves'])}, "
                         f"seed {st['seed']}, W={st['workers']}, step {case['which'] + 1}{', buffered' if case.get('buffered') else ''}"
                         f"{'; live paths stored exactly ON the interface of their slot (slot, path, move): ' + str(oi) if oi and not isinstance(oi, str) else ''}]")
            ctx.violation(f"C08 statement fails on the implementation: {head}{where}", {"case": case, "problems": r["problems"], "info": r["info"]}, found_input=True)
        if meta is not None and not r["info"].get("no_crash") and "cstep_after_crash" in r["info"] and "rows_after_trim" in r["info"]:
            base, mk, mt, info = meta
            reqs.append(base.rsplit(" ", 0)[0] + f" {mk} {mt}")
            refs.append((case, r, info))
    for (case, r, info), out in zip(refs, runner.run(reqs)):
        rec = out.split(" | ")[1]
        got_rows = sorted(r["info"]["rows_after_trim"][0])
        if rec == "NONE":
            model = None
        else:
            body = rec.split(" ")
            mc = int(body[1].split("/")[0])
            mrows = sorted(int(x.split(".")[0]) for x in body[3].split(";")) if body[3] != "-" else []
            model = (mc, mrows)
        got = (r["info"]["cstep_after_crash"], got_rows)
        if model != got and nbad < 8:
            nbad += 1
            ctx.violation(f"after a crash at {r['info']['crashed_effect']} the restart finds (cstep, rows) = {got}, the model {model}",
                          {"case": case, "implementation": got, "model": out}, found_input=False)
    ctx.cov["rule"] = "one evaluation = one logged effect of a real treat_output matched with the model's effect list, or one crash experiment (kill at one effect index, restart, continue) judged by the oracle and compared with the model's recover(crash k t)"
    ctx.cov["correspondence"] = {"steps_traced": len(eff_meta), "crash_experiments": len(cases), "compared_with_model": len(reqs),
                                 "of_which_orders_a_hair_off_an_interface": n_hair,
                                 "of_which_interfaces_with_more_than_six_decimals": len(fine)}
    ctx.cov["note_six_decimal_order_files"] = (
        f"fixed scenario {fine_setup} (interfaces k + 3e-7, orders = position + 4e-7), crash in step 2 at effects 0, 5, 30, oracle only: "
        f"{fine_seen['known']} restart(s) died in add_traj on a path stored below its interface by rounding (the known finding), "
        f"{fine_seen['ok']} passed, {fine_seen['other']} failed otherwise (reported as violations)")
    ctx.cov["trusted_base"] += ["extraction + ocaml/c08_driver.ml", "py/crash_harness.py fault injector", "py/sysharness.py"]
    ctx.assumptions += ["a crash is process death: POSIX durability (fsync, page cache) is not modelled"]


def replay(doc):
    case = doc["replay"]["case"]
    (tag, res), = H.run_many(CC.crash_case, [case], jobs=1)
    print(tag, res)
    return 1 if (tag != "ok" or res["problems"]) else 0
