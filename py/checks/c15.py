"""C15 — path algebra: paste, reverse, copy and classification are consistent.

Theorems: coq/theorems/C15.v (model coq/model/PathM.v).  Tie: functional lock-step of the
real infretis.classes.path.Path / paste_paths against the extracted model on all order
sequences over a 5-value alphabet (exhaustive small scope) plus seeded random cases, with the
property's own oracle evaluated on the implementation's results.

Frames are compared as WHOLE objects.  Every frame is a real `System` whose every declared
field (discovered from `vars(System())` at run time) holds a non-default value, plus
dynamically attached attributes.  The model's opaque payload `ftag` is the interned content of
ALL of `vars(frame)` other than order[0] and vel_rev, and the oracle compares `vars(frame)`
attribute by attribute: reverse∘reverse, copy, `+=` and paste must keep every attribute, a
single reverse may flip the velocity flag and nothing else, and re-assigning ANY attribute of
a copied frame must leave the original alone.  The classification oracle derives all four
components of `check_interfaces` (start, end, middle, cross) from the extreme values.

Order parameters may return several values per frame: order[0] is the PROGRESS COORDINATE, the
rest are extra collective variables.  Frames are generated with 1, 2 and 3 order values; the
extra columns are built so that their extremes sit in other frames (and outside the range) of
the progress coordinate.  The oracle recomputes every classification from the FIRST column
only; order[1:] is payload that must survive reverse/copy/+=/paste unchanged.

The LIMIT of a path (Path.maxlen: a number, or None = no limit) is part of what is compared:
model/PathLimM.v carries the limit as `option nat` and the lim_* cases check that empty_path gives
the limit it is asked for, reverse and copy the source's, paste the requested one (or the
segments' common / larger one) -- None stays None -- and that a further frame offered to the
returned path is accepted iff there is no limit or length < limit.  A family of LONG unlimited
paths (more than DEFAULT_MAXLEN frames, value read from the implementation) evaluates the C15
statements directly on the implementation (paste length and last frame, full reversal, reverse
twice, copy): these paths are never sent to the model (unary naturals); the theorems about
unlimited paths hold for every length.

Every case is evaluated under a guard: an exception raised by the implementation, or an answer
outside the domain of the property (an index outside the path, a value that is no progress
coordinate, a malformed tuple ...), is a finding reported with the concrete input.
"""
import importlib.util  # noqa: F401
import itertools
import os
import traceback

import numpy as np

import common

META = {
    "id": "C15",
    "level": "proof",
    "technique": "Coq theorems over list model of Path (firstn/rev algebra, extreme values of the progress coordinate, opaque whole-frame payload) + exhaustive small-scope lock-step of extracted model vs Path/paste_paths on whole System objects with 1-3 order values per frame; the limit field maxlen (a number or None = no limit) is modelled as option nat and compared, with a later append as its observable consequence; long unlimited paths (> DEFAULT_MAXLEN frames) by a direct oracle on the implementation only",
    "text": "Unbounded theorems (any segment pair, limit, overlap flag, order sequence, interface list, any content of the frames' other fields) about an executable model of path.py; the model is tied to /repo by running the extracted model and the real Path methods on the same inputs (all sequences over a 5-letter alphabet up to the tier's length, all limits, both flags) and by evaluating the property's statement directly on the implementation's outputs: frames are whole System objects with a non-default value in every field the real class declares (discovered at run time) plus dynamically attached attributes, every attribute in vars(frame) must survive reverse-twice, copy, += and paste (a single reverse flips only vel_rev), re-assigning any attribute of a copied/reversed/added frame must not reach the original, and start, end, middle marker and crossing flags of check_interfaces (and get_start_point/get_end_point, ordermin/ordermax, success) are each recomputed from first/last/min/max of the FIRST order column. Frames carry 1, 2 and 3 order values: order[0] is the progress coordinate (the model's ford), order[1:] are extra collective variables generated so that their extremes lie in other frames than, and outside the range of, the progress coordinate; every exhaustive sequence meets all three numbers of columns in every group of cases (classification, reverse, copy, +=), pastes and random cases draw the number. Every case runs under a guard: an exception raised by the implementation, or an answer outside the property's domain (frame index outside the path, value that is no progress coordinate, malformed tuple, marker other than M/*), is reported as a failing input with the case as replay, never as a crash of the check. THE LIMIT FIELD: Path.maxlen is a number or None, and None means NO LIMIT (Path.append accepts when maxlen is None or length < maxlen). model/PathLimM.v repeats empty_path/append/copy/reverse/paste over paths whose limit is an option, proofs/PathPLim.v proves that on a numeric limit they ARE the operations of model/PathM.v (C15_limit_conservative, so the theorems above carry over), that reverse and copy return the source's limit and paste the requested one - or, when none is requested, the segments' common limit (None stays None) or the larger number (C15_limit_kept, C15_limit_paste, C15_limit_paste_rule) - that a path without limit is pasted, reversed, reversed twice and copied IN FULL whatever its length (C15_unlimited_paste_whole, C15_limit_reverse_frames, C15_limit_reverse_twice_whole, C15_limit_copy_whole: the hypothesis `fits` is True without a limit), and that an unlimited path, its copy, its reversal and the paste of unlimited segments accept every further frame while a numeric limit refuses exactly from that length on (C15_unlimited_accepts, C15_unlimited_paste_accepts, C15_limited_refuses). The lim_* cases tie this to /repo: empty_path(maxlen=None / a number / omitted, time_origin given / omitted), reverse and copy of every small sequence with maxlen=None and with a number, paste of all small pairs with unlimited segments (limit requested or not), equal and different numbers; compared are the frames, time_origin, the limit field itself and the answer of append to one further frame, and the oracle states: the returned path carries the right limit (None stays None) and append accepts iff no limit or length < limit - when an unlimited source comes back with a number, the consequence is demonstrated on the returned path (filled to the claimed limit, the next append is refused although no limit was set). LONG UNLIMITED PATHS (implementation only): paths with maxlen=None holding more than DEFAULT_MAXLEN frames (value read from infretis.classes.path at run time; bare System frames) - paste of two unlimited segments has len(back)+len(forw)-shared point frames, begins with the last backward and ends with the last forward frame and consists of exactly the segments' frame objects; reverse is the full reversal with flipped flags, reverse twice restores, start/end classification swaps; copy holds every frame as a new object; all results stay unlimited. These paths are NOT sent to the extracted model (its naturals are unary): the oracle is direct, and the theorems about unlimited paths are unbounded in the length.",
    "note": "Trusted: Coq kernel; extraction (ExtrOcamlBasic) + OCaml driver; the Python harness and its generators. Frames are abstracted to (order[0], vel_rev, object id, payload): the model's frame carries the PROGRESS COORDINATE order[0] only; extra order columns order[1:] (further collective variables an OrderParameter may return) are PAYLOAD: no classification may depend on them (the oracle recomputes everything from the first column only) and they must survive reverse/copy/+=/paste unchanged (whole-frame oracle on vars(frame)['order'], and they are part of the interned payload the model carries). The payload (ftag : Z) is opaque in the model and stands for every other attribute in vars(frame) — config, order[1:], pos, vel, ekin, vpot, box, temperature, attributes attached after construction; the harness interns the canonical content (numpy arrays by shape/dtype/bytes, floats by hex) to one integer per distinct content, so a lost, added or altered attribute breaks both the oracle (concrete input reported) and the correspondence. The record was not widened by a separate field because model/PathM.v is shared with C09-C12 (their models and drivers build frames positionally); ftag already is that field. Equality of attributes is by value (a deep-copying System.copy would also pass); in-place mutation of a shared array through a copy is outside the property (it speaks of re-assigning a field). numpy argmin/argmax semantics mirrored as first index of the extreme. Floats: only integer-valued orders are used so comparisons are exact. Limit field: model/PathM.v (shared with C09-C12) keeps maxlen : nat untouched; the option-valued limit lives in the added model/PathLimM.v + proofs/PathPLim.v and is connected to it by `lift` (C15_limit_conservative). The long-unlimited-path family is implementation-only (direct oracle, no model comparison: 100000-frame paths in unary naturals are not sent to the runner); it is skipped, and the coverage record says so, if DEFAULT_MAXLEN cannot be read or exceeds 400000. paste_paths with NO requested limit and EXACTLY ONE unlimited segment is outside the property (no limit is defined for the result): the code as it is raises TypeError (max(None, int)), the model answers the same (paste_limit = None, C15_limit_paste_rule says exactly when) and a few such cases are compared, without an oracle.",
    "design_ref": "4/C15",
}
LEVEL = "proof"

ALPHA = [0, 1, 2, 3, 4]   # below / = left / inside / = right / above for interfaces (1,_,3)
MODELLED = ("order", "vel_rev")   # represented explicitly in the model (order[0], vel_rev); the rest is payload
DYNAMIC = ("c15_note", "c15_thermostat")   # attributes attached to a frame after construction
NCOLS = (1, 2, 3)   # order values per frame: the progress coordinate + 0, 1 or 2 extra collective variables


# ----------------------------------------------------------------------------- whole frames

def _canon_slow(v):
    """Canonical, hashable, exact content of an attribute value (general case)."""
    if isinstance(v, np.ndarray):
        if v.dtype == object:
            return ("ndobj", v.shape, canon(v.tolist()))
        return ("nd", v.shape, v.dtype.str, v.tobytes())
    if isinstance(v, (bool, np.bool_)):
        return ("bool", bool(v))
    if isinstance(v, (int, np.integer)):
        return ("int", int(v))
    if isinstance(v, (float, np.floating)):
        return ("float", float(v).hex())
    if isinstance(v, str):
        return ("str", str(v))
    if v is None:
        return ("none",)
    if isinstance(v, dict):
        return ("dict", tuple(sorted([(canon(k), canon(x)) for k, x in v.items()])))
    if isinstance(v, (list, tuple)):
        return ("list" if isinstance(v, list) else "tuple", tuple([canon(x) for x in v]))
    if isinstance(v, (set, frozenset)):
        return ("set", tuple(sorted([canon(x) for x in v])))
    return ("obj", type(v).__name__, repr(v))


_FLAT = (str, int, float, bool, type(None))
_TUPLES = {}     # id -> (tuple object, canon): only tuples of immutable scalars, the object is kept alive


def _canon_tuple(v):
    hit = _TUPLES.get(id(v))
    if hit is not None and hit[0] is v:
        return hit[1]
    c = ("tuple", tuple([canon(x) for x in v]))
    if all(type(x) in _FLAT for x in v) and len(_TUPLES) < 100000:
        _TUPLES[id(v)] = (v, c)
    return c


def _canon_dict(v):
    try:
        return ("dict", tuple([(("str", k), canon(v[k])) for k in sorted(v)])) if all(type(k) is str for k in v) \
            else ("dict", tuple(sorted([(canon(k), canon(x)) for k, x in v.items()])))
    except TypeError:
        return ("dict", tuple(sorted([(canon(k), canon(x)) for k, x in v.items()])))


_FAST = {
    float: lambda v: ("float", v.hex()),
    int: lambda v: ("int", v),
    bool: lambda v: ("bool", v),
    str: lambda v: ("str", v),
    type(None): lambda v: ("none",),
    tuple: _canon_tuple,
    list: lambda v: ("list", tuple([canon(x) for x in v])),
    dict: _canon_dict,
    np.ndarray: lambda v: ("nd", v.shape, v.dtype.str, v.tobytes()) if v.dtype != object else _canon_slow(v),
}


def canon(v):
    """Canonical, hashable, exact content of an attribute value (numpy arrays by
    shape/dtype/bytes, floats by their hex form); exact types take the fast path."""
    f = _FAST.get(type(v))
    return f(v) if f else _canon_slow(v)


def show(c):
    """Readable form of a canonical value (for messages only)."""
    kind = c[0]
    if kind == "nd":
        return np.frombuffer(c[3], dtype=c[2]).reshape(c[1]).tolist()
    if kind == "ndobj":
        return show(c[2])
    if kind in ("bool", "int", "str"):
        return c[1]
    if kind == "float":
        return float.fromhex(c[1])
    if kind == "none":
        return None
    if kind == "dict":
        return {str(show(k)): show(x) for k, x in c[1]}
    if kind in ("list", "tuple", "set"):
        return [show(x) for x in c[1]]
    return c[-1]


def whole(s):
    """Every attribute of a frame object: name -> canonical content."""
    return {k: canon(v) for k, v in vars(s).items()}


def snap(path):
    return [whole(s) for s in path.phasepoints]


def diff_whole(got, want):
    """All attributes in which two whole frames differ (declared fields first), or None."""
    if got == want:
        return None
    out = []
    for k in sorted(set(got) | set(want), key=lambda n: (n.startswith("c15_"), n)):
        if k not in got:
            out.append(f"attribute {k!r} is missing (expected {show(want[k])!r})")
        elif k not in want:
            out.append(f"unexpected attribute {k!r} = {show(got[k])!r}")
        elif got[k] != want[k]:
            out.append(f"attribute {k!r} is {show(got[k])!r}, expected {show(want[k])!r}")
    return "; ".join(out) if out else None


def diff_frames(label, got, want):
    if len(got) != len(want):
        return f"{label}: {len(got)} frames, expected {len(want)}"
    for i, (g, w) in enumerate(zip(got, want)):
        d = diff_whole(g, w)
        if d:
            return f"{label}: frame {i}: {d}"
    return None


def flipped(w, rv):
    if not rv:
        return w
    w = dict(w)
    w["vel_rev"] = ("bool", not w["vel_rev"][1])
    return w


def first_orders(path):
    """order[0] of every frame (None when a frame lost it)."""
    out = []
    for s in path.phasepoints:
        try:
            out.append(int(s.order[0]))
        except Exception:
            out.append(None)
    return out


def extra_columns(orders, ncol):
    """order[1:] of every frame of a path whose progress coordinates are [orders] (integers in
    [-50, 50)), for ncol = 1, 2 or 3 order values per frame.  Exact dyadic values.

    column 1 = 100.5 - progress: above every progress value, its maximum sits in the frame of the
               progress MINIMUM and its minimum in the frame of the progress MAXIMUM;
    column 2 = -100.25 - progress of the NEXT frame (cyclically): below every progress value, its
               extremes sit one frame before the opposite extremes of the progress coordinate.
    So whoever takes an extreme over all columns, over the wrong column or over the flattened
    array ends up in another frame (or outside the path)."""
    n = len(orders)
    rows = []
    for i, o in enumerate(orders):
        row = []
        if ncol >= 2:
            row.append(100.5 - o)
        if ncol >= 3:
            row.append(-100.25 - orders[(i + 1) % n])
        rows.append(row)
    return rows


class OutOfDomain(Exception):
    """The implementation answered with something the property does not speak about."""


class Frames:
    """Generator of fully populated System objects and interning of their payload."""

    def __init__(self):
        from infretis.classes.system import System
        self.System = System
        self.defaults = dict(vars(System()))     # the declared fields, from the real class
        self.declared = list(self.defaults)
        for name in MODELLED:
            if name not in self.defaults:
                raise RuntimeError(f"System no longer declares {name!r}: the C15 model (order[0], vel_rev, payload) is stale")
        self.templ = {}
        self.tags = {}
        self.used_fields = set()

    def fill_value(self, name, k):
        """A non-default value for a declared field, determined by the frame number k."""
        default = self.defaults[name]
        known = {
            "config": lambda: (f"file{k}", k),
            "pos": lambda: np.array([[k + 0.5, -1.0 * k, 0.25], [1.0, 2.0 + k, -0.125]]),
            "vel": lambda: np.array([[-0.5 * k - 1.0, 0.75, 1.0 * k], [0.0, -2.0, 1.5 + k]]),
            "ekin": lambda: 0.25 * k + 0.125,
            "vpot": lambda: -0.5 * k - 1.0,
            "box": lambda: np.array([10.0 + k, 11.0, 12.5]),
            "temperature": lambda: {"set": 0.25 * (k + 1), "beta": 2.0 ** -(k % 7 + 1)},
        }
        if name in known:
            val = known[name]()
        elif isinstance(default, bool):
            val = not default
        elif isinstance(default, int):
            val = default + k + 1
        elif isinstance(default, float):
            val = (0.0 if default != default else default) + k + 0.5
        elif isinstance(default, str):
            val = f"{default}{name}{k}"
        elif isinstance(default, tuple):
            val = default + (name, k)
        elif isinstance(default, list):
            val = list(default) + [name, k]
        elif isinstance(default, dict):
            val = {**default, name: k + 0.5}
        elif isinstance(default, np.ndarray):
            val = np.arange(3.0) + k + 1.0
        else:
            val = (name, k)
        if canon(val) == canon(default):
            val = ("c15-filled", name, k)
        return val

    def template(self, k):
        t = self.templ.get(k)
        if t is None:
            t = {name: self.fill_value(name, k) for name in self.declared if name not in MODELLED}
            t["c15_note"] = ("attached", k)
            t["c15_thermostat"] = {"step": k, "scale": 0.5 * k + 0.25}
            self.templ[k] = t
        return t

    def new_frame(self, o, k, rev, style, extra=()):
        """One frame: progress coordinate o, extra collective variables [extra] (order[1:])."""
        s = self.System()
        if style == "sparse":      # only what the engines usually set; the other fields stay default
            s.order = [float(o)] + [float(x) for x in extra]
            s.config = (f"file{k}", k)
            s.vel_rev = bool(rev)
            s.vpot = 0.5 * k
            return s
        for name, val in self.template(k).items():
            setattr(s, name, val)
        s.order = [float(o)] + [float(x) for x in extra]
        s.vel_rev = bool(rev)
        self.used_fields.update(vars(s))
        return s

    def mk_path(self, orders, maxlen, t0=0, revs=None, tag0=0, style="full", ncol=None):
        from infretis.classes.path import Path
        if ncol is None:           # replay files written before the order columns were generated
            ncol = 1 if style == "sparse" else 2
        extra = extra_columns(orders, ncol)
        p = Path(maxlen=maxlen, time_origin=t0)
        for i, o in enumerate(orders):
            p.phasepoints.append(self.new_frame(o, tag0 + i, revs[i] if revs else False, style, extra[i]))
        return p

    def tag(self, s, w=None):
        """The model's opaque payload: all of vars(frame) except order[0] and vel_rev, interned.
        [w] = whole(s) if the caller has just computed it."""
        w = dict(whole(s) if w is None else w)
        w.pop("vel_rev", None)
        o = w.get("order")
        if o is None:
            w["order"] = ("no-order",)
        elif o[0] in ("list", "tuple"):
            w["order"] = (o[0], o[1][1:])
        else:
            try:
                w["order"] = canon(list(s.order)[1:])
            except Exception:
                w["order"] = ("no-order",)
        key = frozenset(w.items())
        t = self.tags.get(key)
        if t is None:
            t = self.tags[key] = len(self.tags)
        return t


def enc_limit(ml):
    """The limit field of a path for the model: a number, N = None (no limit), ?... = anything else."""
    if ml is None:
        return "N"
    if isinstance(ml, (int, np.integer)) and not isinstance(ml, (bool, np.bool_)) and ml >= 0:
        return str(int(ml))
    return f"?{ml!r}".replace(" ", "")


def same_limit(got, want):
    """The limit field [got] of a returned path is the limit [want] (None stays None, a number stays that number)."""
    if want is None or got is None:
        return want is None and got is None
    return isinstance(got, (int, np.integer)) and not isinstance(got, (bool, np.bool_)) and int(got) == want


def has_room(limit, n):
    """Path.append as the property reads it: a path of n frames accepts a further frame iff it has no limit or n < limit."""
    return limit is None or n < limit


class Ids:
    """Object identities: originals get 0.., new objects are numbered in order of appearance."""

    def __init__(self, F, *paths):
        self.F = F
        self.ids = {}
        for p in paths:
            for s in p.phasepoints:
                self.ids.setdefault(id(s), len(self.ids))
        self.next = len(self.ids)
        self.keep = list(paths)

    def enc_path(self, p, ws=None):
        """Request/answer encoding of a path; [ws] = snap(p) if the caller has just computed it."""
        fr = []
        for n, s in enumerate(p.phasepoints):
            if id(s) not in self.ids:
                self.ids[id(s)] = len(self.ids)
            try:
                o = s.order[0]
                o = str(int(o)) if float(o).is_integer() else "?"
            except Exception:
                o = "?"
            rv = getattr(s, "vel_rev", None)
            rv = str(int(bool(rv))) if isinstance(rv, (bool, int)) or type(rv).__name__ == "bool_" else "?"
            fr.append(f"{o}:{self.F.tag(s, ws[n] if ws else None)}:{rv}:{self.ids[id(s)]}")
        return f"{','.join(fr) if fr else '-'}|{enc_limit(getattr(p, 'maxlen', '<missing>'))}|{p.time_origin}"


def side(x):
    return {"L": "L", "R": "R", None: "?", "?": "?"}.get(x, f"<{x!r}>")


def reassign_all(path):
    """Re-assign EVERY attribute of every frame of the path; returns the attribute names touched."""
    touched = set()
    for n, x in enumerate(path.phasepoints):
        for name in list(vars(x)):
            setattr(x, name, ("c15-reassigned", name, n))
            touched.add(name)
    return touched


# ----------------------------------------------------------------------------- the cases
# Each evaluator takes a JSON-able description, runs the REAL code and returns
# (request line for the model, implementation's answer in the model's format, oracle error or None).
# The request line is built from the inputs alone, BEFORE the implementation is called, and left in
# box["req"]: evaluate() below turns whatever goes wrong afterwards into a finding on that input.
# All classifications are recomputed from the FIRST order column (d["orders"]) only.

def P(F, d, orders, maxlen, **kw):
    return F.mk_path(orders, maxlen, style=d["style"], ncol=d.get("ncol"), **kw)


def case_paste(F, d, box):
    from infretis.classes.path import paste_paths
    b, f, ov, m = d["back"], d["forw"], d["overlap"], d["maxlen"]
    back = P(F, d, b, d["back_maxlen"], t0=d["t0"], tag0=0)
    forw = P(F, d, f, d["forw_maxlen"], t0=d["t0"], tag0=d["tag_forw"])
    sb, sf = snap(back), snap(forw)
    ids = Ids(F, back, forw)
    req = box["req"] = f"paste {ids.enc_path(back, sb)} {ids.enc_path(forw, sf)} {int(ov)} {'N' if m is None else m}"
    res = paste_paths(back, forw, overlap=ov, maxlen=m)
    sr = snap(res)
    out = ids.enc_path(res, sr)
    # property oracle, straight from the statement
    if m is None:
        m = max(d["back_maxlen"], d["forw_maxlen"])
    exp = (list(reversed(b)) + list(f[1:] if ov else f))[:m]
    want = (list(reversed(sb)) + list(sf[1:] if ov else sf))[:m]
    got = first_orders(res)
    err = None
    if got != exp:
        err = f"paste frames {got} != expected {exp}"
    elif len(got) != min(m, len(b) + max(len(f) - (1 if ov else 0), 0)):
        err = "paste length formula violated"
    elif b and m > 0 and res.phasepoints[0] is not back.phasepoints[-1]:
        err = "pasted path does not begin with the last backward frame"
    else:
        err = (diff_frames("paste does not keep the frames", sr, want)
               or diff_frames("paste changed the backward segment", snap(back), sb)
               or diff_frames("paste changed the forward segment", snap(forw), sf))
    return req, out, err


def case_reverse(F, d, box):
    s, revs, ml, rv = d["orders"], d["revs"], d["maxlen"], d["rev_v"]
    p = P(F, d, s, ml, t0=3, revs=revs)
    sp = snap(p)
    ids = Ids(F, p)
    req = box["req"] = f"reverse {ids.next} {ids.enc_path(p, sp)} {int(rv)}"
    r = p.reverse(None, rev_v=rv)
    sr = snap(r)
    out = ids.enc_path(r, sr)
    err = diff_frames("reverse changed the original path", snap(p), sp)
    if not err and len(s) <= ml:
        exp = [(o, (not v) if rv else v) for o, v in zip(reversed(s), reversed(revs))]
        got = [(o, getattr(x, "vel_rev", None)) for o, x in zip(first_orders(r), r.phasepoints)]
        if got != exp:
            err = f"reverse gave {got}, expected {exp}"
        else:
            err = diff_frames("a single reverse must reverse the frame order and change nothing but the velocity flag",
                              sr, [flipped(w, rv) for w in reversed(sp)])
        if not err:
            rr = r.reverse(None, rev_v=rv)
            err = diff_frames("reversing twice does not restore the frames", snap(rr), sp)
        if not err:
            reassign_all(r)
            err = diff_frames("re-assigning a field of a reversed path's frame changed the original", snap(p), sp)
    return req, out, err


def case_copy(F, d, box):
    s, revs, ml = d["orders"], d["revs"], d["maxlen"]
    p = P(F, d, s, ml, t0=3, revs=revs)
    sp = snap(p)
    ids = Ids(F, p)
    req = box["req"] = f"copy {ids.next} {ids.enc_path(p, sp)}"
    c = p.copy()
    sc = snap(c)
    out = ids.enc_path(c, sc)
    err = diff_frames("copy changed the original path", snap(p), sp)
    if not err and len(s) <= ml:
        err = diff_frames("the frames of a copied path differ from the original's", sc, sp)
    if not err:
        touched = reassign_all(c)
        err = diff_frames("re-assigning a field of a copied frame changed the original", snap(p), sp)
        d["_touched"] = sorted(touched)
    return req, out, err


def case_iadd(F, d, box):
    s, o, ml = d["p"], d["other"], d["maxlen"]
    p = P(F, d, s, ml, t0=1)
    q = P(F, d, o, 9, t0=2, tag0=50)
    sp, sq = snap(p), snap(q)
    own = list(p.phasepoints)
    ids = Ids(F, p, q)
    req = box["req"] = f"iadd {ids.next} {ids.enc_path(p, sp)} {ids.enc_path(q, sq)}"
    p += q
    sr = snap(p)
    out = ids.enc_path(p, sr)
    want = sp + sq[:max(ml - len(s), 0)]
    err = (diff_frames("self += other: frames of the sum", sr, want)
           or diff_frames("self += other changed the other path", snap(q), sq))
    if not err and any(a is not b for a, b in zip(p.phasepoints, own)):
        err = "self += other replaced frames of self"
    if not err:
        added = p.phasepoints[len(own):]
        if any(a is b for a in added for b in q.phasepoints):
            err = "self += other shares frame objects with the other path"
        else:
            for n, x in enumerate(added):
                for name in list(vars(x)):
                    setattr(x, name, ("c15-reassigned", name, n))
            err = diff_frames("re-assigning a field of an added frame changed the other path", snap(q), sq)
    return req, out, err


# ----------------------------------------------------------------------------- the limit field
# Path.maxlen is a number or None = NO LIMIT (Path.append: "self.maxlen is None or self.length < self.maxlen").
# The cases below compare the limit field itself (model/PathLimM.v: limit = option nat) and what it means for a
# later append: the path an operation returns must carry the right limit -- reverse/copy the source's, paste the
# requested one (or the segments' common / larger one), empty_path the one it is asked for; None stays None.

def probe_path(F, d, tag0):
    """A one-frame path holding the frame that is offered to the returned path afterwards."""
    return F.mk_path((0,), 1, tag0=tag0, style="sparse", ncol=1)


def refused_although_unlimited(res, frame):
    """Property-level consequence of a wrong limit field, demonstrated on the returned path itself: fill it up
    to the limit it claims (references to one frame: cheap) and offer one more frame."""
    ml = getattr(res, "maxlen", None)
    if not isinstance(ml, int) or isinstance(ml, bool) or not 0 <= ml <= 3_000_000:
        return ""
    try:
        res.phasepoints.extend([frame] * max(ml - res.length, 0))
        n = res.length
        ok = res.append(frame)
    except Exception as e:
        return f"; offering frames up to that limit raised {e!r}"
    if ok:
        return ""
    return (f"; consequence: holding {n} frames the returned path REFUSES a further frame (append() returned {ok!r}) "
            f"although no limit was set")


def limit_oracle(what, res, want, n_expected, probe_ok, frame):
    """The limit field of the returned path and the answer of a later append, against the limit [want]."""
    got = getattr(res, "maxlen", "<missing>")
    if not same_limit(got, want):
        extra = refused_although_unlimited(res, frame) if want is None else ""
        return (f"{what} returned a path with maxlen={got!r}; it must carry maxlen={want!r} "
                f"({'None = no limit' if want is None else 'the limit that applies'}){extra}")
    if bool(probe_ok) != has_room(want, n_expected):
        return (f"{what}: a further frame offered to the returned path ({n_expected} frames, limit {want!r}) was "
                f"{'accepted' if probe_ok else 'refused'}; append must accept iff there is no limit or length < limit")
    return None


def case_lim_empty(F, d, box):
    from infretis.classes.path import DEFAULT_MAXLEN, Path
    src = Path(maxlen=d["src_maxlen"], time_origin=11)
    probe = probe_path(F, d, 900)
    ids = Ids(F, probe)
    pf = ids.enc_path(probe).split("|")[0]
    kw = {}
    if d["limit"] != "default":
        kw["maxlen"] = d["limit"]
    if d["time_origin"] != "default":
        kw["time_origin"] = d["time_origin"]
    want = DEFAULT_MAXLEN if d["limit"] == "default" else d["limit"]
    t0 = 0 if d["time_origin"] == "default" else d["time_origin"]
    req = box["req"] = f"lempty {enc_limit(want)} {t0} {pf}"
    e = src.empty_path(**kw)
    n0 = e.length
    out = ids.enc_path(e)
    ok = e.append(probe.phasepoints[0])
    out += f" {int(bool(ok))}"
    err = None
    if type(e) is not type(src):
        err = f"empty_path({kw}) returned a {type(e).__name__}, not a path of the same class"
    elif n0 != 0 or e.time_origin != t0:
        err = f"empty_path({kw}) returned a path with {n0} frames and time_origin {e.time_origin!r}; expected an empty path with time_origin {t0}"
    else:
        err = limit_oracle(f"empty_path({', '.join(f'{k}={v!r}' for k, v in kw.items())})", e, want, 0, ok, probe.phasepoints[0])
    return req, out, err


def case_lim_reverse(F, d, box):
    s, revs, ml, rv = d["orders"], d["revs"], d["maxlen"], d["rev_v"]
    p = P(F, d, s, ml, t0=3, revs=revs)
    probe = probe_path(F, d, 900)
    sp = snap(p)
    ids = Ids(F, p, probe)
    pf = ids.enc_path(probe).split("|")[0]
    req = box["req"] = f"lreverse {ids.next} {ids.enc_path(p, sp)} {int(rv)} {pf}"
    r = p.reverse(None, rev_v=rv)
    sr = snap(r)
    out = ids.enc_path(r, sr)
    fits = ml is None or len(s) <= ml
    rr = r.reverse(None, rev_v=rv) if fits else None
    nr = r.length
    ok = r.append(probe.phasepoints[0])
    out += f" {int(bool(ok))}"
    what = f"reverse of a path with maxlen={ml!r} ({len(s)} frames)"
    err = diff_frames("reverse changed the original path", snap(p), sp)
    if not err and not same_limit(getattr(p, "maxlen", "<missing>"), ml):
        err = f"reverse changed the limit of the original path to {p.maxlen!r}"
    if not err and fits:
        err = diff_frames(f"{what} must reverse the frame order and change nothing but the velocity flag",
                          sr, [flipped(w, rv) for w in reversed(sp)])
    if not err:
        err = limit_oracle(what, r, ml, min(len(s), ml) if ml is not None else len(s), ok, probe.phasepoints[0])
    if not err and fits:
        err = diff_frames("reversing twice does not restore the frames", snap(rr), sp)
        if not err and not same_limit(getattr(rr, "maxlen", "<missing>"), ml):
            err = f"reversing a path with maxlen={ml!r} twice returned a path with maxlen={rr.maxlen!r}"
    return req, out, err


def case_lim_copy(F, d, box):
    s, revs, ml = d["orders"], d["revs"], d["maxlen"]
    p = P(F, d, s, ml, t0=3, revs=revs)
    probe = probe_path(F, d, 900)
    sp = snap(p)
    ids = Ids(F, p, probe)
    pf = ids.enc_path(probe).split("|")[0]
    req = box["req"] = f"lcopy {ids.next} {ids.enc_path(p, sp)} {pf}"
    c = p.copy()
    sc = snap(c)
    out = ids.enc_path(c, sc)
    ok = c.append(probe.phasepoints[0])
    out += f" {int(bool(ok))}"
    fits = ml is None or len(s) <= ml
    what = f"copy of a path with maxlen={ml!r} ({len(s)} frames)"
    err = diff_frames("copy changed the original path", snap(p), sp)
    if not err and not same_limit(getattr(p, "maxlen", "<missing>"), ml):
        err = f"copy changed the limit of the original path to {p.maxlen!r}"
    if not err and fits:
        err = diff_frames("the frames of a copied path differ from the original's", sc, sp)
    if not err and c.time_origin != p.time_origin:
        err = f"{what}: time_origin {c.time_origin!r}, the original has {p.time_origin!r}"
    if not err:
        err = limit_oracle(what, c, ml, min(len(s), ml) if ml is not None else len(s), ok, probe.phasepoints[0])
    return req, out, err


def paste_limit(req, bml, fml):
    """The limit of a pasted path: the requested one; when none is requested the segments' common limit (None stays
    None) or the larger number.  'undefined' when no limit is requested and exactly one segment is unlimited (the
    code as it is raises TypeError there: max(None, int))."""
    if req is not None:
        return req
    if bml is None and fml is None:
        return None
    if bml is None or fml is None:
        return "undefined"
    return max(bml, fml)


def case_lim_paste(F, d, box):
    from infretis.classes.path import paste_paths
    b, f, ov, m = d["back"], d["forw"], d["overlap"], d["maxlen"]
    bml, fml = d["back_maxlen"], d["forw_maxlen"]
    back = P(F, d, b, bml, t0=d["t0"], tag0=0)
    forw = P(F, d, f, fml, t0=d["t0"], tag0=d["tag_forw"])
    probe = probe_path(F, d, 900)
    sb, sf = snap(back), snap(forw)
    ids = Ids(F, back, forw, probe)
    pf = ids.enc_path(probe).split("|")[0]
    req = box["req"] = f"lpaste {ids.enc_path(back, sb)} {ids.enc_path(forw, sf)} {int(ov)} {enc_limit(m)} {pf}"
    want = paste_limit(m, bml, fml)
    if want == "undefined":
        # outside the property (no limit applies); the model mirrors the code as it is: TypeError
        try:
            res = paste_paths(back, forw, overlap=ov, maxlen=m)
        except TypeError:
            return req, "TYPEERROR", None
        return req, ids.enc_path(res) + " ?", None
    res = paste_paths(back, forw, overlap=ov, maxlen=m)
    sr = snap(res)
    out = ids.enc_path(res, sr)
    nr = res.length
    ok = res.append(probe.phasepoints[0])
    out += f" {int(bool(ok))}"
    full = list(reversed(sb)) + list(sf[1:] if ov else sf)
    wantf = full if want is None else full[:want]
    what = (f"paste_paths(back: {len(b)} frames maxlen={bml!r}, forw: {len(f)} frames maxlen={fml!r}, overlap={ov}, "
            f"maxlen={'not given' if m is None else m})")
    err = None
    if len(sr) != len(wantf):
        err = (f"{what}: {len(sr)} frames, expected {len(wantf)} = len(back)+len(forw)-shared point"
               f"{'' if want is None else f' truncated at {want}'}")
    elif b and (want is None or want > 0) and res.phasepoints[0] is not back.phasepoints[-1]:
        err = f"{what}: the pasted path does not begin with the last backward frame"
    else:
        err = (diff_frames(f"{what} does not keep the frames", sr, wantf)
               or diff_frames("paste changed the backward segment", snap(back), sb)
               or diff_frames("paste changed the forward segment", snap(forw), sf))
    if not err and not (same_limit(back.maxlen, bml) and same_limit(forw.maxlen, fml)):
        err = f"{what} changed the limit of a segment to {back.maxlen!r}/{forw.maxlen!r}"
    if not err:
        err = limit_oracle(what, res, want, len(wantf), ok, probe.phasepoints[0])
    return req, out, err


# ----------------------------------------------------------------------------- long unlimited paths
# Implementation-only family (no model request): paths without limit holding MORE than DEFAULT_MAXLEN frames
# (the value is read from the implementation at run time).  The model's naturals are unary, so paths of this
# length are never sent to the extracted runner; the C15 statements are evaluated directly (theorems
# C15_unlimited_paste_whole, C15_limit_reverse_frames, C15_limit_reverse_twice_whole, C15_limit_copy_whole say
# what must come out for ANY length).  Frames are bare System objects: config, order, vel_rev set, the other
# fields (taken from vars(System()) at run time) at their defaults; compared by (config, order[0], vel_rev, number of attributes) and by identity.

LONG_CAP = 400_000      # the family is skipped (and said so in the coverage record) above this DEFAULT_MAXLEN


def long_path(n, start, rev):
    from infretis.classes.path import Path
    from infretis.classes.system import System
    p = Path(maxlen=None)
    pts = p.phasepoints
    defaults = dict(vars(System()))       # the fields the real class declares; their default values are shared by the frames
    new = System.__new__
    for i in range(start, start + n):
        s = new(System)
        d = dict(defaults)
        d["config"] = ("traj", i)
        d["order"] = [float(i % 1024)]
        d["vel_rev"] = rev
        s.__dict__ = d
        pts.append(s)
    return p


def long_sig(path):
    return [(s.config, s.order[0], s.vel_rev, len(vars(s))) for s in path.phasepoints]


def first_difference(got, want):
    if len(got) != len(want):
        return f"{len(got)} frames, expected {len(want)}"
    for i, (g, w) in enumerate(zip(got, want)):
        if g != w:
            return f"frame {i} is (config, order, vel_rev, #attributes) = {g!r}, expected {w!r}"
    return None


def case_long_paste(F, d, box):
    from infretis.classes.path import paste_paths
    nb, nf, ov = d["nback"], d["nforw"], d["overlap"]
    back, forw = long_path(nb, 0, True), long_path(nf, 10 * (nb + nf), False)
    res = paste_paths(back, forw, overlap=ov)
    want = list(reversed(back.phasepoints)) + forw.phasepoints[1 if ov else 0:]
    what = (f"paste_paths of two UNLIMITED segments (maxlen=None; {nb} backward + {nf} forward frames, overlap={ov}; "
            f"DEFAULT_MAXLEN={d['default_maxlen']})")
    out = f"{res.length} frames, maxlen={res.maxlen!r}"
    err = None
    if res.length != len(want):
        err = (f"{what}: {res.length} frames, expected {len(want)} = len(back)+len(forw){'-1 (shared point)' if ov else ''}: "
               f"nothing may be truncated without a limit")
    elif res.phasepoints[0] is not back.phasepoints[-1]:
        err = f"{what}: the pasted path does not begin with the last backward frame"
    elif res.phasepoints[-1] is not forw.phasepoints[-1]:
        err = f"{what}: the last frame is not the last forward frame"
    else:
        bad = next((i for i, (a, w) in enumerate(zip(res.phasepoints, want)) if a is not w), None)
        if bad is not None:
            err = f"{what}: frame {bad} is not the frame of the segments that belongs there"
    if not err and res.maxlen is not None:
        err = f"{what} returned a path with maxlen={res.maxlen!r}; it must be unlimited (None)"
    if not err and (back.length, forw.length) != (nb, nf):
        err = f"{what} changed the length of a segment"
    return None, out, err


def case_long_reverse(F, d, box):
    n, rv = d["n"], d["rev_v"]
    p = long_path(n, 0, False)
    before = long_sig(p)
    r = p.reverse(None, rev_v=rv)
    what = f"reverse(rev_v={rv}) of an UNLIMITED path (maxlen=None) of {n} frames (DEFAULT_MAXLEN={d['default_maxlen']})"
    out = f"{r.length} frames, maxlen={r.maxlen!r}"
    want = [(c, o, (not v) if rv else v, k) for c, o, v, k in reversed(before)]
    err = first_difference(long_sig(r), want)
    if err:
        err = f"{what} is not the full reversal: {err}"
    elif r.maxlen is not None:
        err = f"{what} returned a path with maxlen={r.maxlen!r}; it must be unlimited (None)"
    else:
        rr = r.reverse(None, rev_v=rv)
        e2 = first_difference(long_sig(rr), before)
        if e2:
            err = f"{what}: reversing twice does not restore the frames: {e2}"
        elif any(a is b for a, b in zip(r.phasepoints, reversed(p.phasepoints))):
            err = f"{what} shares frame objects with the original"
        elif ((side(r.get_start_point(100, 900)), side(r.get_end_point(100, 900)))
              != (side(p.get_end_point(100, 900)), side(p.get_start_point(100, 900)))):
            err = f"{what}: the reversed path does not start where the original ends / end where it starts"
    if not err and long_sig(p) != before:
        err = f"{what} changed the original path"
    return None, out, err


def case_long_copy(F, d, box):
    n = d["n"]
    p = long_path(n, 0, False)
    before = long_sig(p)
    c = p.copy()
    what = f"copy of an UNLIMITED path (maxlen=None) of {n} frames (DEFAULT_MAXLEN={d['default_maxlen']})"
    out = f"{c.length} frames, maxlen={c.maxlen!r}"
    err = first_difference(long_sig(c), before)
    if err:
        err = f"{what} does not hold the frames of the original: {err}"
    elif c.maxlen is not None:
        err = f"{what} has maxlen={c.maxlen!r}; it must be unlimited (None)"
    elif any(a is b for a, b in zip(c.phasepoints, p.phasepoints)):
        err = f"{what} shares frame objects with the original"
    else:
        c.phasepoints[-1].order = ("c15-reassigned",)
        c.phasepoints[0].vel_rev = "c15-reassigned"
        if long_sig(p) != before:
            err = f"{what}: re-assigning a field of a copied frame changed the original"
    return None, out, err


def dec_extreme(name, t, n):
    """(value, index) answered by ordermin/ordermax as exact integers, or OutOfDomain."""
    try:
        v, i = t
        vf, ii = float(v), int(i)
        same = (ii == i)
    except Exception as e:
        raise OutOfDomain(f"{name} = {t!r} is not a (value, frame index) pair ({e!r})")
    if not same or not 0 <= ii < n:
        raise OutOfDomain(f"{name} = {t!r}: the index is not a frame of the path ({n} frames)")
    if not vf.is_integer():
        raise OutOfDomain(f"{name} = {t!r}: the value is not a progress coordinate of this path (they are integer-valued)")
    return int(vf), ii


def case_extremes(F, d, box):
    s = d["orders"]
    p = P(F, d, s, 20)
    enc = Ids(F, p).enc_path(p)
    req = box["req"] = f"ext {enc}"
    mn_raw, mx_raw = p.ordermin, p.ordermax
    mn, mx = dec_extreme("ordermin", mn_raw, len(s)), dec_extreme("ordermax", mx_raw, len(s))
    out = f"{mn[0]}:{mn[1]} {mx[0]}:{mx[1]}"
    err = None
    if mn[0] != min(s) or mx[0] != max(s) or s[mn[1]] != min(s) or s[mx[1]] != max(s):
        err = (f"ordermin/ordermax = {tuple(mn_raw)},{tuple(mx_raw)} on progress coordinates (first order column) {list(s)} with "
               f"{d.get('ncol')} order value(s) per frame: not the extreme values {min(s)}, {max(s)} of the first column / not attained at the reported frames")
    return req, out, err


def expected_classification(s, intf):
    """All four components of check_interfaces, from first/last/min/max of the FIRST order column only."""
    lo, hi = min(intf), max(intf)
    mn, mx = min(s), max(s)
    start = "L" if s[0] <= lo else ("R" if s[0] >= hi else "?")
    end = "L" if s[-1] <= lo else ("R" if s[-1] >= hi else "?")
    middle = mn < intf[1] <= mx
    cross = [mn < l <= mx for l in intf]
    return start, end, middle, cross


def case_ci(F, d, box):
    s, intf = d["orders"], d["interfaces"]
    p = P(F, d, s, 20)
    enc = Ids(F, p).enc_path(p)
    req = box["req"] = f"ci {enc} {','.join(map(str, intf))}"
    res = p.check_interfaces(list(intf))
    try:
        st, en, mid, cross = res
        cross = [bool(c) for c in cross]
    except Exception as e:
        raise OutOfDomain(f"check_interfaces = {res!r} is not (start, end, middle, [crossing flags]) ({e!r})")
    if mid not in ("M", "*") or len(cross) != len(intf):
        raise OutOfDomain(f"check_interfaces = {res!r}: middle marker is neither 'M' nor '*' or the number of crossing flags is not the number of interfaces")
    out = f"{side(st)} {side(en)} {int(mid == 'M')} {','.join(str(int(c)) for c in cross)}"
    e_st, e_en, e_mid, e_cross = expected_classification(s, intf)
    errs = []
    if side(st) != e_st:
        errs.append(f"start {st!r} but the first value {s[0]} makes it {e_st!r}")
    if side(en) != e_en:
        errs.append(f"end {en!r} but the last value {s[-1]} makes it {e_en!r}")
    if (mid == "M") != e_mid:
        errs.append(f"middle marker {mid!r} but min {min(s)} < {intf[1]} <= max {max(s)} is {e_mid}")
    if cross != e_cross:
        errs.append(f"crossing flags {cross} but the extremes [{min(s)}, {max(s)}] give {e_cross}")
    err = None
    if errs:
        err = (f"check_interfaces(progress coordinates={list(s)}, {d.get('ncol')} order value(s) per frame, interfaces={list(intf)}) = "
               f"{(st, en, mid, cross)!r} disagrees with the extreme values of the first order column: " + "; ".join(errs))
    return req, out, err


def case_se(F, d, box):
    s, left, right = d["orders"], d["left"], d["right"]
    p = P(F, d, s, 20)
    enc = Ids(F, p).enc_path(p)
    r_eff = left if right is None else right
    req = box["req"] = f"se {enc} {left} {r_eff}"
    try:
        if right is None:
            st, en = p.get_start_point(left), p.get_end_point(left)
        else:
            st, en = p.get_start_point(left, right), p.get_end_point(left, right)
    except AssertionError:
        return req, "N N", (None if left > r_eff else f"get_start_point/get_end_point({left}, {right}) refused ordered interfaces")
    out = f"{side(st)} {side(en)}"
    err = None
    if left <= r_eff:
        e_st = "L" if s[0] <= left else ("R" if s[0] >= r_eff else "?")
        e_en = "L" if s[-1] <= left else ("R" if s[-1] >= r_eff else "?")
        if (side(st), side(en)) != (e_st, e_en):
            err = (f"get_start_point/get_end_point(left={left}, right={right}) on progress coordinates {list(s)} ({d.get('ncol')} order value(s) per frame) "
                   f"gave {st!r},{en!r}; first/last value {s[0]},{s[-1]} make it {e_st!r},{e_en!r}")
    return req, out, err


def case_success(F, d, box):
    s, target = d["orders"], d["target"]
    p = P(F, d, s, 20)
    enc = Ids(F, p).enc_path(p)
    req = box["req"] = f"succ {enc} {target}"
    r = p.success(target)
    if not isinstance(r, (bool, np.bool_)):
        raise OutOfDomain(f"success({target}) = {r!r} is not a truth value")
    err = None
    if bool(r) != (max(s) > target):
        err = (f"success({target}) = {bool(r)} on progress coordinates {list(s)} ({d.get('ncol')} order value(s) per frame), "
               f"but the largest value of the first order column is {max(s)}")
    return req, str(int(bool(r))), err


CASES = {"paste": case_paste, "reverse": case_reverse, "copy": case_copy, "iadd": case_iadd,
         "extremes": case_extremes, "check_interfaces": case_ci, "start_end": case_se, "success": case_success,
         "lim_empty": case_lim_empty, "lim_reverse": case_lim_reverse, "lim_copy": case_lim_copy, "lim_paste": case_lim_paste,
         "long_paste": case_long_paste, "long_reverse": case_long_reverse, "long_copy": case_long_copy}
IMPL_ONLY = ("long_paste", "long_reverse", "long_copy")     # no model request: evaluated on the implementation only
ONE_COLUMN = IMPL_ONLY + ("lim_empty",)                     # operations whose cases do not vary the number of order values


def brief(d):
    keys = ("orders", "interfaces", "left", "right", "target", "back", "forw", "overlap", "maxlen", "back_maxlen", "forw_maxlen", "limit",
            "time_origin", "nback", "nforw", "n", "p", "other", "rev_v", "ncol", "style")
    return ", ".join(f"{k}={d[k]!r}" for k in keys if k in d)


def evaluate(F, desc):
    """Run one case under a guard.  Always returns (request or None, implementation's answer, error or None):
    an exception of the implementation or an answer outside the property's domain is an oracle failure on
    this concrete input, never a crash of the check."""
    box = {}
    try:
        return CASES[desc["op"]](F, desc, box)
    except OutOfDomain as e:
        return box.get("req"), "OUT-OF-DOMAIN", f"{desc['op']}: answer outside the domain of the property on input ({brief(desc)}): {e}"
    except Exception as e:
        root = os.path.realpath(common.REPO) + os.sep
        tb = traceback.extract_tb(e.__traceback__)
        inside = [f for f in tb if os.path.realpath(f.filename).startswith(root)]
        if inside:
            f = inside[-1]
            where = f"raised by the implementation at {os.path.realpath(f.filename)[len(root):]}:{f.lineno} in {f.name}"
        else:
            f = tb[-1]
            where = f"raised at {os.path.basename(f.filename)}:{f.lineno} in {f.name} while the answer of the implementation was evaluated"
        return (box.get("req"), f"RAISED {type(e).__name__}",
                f"{desc['op']}: {e!r} {where}, on input ({brief(desc)})")


def run(ctx):
    common.proof_stage(ctx, "C15", ["extract/c15.vo"])
    runner = common.runner_stage(ctx, "c15")
    if runner is None:
        return
    try:
        F = Frames()
    except Exception as e:      # the classes themselves are gone or no longer what the model describes
        ctx.violation(f"C15 cannot build frames from infretis.classes.system.System: {e!r}",
                      {"obligation": "System() with the fields the model reduces (order, vel_rev)", "traceback": traceback.format_exc()[-2000:]}, False)
        return

    maxL = 4 if ctx.tier == "quick" else 5
    cases = []          # (request or None, implementation's answer, oracle error or None, description)
    rng = ctx.rng

    def style():
        return "sparse" if rng.random() < 0.15 else "full"

    def ncols():
        return rng.choice(NCOLS)

    def add(desc, dist):
        req, impl_out, err = evaluate(F, desc)
        cases.append((req, impl_out, err, desc))
        ctx.dist(dist)
        ctx.dist("frames:" + desc["style"])
        ctx.dist(f"order values per frame:{desc['ncol']}")

    seqs = [()]
    for L in range(1, maxL + 1):
        seqs += list(itertools.product(ALPHA, repeat=L))

    # ---------------- paste: all (back, forw) over short sequences, all limits, both flags
    pasteL = 3 if ctx.tier == "quick" else 4
    short = [s for s in seqs if len(s) <= pasteL]
    pairs = [(b, f) for b in short for f in short]
    if len(pairs) > (6000 if ctx.tier == "quick" else 40000):
        pairs = rng.sample(pairs, 6000 if ctx.tier == "quick" else 40000)
    for b, f in pairs:
        for m in sorted({0, 1, 2, len(b), max(len(b) + len(f) - 1, 0), len(b) + len(f), 8}):
            for ov in (True, False):
                add({"op": "paste", "back": b, "forw": f, "overlap": ov, "maxlen": m, "back_maxlen": 10, "forw_maxlen": 10,
                     "t0": 7, "tag_forw": 100, "style": style(), "ncol": ncols()}, "paste")

    # ---------------- the limit field: empty_path for every kind of limit; paste of all pairs up to length 2 with
    # unlimited segments (no limit requested / a requested number), equal and different numbers, and the mixed
    # case (exactly one segment unlimited, nothing requested: TypeError in the code as it is, mirrored by the model)
    for lim in (None, 0, 1, 2, 7, "default"):
        for t0 in (0, -3, 4, "default"):
            for src in (None, 5):
                add({"op": "lim_empty", "limit": lim, "time_origin": t0, "src_maxlen": src, "style": "sparse", "ncol": 1}, "lim_empty")
    tiny = [s for s in seqs if len(s) <= 2]
    for b in tiny:
        for f in tiny:
            n = len(b) + len(f)
            combos = [(None, None, None), (None, None, max(n - 1, 0)), (None, None, 1), (None, 3, n + 1), (n, n, None),
                      (max(n - 2, 0), max(n - 1, 0), None), (None, 4, None), (2, None, None)]
            for bml, fml, m in combos:
                for ov in (True, False):
                    add({"op": "lim_paste", "back": b, "forw": f, "overlap": ov, "maxlen": m, "back_maxlen": bml, "forw_maxlen": fml,
                         "t0": 7, "tag_forw": 100, "style": style(), "ncol": ncols()}, "lim_paste")

    # ---------------- reverse / copy / iadd / extremes / classification on every sequence
    intf_sets_zero = [(-2, -1, 0), (-2, 0), (-2, -2, 0), (0, 0, 0), (-1, 0, 1), (0, 1), (-3, 0)]
    intf_sets = [(1, 2, 3), (1, 1, 3), (1, 3, 3), (2, 2, 2), (3, 2, 1), (0, 2, 4), (1, 2), (2, 1, 3, 0), (0, 4, 4), (1, 0, 3)]
    lr_sets = [(1, 3), (2, 2), (0, 4), (2, None), (3, 1), (4, None)]
    lr_sets_zero = [(-2, 0), (-3, 0), (0, None), (-1, 0), (0, 0), (-1, None)]
    targets = [-1, 0, 1, 2, 3, 4, 5]
    targets_zero = [-3, 0, 1]
    turn = 0            # 1, 2, 3, 1, ... order values per frame: every sequence meets every number in every group of cases

    def nc():
        nonlocal turn
        turn += 1
        return NCOLS[turn % len(NCOLS)]

    for s in seqs:
        revs = [rng.random() < 0.5 for _ in s]
        for ml in sorted({max(len(s), 1), len(s) + 3, max(len(s) - 1, 0)}):     # three limits, three numbers of columns
            k = nc()
            for rv in (True, False):
                add({"op": "reverse", "orders": s, "revs": revs, "maxlen": ml, "rev_v": rv, "style": style(), "ncol": k}, "reverse")
            add({"op": "copy", "orders": s, "revs": revs, "maxlen": ml, "style": style(), "ncol": k}, "copy")
        # the limit field: no limit (None) for every sequence, a number (room to spare / one frame short) in turn
        k = nc()
        for ml in (None, len(s) + 2 if turn % 2 else max(len(s) - 1, 0)):
            for rv in (True, False):
                add({"op": "lim_reverse", "orders": s, "revs": revs, "maxlen": ml, "rev_v": rv, "style": style(), "ncol": k}, "lim_reverse")
            add({"op": "lim_copy", "orders": s, "revs": revs, "maxlen": ml, "style": style(), "ncol": k}, "lim_copy")
        turn += 1       # the next sequence starts one further
        if len(s) <= 3:
            for o in short[:: max(1, len(short) // 12)]:
                for ml in (len(s), len(s) + 1, len(s) + len(o), 9):
                    add({"op": "iadd", "p": s, "other": o, "maxlen": ml, "style": style(), "ncol": nc()}, "iadd")
        if s:
            for k in NCOLS:
                add({"op": "extremes", "orders": s, "style": "full", "ncol": k}, "extremes")
            for intf in intf_sets:
                add({"op": "check_interfaces", "orders": s, "interfaces": intf, "style": "full", "ncol": nc()}, "check_interfaces")
            for left, right in lr_sets:
                add({"op": "start_end", "orders": s, "left": left, "right": right, "style": "sparse", "ncol": nc()}, "start_end")
            for t in targets:
                add({"op": "success", "orders": s, "target": t, "style": "full", "ncol": nc()}, "success")
            # the same classification with negative values and an interface that is exactly 0 (a falsy number)
            s0 = tuple(o - 3 for o in s)
            for intf in intf_sets_zero:
                add({"op": "check_interfaces", "orders": s0, "interfaces": intf, "style": "sparse", "ncol": nc()}, "check_interfaces_zero")
            for left, right in lr_sets_zero:
                add({"op": "start_end", "orders": s0, "left": left, "right": right, "style": "full", "ncol": nc()}, "start_end_zero")
            for t in targets_zero:
                add({"op": "success", "orders": s0, "target": t, "style": "sparse", "ncol": nc()}, "success_zero")

    # ---------------- seeded random larger cases (paste incl. maxlen=None / reverse / copy / classification)
    nrand = 300 if ctx.tier == "quick" else 3000
    for _ in range(nrand):
        b = tuple(rng.randrange(-50, 50) for _ in range(rng.randrange(0, 30)))
        f = tuple(rng.randrange(-50, 50) for _ in range(rng.randrange(0, 30)))
        ov = rng.random() < 0.5
        if rng.random() < 0.2:
            m, bml, fml = None, rng.randrange(1, 60), rng.randrange(1, 60)
            if rng.random() < 0.3:
                fml = bml
        else:
            m, bml, fml = rng.randrange(0, 70), 40, 40
        add({"op": "paste", "back": b, "forw": f, "overlap": ov, "maxlen": m, "back_maxlen": bml, "forw_maxlen": fml,
             "t0": rng.randrange(-5, 5), "tag_forw": 1000, "style": style(), "ncol": ncols()}, "paste_random")
    for _ in range(nrand // 3):
        s = tuple(rng.randrange(-50, 50) for _ in range(rng.randrange(1, 30)))
        revs = [rng.random() < 0.5 for _ in s]
        add({"op": "reverse", "orders": s, "revs": revs, "maxlen": len(s) + rng.randrange(0, 5), "rev_v": rng.random() < 0.7,
             "style": "full", "ncol": ncols()}, "reverse_random")
        add({"op": "copy", "orders": s, "revs": revs, "maxlen": len(s) + rng.randrange(0, 5), "style": "full", "ncol": ncols()}, "copy_random")
        if len(s) <= 20:     # paths of the classification cases have maxlen 20
            intf = tuple(sorted(rng.randrange(-50, 50) for _ in range(3)))
            k = ncols()
            add({"op": "extremes", "orders": s, "style": style(), "ncol": k}, "extremes_random")
            add({"op": "check_interfaces", "orders": s, "interfaces": intf, "style": style(), "ncol": k}, "check_interfaces_random")
            add({"op": "success", "orders": s, "target": intf[1], "style": style(), "ncol": k}, "success_random")

    for _ in range(nrand // 2):
        b = tuple(rng.randrange(-50, 50) for _ in range(rng.randrange(0, 30)))
        f = tuple(rng.randrange(-50, 50) for _ in range(rng.randrange(0, 30)))
        u = rng.random()
        if u < 0.4:
            bml, fml, m = None, None, None
        elif u < 0.6:
            bml, fml, m = None, None, rng.randrange(0, 70)
        elif u < 0.8:
            bml, fml, m = rng.choice([None, 40]), rng.choice([None, 45]), rng.randrange(0, 70)
        else:
            bml = rng.randrange(1, 60)
            fml, m = rng.choice([bml, rng.randrange(1, 60)]), None
        add({"op": "lim_paste", "back": b, "forw": f, "overlap": rng.random() < 0.5, "maxlen": m, "back_maxlen": bml, "forw_maxlen": fml,
             "t0": rng.randrange(-5, 5), "tag_forw": 1000, "style": style(), "ncol": ncols()}, "lim_paste_random")
        s = tuple(rng.randrange(-50, 50) for _ in range(rng.randrange(1, 30)))
        revs = [rng.random() < 0.5 for _ in s]
        ml = rng.choice([None, None, len(s) + rng.randrange(0, 5), max(len(s) - rng.randrange(1, 4), 0)])
        add({"op": "lim_reverse", "orders": s, "revs": revs, "maxlen": ml, "rev_v": rng.random() < 0.7, "style": "full", "ncol": ncols()}, "lim_reverse_random")
        add({"op": "lim_copy", "orders": s, "revs": revs, "maxlen": ml, "style": "full", "ncol": ncols()}, "lim_copy_random")

    # ---------------- long unlimited paths (> DEFAULT_MAXLEN frames), implementation only
    long_note = None
    try:
        from infretis.classes.path import DEFAULT_MAXLEN as dm
    except Exception as e:
        dm, long_note = None, f"not evaluated: infretis.classes.path.DEFAULT_MAXLEN cannot be read ({e!r})"
    if dm is not None and (not isinstance(dm, int) or isinstance(dm, bool) or dm < 0):
        long_note = f"not evaluated: DEFAULT_MAXLEN = {dm!r} is not a number of frames"
    elif dm is not None and dm > LONG_CAP:
        long_note = f"not evaluated: DEFAULT_MAXLEN = {dm} is above the cap {LONG_CAP} of this family"
    if long_note is None:
        rounds = 1 if ctx.tier == "quick" else 3
        for rnd in range(rounds):
            nb = dm * 3 // 5 + rng.randrange(0, 50)
            nf = dm - nb + rng.randrange(2, 40)          # len(back) + len(forw) - 1 > DEFAULT_MAXLEN
            for ov in (True, False):
                add({"op": "long_paste", "nback": nb, "nforw": nf, "overlap": ov, "default_maxlen": dm, "style": "bare", "ncol": 1}, "long_paste")
            n = dm + rng.randrange(3, 40)
            for rv in ((True,) if ctx.tier == "quick" else (True, False) if rnd == 0 else (rng.random() < 0.5,)):
                add({"op": "long_reverse", "n": n, "rev_v": rv, "default_maxlen": dm, "style": "bare", "ncol": 1}, "long_reverse")
            add({"op": "long_copy", "n": n, "default_maxlen": dm, "style": "bare", "ncol": 1}, "long_copy")
        long_note = f"{sum(1 for c in cases if c[3]['op'] in IMPL_ONLY)} cases with more than DEFAULT_MAXLEN = {dm} frames"
    ctx.cov["long_unlimited_paths"] = long_note

    reqs = [c[0] for c in cases if c[0] is not None]
    try:
        outs = runner.run(reqs)
    except Exception as e:      # the oracle's findings below do not depend on the model
        ctx.violation(f"model runner failed on the generated requests: {e!r}",
                      {"obligation": "bin/c15 answers every request", "log_tail": str(getattr(e, "log", ""))[-1500:]}, False)
        outs = None
    it = iter(outs) if outs is not None else None
    corr_fail = 0
    stmt_fail = 0
    first_mark = len(ctx.violations)
    seen_ops = set()
    answers = []
    for req, io, err, desc in cases:
        impl_only = desc["op"] in IMPL_ONLY
        if req is not None:
            mo = next(it) if it is not None else "<model runner failed>"
        else:
            mo = ("<implementation-only case: paths of this length are not sent to the model (unary naturals)>" if impl_only
                  else "<no request: the input could not be built>")
        answers.append(mo)
        ctx.count(req if req is not None else repr(desc), nontrivial=True)
        if err:
            stmt_fail += 1
            kind = "raised" if io.startswith("RAISED") else ("out-of-domain answer" if io == "OUT-OF-DOMAIN" else "wrong answer")
            if stmt_fail > 200 and (desc["op"], kind) in seen_ops:
                continue      # only the first 20 are written anyway; keep one of every operation and kind of failure
            seen_ops.add((desc["op"], kind))
            ctx.violation(f"C15 statement fails on the implementation: {err}",
                          {"case": desc, "impl": io, "model": mo, "request": req, "kind": kind,
                           "frames": "long_* cases: bare System objects built by checks/c15.py long_path(n, start, rev) (config=('traj', i), order=[i % 1024], vel_rev), paths with maxlen=None, implementation only; all other cases: "
                                     "System objects built by checks/c15.py Frames.mk_path(orders, ..., style, ncol): order = [progress coordinate] + "
                                     "extra_columns(orders, ncol) (ncol = order values per frame; only the FIRST is the progress coordinate the oracle uses); "
                                     "style 'full' = every field of vars(System()) non-default + attached c15_note/c15_thermostat, 'sparse' = "
                                     "order/config/vel_rev/vpot only; k = position (+ tag offset of the segment); --replay rebuilds them and re-runs the real code"}, True)
        elif impl_only:
            pass          # nothing to compare: the oracle above is the whole evaluation
        elif it is not None and mo != io:
            corr_fail += 1
            if corr_fail <= 3:
                ctx.violation(f"correspondence model/implementation broken for {desc['op']} (property oracle found no failing input among {len(cases)} cases)",
                              {"correspondence": "c15 runner vs infretis.classes.path", "case": desc, "impl": io, "model": mo, "request": req}, False)
    # report one failing input of every operation and kind of failure (wrong answer / exception / answer outside the
    # domain) before the further ones of the same operation and kind
    mine = ctx.violations[first_mark:]
    firsts, rest, ops = [], [], set()
    for v in mine:
        op = (v[1].get("case", {}).get("op"), v[1].get("kind")) if v[2] else None
        if v[2] and op not in ops:
            ops.add(op)
            firsts.append(v)
        else:
            rest.append(v)
    ctx.violations[first_mark:] = firsts + [v for v in rest if v[2]] + [v for v in rest if not v[2]]
    # every declared field of the real System class (and the attached ones) must have been exercised
    touched = set()
    multi = {}       # operation -> numbers of order values per frame it was evaluated with
    for _, _, _, desc in cases:
        touched.update(desc.pop("_touched", ()))
        multi.setdefault(desc["op"], set()).add(desc["ncol"])
    if not stmt_fail:
        missing = [n for n in F.declared + list(DYNAMIC) if n not in F.used_fields]
        if missing:
            ctx.violation(f"generator did not populate System fields {missing}",
                          {"obligation": "whole-frame generator covers vars(System())", "declared": F.declared}, False)
        not_touched = [n for n in F.declared + list(DYNAMIC) if n not in touched]
        if not_touched:
            ctx.violation(f"copy-independence clause was not evaluated for fields {not_touched}",
                          {"obligation": "re-assignment of every field of a copied frame", "declared": F.declared}, False)
        thin = sorted(op for op in CASES if op not in ONE_COLUMN and multi.get(op) != set(NCOLS))
        if thin:
            ctx.violation(f"operations {thin} were not evaluated with {list(NCOLS)} order values per frame",
                          {"obligation": "every operation meets frames with extra order columns", "seen": {k: sorted(v) for k, v in multi.items()}}, False)
    for k in (0, len(cases) // 3, len(cases) // 2, len(cases) - 1):
        ctx.sample({"request": cases[k][0], "model": answers[k], "impl": cases[k][1]})
    ctx.cov["rule"] = (f"exhaustive: all order sequences over alphabet {ALPHA} up to length {maxL} (reverse/copy/extremes/classification with "
                       f"{len(intf_sets) + len(intf_sets_zero)} interface lists, {len(lr_sets) + len(lr_sets_zero)} (left,right) pairs, {len(targets) + len(targets_zero)} success targets), "
                       f"all (back,forw) pairs up to length {pasteL} x up to 7 limits x 2 overlap flags for paste; "
                       f"{nrand} seeded random pastes (1 in 5 with maxlen=None), {nrand // 3} random reverses, copies and classifications; frames are whole System objects "
                       f"(fields {F.declared} from the real class + attached {list(DYNAMIC)}, all non-default; 15% of the cases use sparse frames with default fields) "
                       f"carrying {list(NCOLS)} order values (every sequence meets all three in every group: extremes x3, the others in turn; order[0] = progress coordinate, "
                       f"order[1:] = extra columns whose extremes lie in other frames and outside the progress range); the oracle uses the first column only; "
                       f"the LIMIT FIELD (maxlen, None = no limit) is compared for empty_path (6 kinds of limit x 4 time origins x 2 sources), reverse and copy of every "
                       f"sequence with maxlen=None and with a number, paste of all (back,forw) pairs up to length 2 x 8 limit combinations (unlimited segments with and without a "
                       f"requested limit, equal / different numbers, exactly one unlimited segment = TypeError in code and model) x 2 flags, {nrand // 2} random pastes/reverses/copies with "
                       f"None limits; each of these offers one further frame to the returned path (append accepted iff no limit or length < limit); "
                       f"long unlimited paths, implementation only: {long_note}; "
                       f"a case is distinct by its request line (implementation-only cases by their description); all are non-trivial (each exercises a modelled operation)")
    ctx.cov["correspondence"] = {"compared": len(reqs), "disagreements": corr_fail, "oracle_failures": stmt_fail,
                                 "distinct_payloads": len(F.tags), "system_fields": F.declared, "attached_fields": list(DYNAMIC),
                                 "order_values_per_frame": {op: sorted(v) for op, v in sorted(multi.items())}}
    ctx.cov["trusted_base"] += ["extraction: ExtrOcamlBasic only; ocaml/util.ml + ocaml/c15_driver.ml", "py/checks/c15.py generators, canonical form of attribute values and encoders"]
    ctx.assumptions += ["paths longer than DEFAULT_MAXLEN are evaluated on the implementation only (direct oracle; the model's naturals are unary), the theorems about unlimited paths hold for any length",
                        "paste_paths with no requested limit and exactly one unlimited segment is outside the property (no limit is defined; the code raises TypeError, the model mirrors it)",
                        "progress coordinates (order[0]) are integer-valued floats, extra order columns exact dyadic floats (exact comparisons)",
                        "System reduced to (order[0] = progress coordinate, vel_rev, object identity, payload = interned content of every other attribute in vars(frame), order[1:] included)",
                        "an order list has 1 to 3 entries; only order[0] is interpreted by the property, the extra collective variables are payload",
                        "attribute equality is by value (numpy arrays by shape/dtype/bytes)"]


def replay(doc):
    import json
    print(json.dumps(doc, indent=1))
    rep = doc["replay"]
    req = rep.get("request")
    case = rep.get("case")
    if isinstance(case, dict) and case.get("op") in CASES:
        case = {k: (tuple(v) if isinstance(v, list) and k in ("orders", "back", "forw", "p", "other", "interfaces") else v) for k, v in case.items()}
        req, out, err = evaluate(Frames(), case)
        print("request now:", req)
        print("implementation now answers:", out)
        print("property oracle now says:", err or "holds on this input")
    if req:
        r = common.Runner("c15")
        print("model now answers:", r.run([req]))
    return 0
