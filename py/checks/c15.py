"""C15 — path algebra: paste, reverse, copy and classification are consistent.

Theorems: coq/theorems/C15.v (model coq/model/PathM.v).  Tie: functional lock-step of the
real infretis.classes.path.Path / paste_paths against the extracted model on all order
sequences over a 5-value alphabet (exhaustive small scope) plus seeded random cases, with the
property's own oracle evaluated on the implementation's results.
"""
import importlib.util  # noqa: F401
import itertools

import common

META = {
    "id": "C15",
    "level": "proof",
    "technique": "Coq theorems over list model of Path (firstn/rev algebra, extreme values) + exhaustive small-scope lock-step of extracted model vs Path/paste_paths",
    "text": "Unbounded theorems (any segment pair, limit, overlap flag, order sequence, interface list) about an executable model of path.py; the model is tied to /repo by running the extracted model and the real Path methods on the same inputs (all sequences over a 5-letter alphabet up to the tier's length, all limits, both flags) and by evaluating the property's statement directly on the implementation's outputs.",
    "note": "Trusted: Coq kernel; extraction (ExtrOcamlBasic) + OCaml driver; the Python harness and its generators. Frames are abstracted to (order, identity tag, vel_rev, object id); numpy argmin/argmax semantics mirrored as first index of the extreme. Floats: only integer-valued orders are used so comparisons are exact.",
    "design_ref": "4/C15",
}
LEVEL = "proof"

ALPHA = [0, 1, 2, 3, 4]   # below / = left / inside / = right / above for interfaces (1,_,3)


def mk_path(orders, maxlen, t0=0, revs=None, tag0=0):
    from infretis.classes.path import Path
    from infretis.classes.system import System
    p = Path(maxlen=maxlen, time_origin=t0)
    for i, o in enumerate(orders):
        s = System()
        s.order = [float(o)]
        s.config = (f"file{tag0 + i}", tag0 + i)
        s.vel_rev = bool(revs[i]) if revs else False
        s.vpot = 0.5 * (tag0 + i)
        p.phasepoints.append(s)
    return p


class Ids:
    """Object identities: originals get 0.., new objects are numbered in order of appearance."""

    def __init__(self, *paths):
        self.ids = {}
        for p in paths:
            for s in p.phasepoints:
                self.ids.setdefault(id(s), len(self.ids))
        self.next = len(self.ids)
        self.keep = list(paths)

    def enc_path(self, p):
        fr = []
        for s in p.phasepoints:
            if id(s) not in self.ids:
                self.ids[id(s)] = len(self.ids)
            o = s.order[0]
            assert float(o).is_integer()
            fr.append(f"{int(o)}:{s.config[1]}:{int(bool(s.vel_rev))}:{self.ids[id(s)]}")
        ml = p.maxlen
        return f"{','.join(fr) if fr else '-'}|{ml}|{p.time_origin}"


def side(x):
    return {"L": "L", "R": "R", None: "?", "?": "?"}[x]


def run(ctx):
    ok_proof = common.proof_stage(ctx, "C15", ["extract/c15.vo"])
    runner = common.runner_stage(ctx, "c15")
    if runner is None:
        return
    from infretis.classes.path import paste_paths

    maxL = 4 if ctx.tier == "quick" else 5
    reqs, metas = [], []

    def add(req, impl_out, oracle_err, desc):
        reqs.append(req)
        metas.append((impl_out, oracle_err, desc))

    seqs = [()]
    for L in range(1, maxL + 1):
        seqs += list(itertools.product(ALPHA, repeat=L))
    rng = ctx.rng

    # ---------------- paste: all (back, forw) over short sequences, all limits, both flags
    pasteL = 3 if ctx.tier == "quick" else 4
    short = [s for s in seqs if len(s) <= pasteL]
    pairs = [(b, f) for b in short for f in short]
    if len(pairs) > (6000 if ctx.tier == "quick" else 40000):
        pairs = rng.sample(pairs, 6000 if ctx.tier == "quick" else 40000)
    for b, f in pairs:
        for m in (0, 1, 2, len(b), len(b) + len(f) - 1, len(b) + len(f), 8):
            if m < 0:
                continue
            for ov in (True, False):
                back = mk_path(b, 10, t0=7, tag0=0)
                forw = mk_path(f, 10, t0=7, tag0=100)
                ids = Ids(back, forw)
                req = f"paste {ids.enc_path(back)} {ids.enc_path(forw)} {int(ov)} {m}"
                res = paste_paths(back, forw, overlap=ov, maxlen=m)
                out = ids.enc_path(res)
                # property oracle, straight from the statement
                exp = list(reversed(b)) + list(f[1:] if ov else f)
                exp = exp[:m]
                got = [int(s.order[0]) for s in res.phasepoints]
                err = None
                if got != exp:
                    err = f"paste frames {got} != expected {exp}"
                elif len(got) != min(m, len(b) + max(len(f) - (1 if ov else 0), 0)):
                    err = "paste length formula violated"
                elif b and m > 0 and res.phasepoints[0] is not back.phasepoints[-1]:
                    err = "pasted path does not begin with the last backward frame"
                add(req, out, err, {"op": "paste", "back": b, "forw": f, "overlap": ov, "maxlen": m})
                ctx.dist("paste")

    # ---------------- reverse / copy / iadd / extremes / classification on every sequence
    intf_sets_zero = [(-2, -1, 0), (-2, 0), (-2, -2, 0), (0, 0, 0), (-1, 0, 1), (0, 1), (-3, 0)]
    intf_sets = [(1, 2, 3), (1, 1, 3), (1, 3, 3), (2, 2, 2), (3, 2, 1), (0, 2, 4), (1, 2), (2, 1, 3, 0)]
    for s in seqs:
        revs = [rng.random() < 0.5 for _ in s]
        for ml in sorted({max(len(s), 1), len(s) + 3, max(len(s) - 1, 0)}):
            for rv in (True, False):
                p = mk_path(s, ml, t0=3, revs=revs)
                ids = Ids(p)
                req = f"reverse {ids.next} {ids.enc_path(p)} {int(rv)}"
                r = p.reverse(None, rev_v=rv)
                out = ids.enc_path(r)
                err = None
                if len(s) <= ml:
                    exp = [(o, (not v) if rv else v) for o, v in zip(reversed(s), reversed(revs))]
                    got = [(int(x.order[0]), bool(x.vel_rev)) for x in r.phasepoints]
                    if got != exp:
                        err = f"reverse gave {got}, expected {exp}"
                    else:
                        rr = r.reverse(None, rev_v=rv)
                        got2 = [(int(x.order[0]), bool(x.vel_rev), x.config) for x in rr.phasepoints]
                        orig = [(int(x.order[0]), bool(x.vel_rev), x.config) for x in p.phasepoints]
                        if got2 != orig:
                            err = "reversing twice does not restore the frames"
                add(req, out, err, {"op": "reverse", "orders": s, "revs": revs, "maxlen": ml, "rev_v": rv})
                ctx.dist("reverse")
            # copy + aliasing
            p = mk_path(s, ml, t0=3, revs=revs)
            ids = Ids(p)
            req = f"copy {ids.next} {ids.enc_path(p)}"
            c = p.copy()
            out = ids.enc_path(c)
            err = None
            before = [(x.order, x.config, x.vel_rev, x.vpot, x.ekin) for x in p.phasepoints]
            before_v = [(list(x.order), tuple(x.config), x.vel_rev, x.vpot, x.ekin) for x in p.phasepoints]
            for x in c.phasepoints:
                x.order = [99.0]
                x.config = ("zzz", 77)
                x.vel_rev = not x.vel_rev
                x.vpot = -1.0
                x.ekin = -2.0
                x.pos = None
            after_v = [(list(x.order), tuple(x.config), x.vel_rev, x.vpot, x.ekin) for x in p.phasepoints]
            if after_v != before_v:
                err = "re-assigning a field of a copied frame changed the original"
            elif len(s) <= ml and len(c.phasepoints) != len(s):
                err = "copy changed the length"
            add(req, out, err, {"op": "copy", "orders": s, "maxlen": ml})
            ctx.dist("copy")
        # iadd
        if len(s) <= 3:
            for o in short[:: max(1, len(short) // 12)]:
                for ml in (len(s), len(s) + 1, len(s) + len(o), 9):
                    p = mk_path(s, ml, t0=1)
                    q = mk_path(o, 9, t0=2, tag0=50)
                    ids = Ids(p, q)
                    req = f"iadd {ids.next} {ids.enc_path(p)} {ids.enc_path(q)}"
                    p += q
                    out = ids.enc_path(p)
                    add(req, out, None, {"op": "iadd", "p": s, "other": o, "maxlen": ml})
                    ctx.dist("iadd")
        # extremes and classification
        if s:
            p = mk_path(s, 20)
            ids = Ids(p)
            enc = ids.enc_path(p)
            mn, mx = p.ordermin, p.ordermax
            out = f"{int(mn[0])}:{int(mn[1])} {int(mx[0])}:{int(mx[1])}"
            err = None
            if mn[0] != min(s) or mx[0] != max(s) or s[int(mn[1])] != min(s) or s[int(mx[1])] != max(s):
                err = "ordermin/ordermax not attained/extreme"
            add(f"ext {enc}", out, err, {"op": "extremes", "orders": s})
            for intf in intf_sets:
                st, en, mid, cross = p.check_interfaces(list(intf))
                out = f"{side(st)} {side(en)} {int(mid == 'M')} {','.join(str(int(c)) for c in cross)}"
                lo, hi = min(intf), max(intf)
                err = None
                expc = [min(s) < l <= max(s) for l in intf]
                if list(cross) != expc:
                    err = f"crossing flags {cross} disagree with extremes {expc}"
                exp_st = "L" if s[0] <= lo else ("R" if s[0] >= hi else "?")
                exp_en = "L" if s[-1] <= lo else ("R" if s[-1] >= hi else "?")
                if side(st) != exp_st or side(en) != exp_en:
                    err = f"start/end letters {st},{en} disagree with first/last value"
                add(f"ci {enc} {','.join(map(str, intf))}", out, err, {"op": "check_interfaces", "orders": s, "interfaces": intf})
                ctx.dist("check_interfaces")
            # the same classification with negative values and an interface that is exactly 0 (a falsy number)
            s0 = tuple(o - 3 for o in s)
            p0 = mk_path(s0, 20)
            enc0 = Ids(p0).enc_path(p0)
            for intf in intf_sets_zero:
                st, en, mid, cross = p0.check_interfaces(list(intf))
                out = f"{side(st)} {side(en)} {int(mid == 'M')} {','.join(str(int(c)) for c in cross)}"
                lo, hi = min(intf), max(intf)
                err = None
                expc = [min(s0) < l <= max(s0) for l in intf]
                if list(cross) != expc:
                    err = f"crossing flags {cross} disagree with extremes {expc}"
                exp_st = "L" if s0[0] <= lo else ("R" if s0[0] >= hi else "?")
                exp_en = "L" if s0[-1] <= lo else ("R" if s0[-1] >= hi else "?")
                if side(st) != exp_st or side(en) != exp_en:
                    err = f"start/end letters {st},{en} disagree with first/last value {s0[0]},{s0[-1]} for interfaces {intf}"
                add(f"ci {enc0} {','.join(map(str, intf))}", out, err, {"op": "check_interfaces", "orders": s0, "interfaces": intf})
                ctx.dist("check_interfaces_zero")

    # ---------------- seeded random larger cases (paste / reverse)
    nrand = 300 if ctx.tier == "quick" else 3000
    for _ in range(nrand):
        b = tuple(rng.randrange(-50, 50) for _ in range(rng.randrange(0, 30)))
        f = tuple(rng.randrange(-50, 50) for _ in range(rng.randrange(0, 30)))
        m = rng.randrange(0, 70)
        ov = rng.random() < 0.5
        back, forw = mk_path(b, 40, t0=rng.randrange(-5, 5)), mk_path(f, 40, tag0=1000)
        ids = Ids(back, forw)
        req = f"paste {ids.enc_path(back)} {ids.enc_path(forw)} {int(ov)} {m}"
        res = paste_paths(back, forw, overlap=ov, maxlen=m)
        exp = (list(reversed(b)) + list(f[1:] if ov else f))[:m]
        got = [int(s.order[0]) for s in res.phasepoints]
        add(req, ids.enc_path(res), None if got == exp else f"paste frames {got} != {exp}",
            {"op": "paste", "back": b, "forw": f, "overlap": ov, "maxlen": m})
        ctx.dist("paste_random")

    outs = runner.run(reqs)
    corr_fail = 0
    for req, mo, (io, err, desc) in zip(reqs, outs, metas):
        ctx.count(req, nontrivial=True)
        if err:
            ctx.violation(f"C15 statement fails on the implementation: {err}", {"case": desc, "impl": io, "model": mo, "request": req}, True)
        elif mo != io:
            corr_fail += 1
            if corr_fail <= 3:
                ctx.violation(f"correspondence model/implementation broken for {desc['op']} (property oracle found no failing input among {len(reqs)} cases)",
                              {"correspondence": "c15 runner vs infretis.classes.path", "case": desc, "impl": io, "model": mo, "request": req}, False)
    for k in (0, len(reqs) // 3, len(reqs) // 2, len(reqs) - 1):
        ctx.sample({"request": reqs[k], "model": outs[k], "impl": metas[k][0]})
    ctx.cov["rule"] = (f"exhaustive: all order sequences over alphabet {ALPHA} up to length {maxL} (reverse/copy/extremes/classification with "
                       f"{len(intf_sets)} interface lists), all (back,forw) pairs up to length {pasteL} x 7 limits x 2 overlap flags for paste; "
                       f"{nrand} seeded random pastes; a case is distinct by its request line; all are non-trivial (each exercises a modelled operation)")
    ctx.cov["correspondence"] = {"compared": len(reqs), "disagreements": corr_fail}
    ctx.cov["trusted_base"] += ["extraction: ExtrOcamlBasic only; ocaml/util.ml + ocaml/c15_driver.ml", "py/checks/c15.py generators and encoders"]
    ctx.assumptions += ["orders are integer-valued floats (exact comparisons)", "System reduced to (order[0], config, vel_rev, object identity)"]


def replay(doc):
    import json
    print(json.dumps(doc, indent=1))
    r = common.Runner("c15")
    req = doc["replay"].get("request")
    if req:
        print("model now answers:", r.run([req]))
    return 0
