"""C19 -- configuration, trajectory and input-template codecs are lossless.

Theorems: coq/theorems/C19.v (model coq/model/CodecM.v, proofs coq/proofs/CodecP.v, format
constants coq/gen/ParamsC19.v regenerated from /repo's ASTs by py/params_c19.py).
Tie: functional lock-step of the extracted model against the REAL readers / writers / editors
of infretis.classes.engines (gromacs, cp2k, lammps, turtlemdengine, ase_engine, engineparts,
enginebase) on generated files and on generated HISTORIES of frame extractions into one worker
directory, and the property's own statement evaluated on the implementation (the oracle).
Every case is a JSON "spec" (floats as hex) so that a replay re-runs exactly that case.
"""
import importlib.util  # noqa: F401
import io
import itertools
import json
import math
import os
import re
import struct
import types
from fractions import Fraction

import numpy as np

import common

META = {
    "id": "C19",
    "level": "proof",
    "technique": "Coq theorems (unbounded, closed) about an executable model of the fixed-point field codec, the g96 / extended-xyz / lammpstrj line formats, velocity reversal, frame extraction (single files and histories of extractions into one directory: overwrite semantics), swap_integer, the TRR header/data decoder, and the mdp / CP2K / LAMMPS template editors + lock-step of the extracted model against the real functions on generated files + the property's statement evaluated on the implementation",
    "text": "Unbounded theorems: float('{:w.df}'.format(x)) is x rounded half-even to d decimals (error <= half a unit of the last decimal) for every width; the field has the format width iff width_guard, which is a bound on the magnitude (g96: -1e4 < x < 1e5); g96 atom lines (24-character label + 3 fields, read by slicing) and box lines, xyz atom lines and Box: headers round-trip; the guard is necessary for g96 (witness) and unnecessary for xyz; the lammpstrj reader returns the rows of frame k sorted by id whatever order they were written in; reversing velocities changes the velocity signs only and printing -x parses to -round(x); frame k of a multi-frame xyz / lammpstrj / TRR file is frame k; frame extraction is history-independent: dump_config / _extract_frame is the directory operation files[out := [frame k of src]] (the output is opened for writing), so after ANY sequence of extractions - any sources (earlier outputs included, src = out included), any output names, any initial directory: output absent, holding a stale frame, a whole stale trajectory, an unrelated system, junk or nothing - the output of an extraction that no later one overwrote holds exactly one snapshot, the frame that extraction took from its source as it was then, the reader (first snapshot) returns it, the old content of the output has no influence on any file, files nobody writes to are unchanged; opening the output for appending is refuted (two extractions into one name: the reader returns the first), also on the extended-xyz text (stale block in front => the stale snapshot is read). Checked on the implementation for EVERY engine with an _extract_frame that can run here (CP2KEngine, TurtleMDEngine, LAMMPSEngine, GromacsEngine .trr -> .g96 and .g96 -> .g96, ASEEngine): generated histories through the real dump_config, after every operation the output is read back with the engine's own _read_configuration and _reverse_velocities + _read_configuration and must be frame k of the source as read before the operation (resp. (x, -v) of it), the file must hold exactly one snapshot, and every file of the directory, identified frame by frame with the package's readers, must be what the model's fx_run / fx_trace says; swap_integer is byte reversal of the low 32 bits and an involution on them; TRR header and frame decode(encode) = id for both byte orders and both precisions, precision detection; mdp editing replaces exactly the requested keys, appends the missing ones once, keeps every other line byte-identical, reads back the requested values and is idempotent on the whole text - for every requested value, the ones that are falsy in Python included (the model is over strings: the requested text is str(value), so 0, 0.0, '', None, False and the strings '0', '0.0', ' ' are values like any other; generated for keys present in and absent from the template, alone and mixed with non-zero values, and as the engine's own requests nstvout = 0, nstfout = 0, nsteps = 0, define = ''); CP2K data-line update exact + idempotent, a section created from a dict is a fixed point, tree update touches only the target node (same-named siblings untouched, path dictionary unchanged) and is idempotent, and the printed text reads back as the same forest (so comparing trees is comparing files); LAMMPS variables: the requested edit is the whole-word substitution on the token list of each line (C19_lammps_subst_exact: exactly the pieces that ARE a requested variable change, white space and every other word stay; C19_lammps_output_free; C19_lammps_missing; C19_lammps_second_application: idempotent, every variable then reported missing); the code as written (`if var in line.split(): line = line.replace(var, value)`, modelled as str.replace inside every word of a line one of whose words is the variable, in dictionary order: lmp_impl_write_for_run) leaves a line none of whose WORDS is a requested variable unchanged whatever its words, comments and file names contain as substrings (C19_lammps_impl_no_word_untouched), IS the whole-word substitution on every lmp_line_clean line (C19_lammps_impl_whole_word / _write_whole_word: prefix / suffix / substring related keys, words containing variable names, values containing variable names, repeated variables, variables on several lines) and is idempotent there (C19_lammps_impl_second_application); the guard is needed (C19_lammps_same_line_refuted: {n: 3, ns: 5} on 'n ns' gives '3 3s' -- recorded finding, reported as KNOWN-FINDING for exactly the not-clean lines) and matching variables as substrings of the line is refuted on a clean line (C19_lammps_substring_match_refuted). Checked on the real write_for_run: key sets over {v, vn, xv} in every dictionary order x plain values / values containing variable names x every line of <= 2 words over {v, vn, xv, vnx, #v, w} and pairs of such lines; the standard infretis template with user lines (infretis_name_restart.bin, log.infretis_seed_check, comments), prefix keys var_n / var_nsteps / var_nsteps_out in all six orders, values that are paths containing variable names; seeded random templates over 15 related keys; the written file must equal the whole-word edit on every clean template, the model of the code as written on every template (clean or not), the reported missing variables must be those that are no word of the template, and a second application must change nothing. Format constants (widths, precisions, slice positions, TRR magic/version/header layout, swap masks) are regenerated from /repo's source on every run and pinned by C19_format_contract.",
    "note": "Trusted: Coq kernel (all theorems closed under the global context); extraction (ExtrOcamlBasic) + ocaml/c19_driver.ml; this harness (generators, file skeletons, hex encoding, struct packing of TRR test files, IEEE decoding of the model's byte groups, an independent CP2K tree parser used to compare outputs modulo sibling order). Not proved but checked on every generated value: Python's format()/float() correct rounding (model works on the exact rational of the float; float(s) must equal the double nearest to the model's decimal). numpy astype(str)/genfromtxt tokens are opaque shortest round-trip decimals (lammpstrj theorem is therefore `_partial`: row selection + canonical id sort only). LAMMPS: a line is a list of white-space / word pieces (the harness tokenises with \\S+|\\s+, values are free of white space); a word of a line is non-empty and free of white space, so str.replace on the line is str.replace inside each word piece -- this is how the model of the code as written is stated and it is compared with the real output on every generated template. Genuine deviation of /repo from the whole-word statement, recorded not repaired: a variable that is a word of a line is also replaced inside other words of that line and inside values written earlier on that line (witness {var_n: 3, var_nsteps: 500}, line 'run var_n var_nsteps' -> 'run 3 3steps'); the check prints KNOWN-FINDING for exactly these (not lmp_line_clean) inputs and, on them, accepts either the model of the code as written or the whole-word result (proposed_fixes/C19_lammps_whole_word.diff makes the code whole-word; with it no KNOWN-FINDING is printed). A value that is itself a requested variable is generated only rarely and then excluded from the idempotence oracle (the theorem's lmp_settings_ok). An exception of a real reader / writer / editor on a generated input is reported as a violation with that input. LAMMPS reader needs >= 2 atoms (genfromtxt returns a 1-D array for one row): outside the claim, as in DESIGN. Requested values of the template editors are passed to the model as str(value) (what the editors write); for CP2K only None means 'keyword alone', 0 / 0.0 / '' / False are values, and CP2K data lines are compared stripped in the tree comparison ('KEY ' is what an empty value prints). CP2K: at most two sections may share a title path (Python's set order decides which of three keeps the plain key); targets are upper case. Extraction histories: engine objects are created with object.__new__ (no __init__: no input files / executables) and given exe_dir, ext and what the methods use (LAMMPS n_atoms, GROMACS top); frames are told apart by value (every generated frame carries its number in its first coordinate; extended xyz / lammpstrj exact, g96 to 9 decimals, ASE to 1e-12 since velocities are stored as momenta); a file without a complete frame (junk, empty) is modelled as holding no frame; GROMACS .g96 -> .g96 onto itself is shutil.copyfile and raises SameFileError (file untouched): src = out is not generated for GROMACS; extraction of a frame that does not exist (the engines log or raise) is outside the claim; AMSEngine._extract_frame works on in-memory states of an AMS worker (scm.plams, not installed): not exercised. The model is that of the code repaired by proposed_fixes/C19_modify_input_newline.diff, C19_cp2k_dict_data.diff and C19_lammps_repeated_variable.diff; on a tree without these repairs the oracle reports the concrete failing inputs.",
    "design_ref": "4/C19",
}
LEVEL = "proof"
MAXREP = 2          # violations reported per category

# --------------------------------------------------------------------------- encoding


def hx(s):
    if isinstance(s, str):
        s = s.encode("latin-1")
    return "s" + bytes(s).hex()


def unhx(h):
    return bytes.fromhex(h[1:]).decode("latin-1")


def unhxb(h):
    return bytes.fromhex(h[1:])


def hxl(items):
    items = list(items)
    return ",".join(hx(i) for i in items) if items else "-"


def unhxl(s):
    return [] if s in ("-", "") else [unhx(i) for i in s.split(",")]


def fh(x):
    return float(x).hex()


def hf(s):
    return float.fromhex(s) if isinstance(s, str) else float(s)


def numq(x):
    x = float(x)
    nz = 1 if (x == 0.0 and math.copysign(1.0, x) < 0) else 0
    a, b = x.as_integer_ratio()
    return f"{nz}:{a}/{b}"


def nums(xs):
    xs = list(xs)
    return ",".join(numq(x) for x in xs) if xs else "-"


def fq(s):
    return None if s == "N" else common.parse_q(s)


def fql(s):
    return [] if s in ("-", "") else [fq(i) for i in s.split(",")]


def same_float(q, real):
    """model's exact decimal q, implementation's float: the float is the double nearest to q."""
    return q is not None and float(q) == float(real)


def within(read, written, d, extra=0):
    """|read - written| <= half a unit of the d-th decimal (+ the double spacing)."""
    r, w = Fraction(float(read)), Fraction(float(written))
    return abs(r - w) <= Fraction(1, 2 * 10 ** d) + abs(w) * Fraction(1, 2 ** 51) + extra


class Case:
    def __init__(self, kind, spec):
        self.kind = kind
        self.spec = spec
        self.oracle = None          # first statement failure on the implementation
        self.groups = []            # (requests, checker(list of answers) -> None | str)
        self.tags = []
        self.sample = None

    def fail(self, msg):
        if self.oracle is None:
            self.oracle = msg

    def ask(self, reqs, checker):
        self.groups.append((list(reqs), checker))

    def ask1(self, req, expected, what):
        def chk(ans, expected=expected, what=what):
            return None if ans[0] == expected else f"{what}: model {ans[0][:200]} != implementation {expected[:200]}"
        self.groups.append(([req], chk))


def wfile(path, text, mode="w"):
    with open(path, mode, encoding="utf-8", newline="") as f:
        f.write(text)


def rfile(path):
    with open(path, encoding="utf-8", newline="") as f:
        return f.read()


# --------------------------------------------------------------------------- A. fixed-point fields


def case_fixed(spec, tmp):
    c = Case("fixed", spec)
    w, d = spec["w"], spec["d"]
    for v in spec["values"]:
        x = hf(v)
        s = f"{{:{w}.{d}f}}".format(x)
        back = float(s)
        c.ask1(f"pf {w} {d} {numq(x)}", hx(s), f"format({x!r})")
        c.ask([f"parse {hx(s)}"], lambda a, back=back, s=s: None if same_float(fq(a[0]), back) else f"float({s!r})={back!r} but model parses {a[0]}")
        c.ask1(f"wg {w} {d} {numq(x)}", "1" if len(s) == w else "0", f"width guard of {x!r}")
        if not within(back, x, d):
            c.fail(f"float(format({x!r})) = {back!r} is not within half a unit of decimal {d}")
    return c


def boundary_values(rng, w, d, n_random):
    lim = 10.0 ** (w - d - 1) if d else 10.0 ** w
    vals = [0.0, -0.0, 1.0, -1.0, 0.5, 1.5, 2.5, -0.5, -2.5, 1e-12, -1e-12, 0.1, -0.1, 123.456, -123.456,
            lim, -lim, lim / 10, -lim / 10, math.nextafter(lim, 0), math.nextafter(lim, 2 * lim),
            math.nextafter(-lim / 10, 0), math.nextafter(-lim / 10, -lim), lim - 0.5 * 10.0 ** -d, lim - 0.4 * 10.0 ** -d,
            -(lim / 10 - 0.4 * 10.0 ** -d), -(lim / 10 - 0.6 * 10.0 ** -d), lim * 10, -lim * 10, 1e15, -1e15, 2.0 ** 60]
    for _ in range(n_random):
        e = rng.randrange(-12, w - d + 2)
        vals.append(rng.choice((-1, 1)) * rng.random() * 10.0 ** e)
    return vals


# --------------------------------------------------------------------------- B. g96

G96_POS, G96_W, G96_D = 24, 15, 9      # GROMOS96 format contract (also pinned by C19_format_contract)


def g96_label(i, res="SOL", atom="OW"):
    return f"{i + 1:5d} {res:5s} {atom:5s}{i + 1:7d}"


def fits(x, w=G96_W, d=G96_D, strict=False):
    return len(f"{float(x):.{d}f}") <= (w - 1 if strict else w)


def g96_text_requests(c, text, title, labels, xyz, vel, box, boxraw=None, what="written g96", empty_box=False):
    """Compare the text of a .g96 file with the skeleton + the model's lines."""
    lines = text.split("\n")
    n = len(labels)
    nvel = n if vel is not None else 0
    has_box = box is not None or boxraw is not None
    pos0 = 4
    vel0 = pos0 + n + 2
    box0 = vel0 + nvel + 1
    fixed = {0: "TITLE", 1: title, 2: "END", 3: "POSITION", pos0 + n: "END", pos0 + n + 1: "VELOCITY", box0 - 1: "END"}
    exp_len = box0 + 1
    if has_box:
        fixed.update({box0: "BOX", box0 + 2: "END"})
        exp_len = box0 + 4
    elif empty_box:
        fixed.update({box0: "BOX", box0 + 1: "END"})
        exp_len = box0 + 3
    if not (len(lines) == exp_len and lines[-1] == "" and all(lines[i] == t for i, t in fixed.items())):
        c.ask(["rd 0 0"], lambda a: f"{what}: section skeleton differs from TITLE/POSITION/VELOCITY/BOX layout: {text[:300]!r}")
        return
    for i in range(n):
        c.ask1(f"g96w {hx(labels[i])} {nums(xyz[i])}", hx(lines[pos0 + i]), f"{what} POSITION line {i}")
        if vel is not None:
            c.ask1(f"g96w {hx(labels[i])} {nums(vel[i])}", hx(lines[vel0 + i]), f"{what} VELOCITY line {i}")
    if box is not None:
        c.ask1(f"g96box {nums(box)}", hx(lines[box0 + 1]), f"{what} BOX line")
    elif boxraw is not None:
        c.ask(["rd 0 0"], lambda a: None if lines[box0 + 1] == boxraw else f"{what}: raw BOX line not copied")


def g96_read_requests(c, text, res, n, has_box, what="read g96"):
    """res = (raw, xyz, vel, box) from the implementation, or an exception name."""
    lines = text.split("\n")
    pos0, vel0 = 4, 4 + n + 2
    reqs = [f"g96r {hx(lines[pos0 + i])}" for i in range(n)] + [f"g96r {hx(lines[vel0 + i])}" for i in range(n)]
    if has_box:
        reqs.append(f"floats {hx(lines[vel0 + n + 2])}")

    def chk(ans):
        rows = []
        for a in ans[:2 * n]:
            lab, vals = a.split("|")
            rows.append((unhx(lab), fql(vals)))
        bx = fql(ans[2 * n]) if has_box else None
        bad = any(v is None for _, vs in rows for v in vs) or (bx is not None and any(v is None for v in bx))
        if isinstance(res, str):
            return None if bad else f"{what}: implementation raised {res}, model parses every field"
        if bad:
            return f"{what}: model finds an unparsable field, implementation returned values"
        raw, xyz, vel, box = res
        for i in range(n):
            for arr, labs, off, nm in ((xyz, raw["POSITION"], 0, "POSITION"), (vel, raw["VELOCITY"], n, "VELOCITY")):
                lab, vals = rows[off + i]
                if lab != labs[i]:
                    return f"{what}: {nm} label {i}: model {lab!r} != {labs[i]!r}"
                if len(vals) != len(arr[i]) or not all(same_float(q, r) for q, r in zip(vals, arr[i])):
                    return f"{what}: {nm} row {i}: model {vals} != implementation {list(arr[i])}"
        if has_box and (box is None or len(bx) != len(box) or not all(same_float(q, r) for q, r in zip(bx, box))):
            return f"{what}: box: model {bx} != implementation {box}"
        return None
    c.ask(reqs, chk)


def case_g96(spec, tmp):
    from infretis.classes.engines.gromacs import GromacsEngine, read_gromos96_file, write_gromos96_file
    c = Case("g96", spec)
    xyz = np.array([[hf(v) for v in r] for r in spec["xyz"]], dtype=float).reshape(-1, 3)
    vel = np.array([[hf(v) for v in r] for r in spec["vel"]], dtype=float).reshape(-1, 3)
    box = None if spec["box"] is None else [hf(v) for v in spec["box"]]
    n = len(xyz)
    labels = [g96_label(i, *spec.get("names", ("SOL", "OW"))) for i in range(n)]
    title = spec.get("title", "generated by c19")
    raw = {"TITLE": [title], "POSITION": list(labels), "VELOCITY": list(labels)}
    if box is not None:
        raw["BOX"] = ["placeholder"]
    f1 = os.path.join(tmp, "a.g96")
    write_gromos96_file(f1, raw, xyz, vel, None if box is None else np.array(box))
    text = rfile(f1)
    g96_text_requests(c, text, title, labels, xyz, vel, box)
    try:
        res = read_gromos96_file(f1)
    except ValueError:
        res = "ValueError"
    g96_read_requests(c, text, res, n, box is not None)
    allfit = all(fits(v) for v in xyz.flat) and all(fits(v) for v in vel.flat)
    boxfit = box is None or (fits(box[0]) and all(fits(b, strict=True) for b in box[1:]))
    c.tags.append("g96_within_width" if allfit else "g96_beyond_width")
    if allfit and boxfit:
        if isinstance(res, str):
            c.fail("write -> read of a configuration within the format width raised " + res)
        else:
            raw2, xyz2, vel2, box2 = res
            if raw2["POSITION"] != labels or raw2["VELOCITY"] != labels or raw2["TITLE"] != [title]:
                c.fail("atom labels / title changed by write -> read")
            elif xyz2.shape != xyz.shape or not all(within(a, b, G96_D) for a, b in zip(xyz2.flat, xyz.flat)):
                c.fail(f"positions not returned to 9 decimals: wrote {xyz.tolist()} read {xyz2.tolist()}")
            elif vel2.shape != vel.shape or not all(within(a, b, G96_D) for a, b in zip(vel2.flat, vel.flat)):
                c.fail(f"velocities not returned to 9 decimals: wrote {vel.tolist()} read {vel2.tolist()}")
            elif (box is None) != (box2 is None) or (box is not None and (len(box2) != len(box) or not all(within(a, b, G96_D) for a, b in zip(box2, box)))):
                c.fail(f"box not returned to 9 decimals: wrote {box} read {None if box2 is None else list(box2)}")
    # ---- reverse velocities through the engine method
    if not isinstance(res, str):
        raw2, xyz2, vel2, box2 = res
        f2 = os.path.join(tmp, "b.g96")
        GromacsEngine._reverse_velocities(types.SimpleNamespace(ext="g96"), f1, f2)
        text2 = rfile(f2)
        boxraw = text.split("\n")[4 + 2 * n + 4] if box is not None else None
        g96_text_requests(c, text2, title, labels, xyz2, -1 * vel2, None, boxraw=boxraw, what="reversed g96", empty_box=True)
        revfit = allfit and boxfit and all(fits(-v) for v in vel2.flat)
        if revfit:
            try:
                raw3, xyz3, vel3, box3 = read_gromos96_file(f2)
                if not np.array_equal(xyz3, xyz2):
                    c.fail(f"_reverse_velocities changed positions: {xyz2.tolist()} -> {xyz3.tolist()}")
                elif not np.array_equal(vel3, -vel2):
                    c.fail(f"_reverse_velocities did not negate velocities: {vel2.tolist()} -> {vel3.tolist()}")
                elif raw3["POSITION"] != raw2["POSITION"] or raw3["TITLE"] != raw2["TITLE"]:
                    c.fail("_reverse_velocities changed labels / title")
                elif (box2 is None) != (box3 is None) or (box2 is not None and not np.array_equal(box2, box3)):
                    c.fail(f"_reverse_velocities changed the box: {box2} -> {box3}")
            except ValueError as e:
                c.fail(f"reversed file cannot be read: {e}")
    c.sample = {"g96_file": text[:400]}
    return c


def gen_config(rng, n, mode, w=G96_W, d=G96_D):
    """n x 3 positions and velocities as hex floats. mode: 'plain' | 'edge' | 'beyond' | 'huge'."""
    def val():
        if mode == "plain":
            return round(rng.uniform(-50, 50), rng.randrange(0, 12))
        pool = boundary_values(rng, w, d, 4)
        if mode == "edge":
            pool = [p for p in pool if fits(p, w, d) and fits(-p, w, d)] + [rng.uniform(-9999, 9999)]
        elif mode == "huge":
            pool = [p for p in pool if abs(p) < 1e16] + [rng.uniform(-1e9, 1e9)]
        return rng.choice(pool)
    pos = [[fh(val()) for _ in range(3)] for _ in range(n)]
    vel = [[fh(val()) for _ in range(3)] for _ in range(n)]
    return pos, vel


def gen_box(rng, ncomp, mode="plain"):
    if ncomp == 0:
        return None
    diag = [round(rng.uniform(1, 30), rng.randrange(0, 6)) for _ in range(3)]
    if ncomp == 3:
        return [fh(v) for v in diag]
    off = [round(rng.uniform(-3, 3), 4) if rng.random() < 0.5 else 0.0 for _ in range(6)]
    if mode == "negzero":
        off[0] = -0.0
    return [fh(v) for v in diag + off]


# --------------------------------------------------------------------------- C. extended xyz

XYZ_D, XYZ_BOX_D = 9, 4


def xyz_frames_from_spec(spec):
    out = []
    for fr in spec["frames"]:
        pos = np.array([[hf(v) for v in r] for r in fr["pos"]], dtype=float).reshape(-1, 3)
        vel = np.array([[hf(v) for v in r] for r in fr["vel"]], dtype=float).reshape(-1, 3)
        box = None if fr["box"] is None else np.array([hf(v) for v in fr["box"]])
        out.append((fr["names"], pos, vel, box, fr.get("step")))
    return out


def xyz_expected_requests(c, lines, at, names, pos, vel, box, step, what):
    """lines[at:] must hold: count, header, atom lines (model-printed). Returns next index."""
    n = len(names)
    got = lines[at:at + n + 2]
    if len(got) != n + 2 or got[0] != f"{n}\n":
        c.ask(["rd 0 0"], lambda a: f"{what}: frame does not start with the atom count {n}: {got[:1]}")
        return at + n + 2
    pre = "# " + (f"Step: {step} " if step is not None else "")
    if box is None:
        exp_h = pre + "\n"
        c.ask(["rd 0 0"], lambda a, g=got[1]: None if g == exp_h else f"{what}: header {g!r} != {exp_h!r}")
    else:
        c.ask([f"xyzbox {nums(box)}"], lambda a, g=got[1]: None if g == pre + "Box: " + unhx(a[0]) + " \n" else f"{what}: header {g!r} != model {pre + 'Box: ' + unhx(a[0])!r}")
    for i in range(n):
        c.ask1(f"xyzw {hx(names[i])} {nums(list(pos[i]) + list(vel[i]))}", hx(got[2 + i].rstrip("\n")), f"{what} atom line {i}")
    return at + n + 2


def snap_arrays(snapshot):
    from infretis.classes.engines.engineparts import convert_snapshot
    box, xyz, vel, names = convert_snapshot(snapshot)
    return names, xyz, vel, box


def xyz_frame_check(c, lines, idx, snap, what):
    """model's xyz_frame idx on the file's lines vs the implementation's snapshot (None = no such frame)."""
    def chk(ans):
        a = ans[0]
        if snap is None:
            return None if a == "N" else f"{what}: implementation has no frame {idx}, model returns one"
        if a == "N":
            return f"{what}: model has no frame {idx}, implementation returns one"
        h, atoms = a.split("|")
        if unhx(h) != snap["header"]:
            return f"{what}: header model {unhx(h)!r} != implementation {snap['header']!r}"
        rows = [] if atoms == "-" else atoms.split(";")
        names = snap.get("atomname", [])
        if len(rows) != len(names):
            return f"{what}: {len(rows)} atom rows in the model, {len(names)} in the implementation"
        for i, r in enumerate(rows):
            if r == "N":
                return f"{what}: model cannot read atom row {i}"
            nm, vals = r.split("~")
            real = [snap[k][i] for k in ("x", "y", "z", "vx", "vy", "vz") if k in snap and len(snap[k]) > i]
            if unhx(nm) != names[i] or not all(same_float(q, x) for q, x in zip(fql(vals), real)) or len(fql(vals)) < len(real):
                return f"{what}: atom row {i}: model {unhx(nm)} {vals} != implementation {names[i]} {real}"
        return None
    c.ask([f"xyzframe {idx} {hxl(lines)}"], chk)


def xyz_box_check(c, header, box, what):
    def chk(ans):
        if box is None:
            return None if ans[0] == "N" else f"{what}: model finds a box in {header!r}"
        vals = fql(ans[0]) if ans[0] != "N" else None
        if vals is None or len(vals) != len(box) or not all(same_float(q, x) for q, x in zip(vals, box)):
            return f"{what}: box model {ans[0]} != implementation {list(box)}"
        return None
    c.ask([f"xyzhbox {hx(header)}"], chk)


def case_xyz(spec, tmp):
    from infretis.classes.engines.cp2k import CP2KEngine
    from infretis.classes.engines.engineparts import read_xyz_file, write_xyz_trajectory
    c = Case("xyz", spec)
    frames = xyz_frames_from_spec(spec)
    f1 = os.path.join(tmp, "t.xyz")
    if os.path.exists(f1):
        os.remove(f1)
    for names, pos, vel, box, step in frames:
        write_xyz_trajectory(f1, pos, vel, names, box, step=step, append=True)
    text = rfile(f1)
    lines = text.splitlines(keepends=True)
    at = 0
    for k, (names, pos, vel, box, step) in enumerate(frames):
        at = xyz_expected_requests(c, lines, at, names, pos, vel, box, step, f"written xyz frame {k}")
    if at != len(lines):
        c.ask(["rd 0 0"], lambda a: f"written xyz: {len(lines)} lines, expected {at}")
    snaps = list(read_xyz_file(f1))
    if len(snaps) != len(frames):
        c.fail(f"wrote {len(frames)} frames, read {len(snaps)}")
    for k in range(len(frames) + 1):
        snap = snaps[k] if k < len(snaps) else None
        xyz_frame_check(c, lines, k, snap, f"read xyz frame {k}")
        if snap is not None:
            xyz_box_check(c, snap["header"], snap["box"], f"xyz header box frame {k}")
    for k, ((names, pos, vel, box, step), snap) in enumerate(zip(frames, snaps)):
        n2, p2, v2, b2 = snap_arrays(snap)
        if list(n2) != list(names):
            c.fail(f"frame {k}: atom names {names} read back as {n2}")
        elif p2.shape != pos.shape or not all(within(a, b, XYZ_D) for a, b in zip(p2.flat, pos.flat)):
            c.fail(f"frame {k}: positions not returned to 9 decimals: wrote {pos.tolist()} read {p2.tolist()}")
        elif not all(within(a, b, XYZ_D) for a, b in zip(v2.flat, vel.flat)):
            c.fail(f"frame {k}: velocities not returned to 9 decimals: wrote {vel.tolist()} read {v2.tolist()}")
        elif (box is None) != (b2 is None) or (box is not None and (len(b2) != len(box) or not all(within(a, b, XYZ_BOX_D) for a, b in zip(b2, box)))):
            c.fail(f"frame {k}: box not returned to 4 decimals: wrote {box} read {b2}")
    # ---- extract every frame (and one beyond the end) through CP2KEngine._extract_frame
    for k in range(len(snaps) + 1):
        f2 = os.path.join(tmp, f"x{k}.xyz")
        if os.path.exists(f2):
            os.remove(f2)
        CP2KEngine._extract_frame(None, f1, k, f2)
        if k >= len(snaps):
            if os.path.exists(f2):
                c.fail(f"extracting frame {k} of {len(snaps)} produced a file")
            continue
        n2, p2, v2, b2 = snap_arrays(snaps[k])
        if not os.path.exists(f2):
            c.fail(f"extracting frame {k} of {len(snaps)} wrote no file")
            continue
        t2 = rfile(f2)
        l2 = t2.splitlines(keepends=True)
        end = xyz_expected_requests(c, l2, 0, n2, p2, v2, b2, None, f"extracted xyz frame {k}")
        if end != len(l2):
            c.ask(["rd 0 0"], lambda a, k=k: f"extracted frame {k}: unexpected extra lines")
        ex = list(read_xyz_file(f2))
        if len(ex) != 1:
            c.fail(f"extracted frame {k}: file holds {len(ex)} frames")
            continue
        n3, p3, v3, b3 = snap_arrays(ex[0])
        if list(n3) != list(n2) or not np.array_equal(p3, p2) or not np.array_equal(v3, v2) or (b2 is None) != (b3 is None) or (b2 is not None and not np.array_equal(b2, b3)):
            c.fail(f"extracting frame {k} returns other data than frame {k}: {p2.tolist()} vs {p3.tolist()}")
        if k == spec.get("reverse_frame", 0):
            f3 = os.path.join(tmp, "r.xyz")
            eng = types.SimpleNamespace(_read_configuration=CP2KEngine._read_configuration)
            CP2KEngine._reverse_velocities(eng, f2, f3)
            l3 = rfile(f3).splitlines(keepends=True)
            xyz_expected_requests(c, l3, 0, n3, p3, -1.0 * v3, b3, None, "reversed xyz")
            rv = list(read_xyz_file(f3))
            n4, p4, v4, b4 = snap_arrays(rv[0])
            if not np.array_equal(p4, p3):
                c.fail(f"_reverse_velocities changed positions: {p3.tolist()} -> {p4.tolist()}")
            elif not np.array_equal(v4, -v3):
                c.fail(f"_reverse_velocities did not negate the velocities: {v3.tolist()} -> {v4.tolist()}")
            elif list(n4) != list(n3) or (b3 is None) != (b4 is None) or (b3 is not None and not np.array_equal(b3, b4)):
                c.fail("_reverse_velocities changed names or box")
    c.tags.append(f"xyz_frames_{len(frames)}")
    c.sample = {"xyz_file": text[:300]}
    return c


NAMES = ["H", "O", "Ar", "X", "C1", "CA12", "He", "Na+", "ABCDEF"]


def gen_xyz_spec(rng, nframes, n, mode, boxcomp):
    frames = []
    names = [rng.choice(NAMES) for _ in range(n)]
    for k in range(nframes):
        pos, vel = gen_config(rng, n, mode)
        frames.append({"names": names, "pos": pos, "vel": vel, "box": gen_box(rng, boxcomp, "negzero" if k == 1 else "plain"),
                       "step": (None if rng.random() < 0.5 else rng.randrange(0, 1000))})
    return {"frames": frames, "reverse_frame": rng.randrange(nframes)}


# --------------------------------------------------------------------------- D. lammpstrj


def lmp_frames_from_spec(spec):
    out = []
    for fr in spec["frames"]:
        idt = np.array([[float(i), float(t)] for i, t in zip(fr["ids"], fr["types"])])
        pos = np.array([[hf(v) for v in r] for r in fr["pos"]], dtype=float).reshape(-1, 3)
        vel = np.array([[hf(v) for v in r] for r in fr["vel"]], dtype=float).reshape(-1, 3)
        box = np.array([[hf(v) for v in r] for r in fr["box"]], dtype=float)
        out.append((idt, pos, vel, box))
    return out


def bits(a):
    return [struct.pack(">d", float(x)) for x in np.asarray(a, dtype=float).flat]


def lmp_rows_check(c, text, frame, n, res, what):
    """model's row selection + id sort on the file vs read_lammpstrj's arrays."""
    lines = text.split("\n")[:-1]
    toks = [ln.split() for ln in lines]
    rows = []
    for i, t in enumerate(toks):
        try:
            rid = int(t[0]) if len(t) == 8 else 0
        except ValueError:
            rid = 0
        rows.append(f"{rid}:{i}")

    def chk(ans):
        b, a = ans[0].split("|")
        bi = [] if b == "-" else [int(x) for x in b.split(",")]
        ai = [] if a == "-" else [int(x) for x in a.split(",")]
        if isinstance(res, str):
            return f"{what}: implementation raised {res}"
        idt, pos, vel, box = res
        try:
            mbox = [[float(x) for x in toks[i]] for i in bi]
            mrows = [[float(x) for x in toks[i]] for i in ai]
        except ValueError:
            return f"{what}: model selects non-numeric rows {bi} {ai}"
        if bits(mbox) != bits(box):
            return f"{what}: box rows: model lines {bi} = {mbox}, implementation {box.tolist()}"
        got = [list(i) + list(p) + list(v) for i, p, v in zip(idt, pos, vel)]
        if bits(mrows) != bits(got):
            return f"{what}: atom rows: model lines {ai} = {mrows}, implementation {got}"
        return None
    c.ask([f"lmprows {frame} {n} {','.join(rows)}"], chk)


def case_lammpstrj(spec, tmp):
    from infretis.classes.engines.lammps import LAMMPSEngine, read_lammpstrj, write_lammpstrj
    c = Case("lammpstrj", spec)
    frames = lmp_frames_from_spec(spec)
    n = len(frames[0][0])
    f1 = os.path.join(tmp, "t.lammpstrj")
    for k, (idt, pos, vel, box) in enumerate(frames):
        write_lammpstrj(f1, idt, pos, vel, box, append=(k > 0))
    text = rfile(f1)
    eng = types.SimpleNamespace(n_atoms=n)
    for k, (idt, pos, vel, box) in enumerate(frames):
        try:
            res = read_lammpstrj(f1, k, n)
        except Exception as e:  # noqa: BLE001
            res = type(e).__name__
        lmp_rows_check(c, text, k, n, res, f"read_lammpstrj frame {k}")
        order = np.argsort(idt[:, 0], kind="stable")
        if isinstance(res, str):
            c.fail(f"reading frame {k} of a written lammpstrj raised {res}")
            continue
        i2, p2, v2, b2 = res
        if bits(i2) != bits(idt[order]):
            c.fail(f"frame {k}: ids/types {idt[order].tolist()} read back as {i2.tolist()}")
        elif bits(p2) != bits(pos[order]):
            c.fail(f"frame {k}: positions (id-sorted) {pos[order].tolist()} read back as {p2.tolist()}")
        elif bits(v2) != bits(vel[order]):
            c.fail(f"frame {k}: velocities (id-sorted) {vel[order].tolist()} read back as {v2.tolist()}")
        elif bits(b2) != bits(box):
            c.fail(f"frame {k}: box {box.tolist()} read back as {b2.tolist()}")
        # extract frame k, then reverse it
        f2 = os.path.join(tmp, f"x{k}.lammpstrj")
        LAMMPSEngine._extract_frame(eng, f1, k, f2)
        t2 = rfile(f2)
        try:
            r2 = read_lammpstrj(f2, 0, n)
        except Exception as e:  # noqa: BLE001
            r2 = type(e).__name__
        lmp_rows_check(c, t2, 0, n, r2, f"extracted frame {k}")
        if isinstance(r2, str) or any(bits(a) != bits(b) for a, b in zip(r2, res)):
            c.fail(f"extracting frame {k} returns other data than frame {k}")
            continue
        if k == spec.get("reverse_frame", 0):
            f3 = os.path.join(tmp, "r.lammpstrj")
            LAMMPSEngine._reverse_velocities(eng, f2, f3)
            r3 = read_lammpstrj(f3, 0, n)
            lmp_rows_check(c, rfile(f3), 0, n, r3, "reversed lammpstrj")
            if bits(r3[0]) != bits(r2[0]) or bits(r3[1]) != bits(r2[1]) or bits(r3[3]) != bits(r2[3]):
                c.fail("_reverse_velocities changed ids, positions or box")
            elif not np.array_equal(r3[2], -r2[2]):
                c.fail(f"_reverse_velocities did not negate the velocities: {r2[2].tolist()} -> {r3[2].tolist()}")
            # _read_configuration = frame 0 + shift_boxbounds
    # shift_boxbounds on a dyadic grid (exact float arithmetic)
    idt, pos, vel, box = frames[0]
    if spec.get("dyadic"):
        from infretis.classes.engines.lammps import shift_boxbounds
        p, b = shift_boxbounds(pos.copy(), box.copy())
        req = "shift " + ";".join(",".join(common.qstr(x) for x in r) for r in pos) + " " + ",".join(f"{common.qstr(r[0])}:{common.qstr(r[1])}" for r in box)

        def chk(ans, p=p, b=b):
            rows, lens = ans[0].split("|")
            mp = [[common.parse_q(x) for x in r.split(",")] for r in rows.split(";")]
            ml = [common.parse_q(x) for x in lens.split(",")]
            ok = all(Fraction(float(x)) == q for r, mr in zip(p, mp) for x, q in zip(r, mr)) and all(Fraction(float(x)) == q for x, q in zip(b, ml))
            return None if ok else f"shift_boxbounds: model {mp} {ml} != implementation {p.tolist()} {b.tolist()}"
        c.ask([req], chk)
        if not np.array_equal(p, pos - box[:, 0]) or not np.array_equal(b, box[:, 1] - box[:, 0]):
            c.fail("shift_boxbounds does not subtract the lower bounds")
    c.tags.append(f"lammpstrj_frames_{len(frames)}")
    c.sample = {"lammpstrj_file": text[:300]}
    return c


def gen_lmp_spec(rng, nframes, n, mode, boxcols, dyadic=False):
    frames = []
    for _ in range(nframes):
        ids = list(range(1, n + 1))
        rng.shuffle(ids)
        if dyadic:
            pos = [[fh(rng.randrange(-800, 800) / 8) for _ in range(3)] for _ in range(n)]
            vel = [[fh(rng.randrange(-800, 800) / 64) for _ in range(3)] for _ in range(n)]
            box = [[fh(rng.randrange(-80, 0) / 8), fh(rng.randrange(1, 80) / 8)] + ([fh(0.0)] if boxcols == 3 else []) for _ in range(3)]
        else:
            pos, vel = gen_config(rng, n, mode)
            box = [[fh(round(rng.uniform(-5, 0), 3)), fh(round(rng.uniform(1, 30), 5))] + ([fh(rng.choice([0.0, -0.0, 0.25, -1.5]))] if boxcols == 3 else []) for _ in range(3)]
        frames.append({"ids": ids, "types": [rng.randrange(1, 4) for _ in range(n)], "pos": pos, "vel": vel, "box": box})
    return {"frames": frames, "reverse_frame": rng.randrange(nframes), "dyadic": dyadic}


# --------------------------------------------------------------------------- E. swap_integer, TRR

TRR_KEYS = ("box", "vir", "pres", "x", "v", "f")


def case_swap(spec, tmp):
    from infretis.classes.engines.gromacs import swap_integer
    c = Case("swap", spec)
    for x in spec["values"]:
        y = swap_integer(x)
        c.ask1(f"swap {x}", str(y), f"swap_integer({x})")
        if 0 <= x < 2 ** 32:
            if y != int.from_bytes(x.to_bytes(4, "big"), "little"):
                c.fail(f"swap_integer({x}) = {y} is not the byte reversal")
            elif swap_integer(y) != x:
                c.fail(f"swap_integer is not an involution at {x}")
        elif y != int.from_bytes((x % 2 ** 32).to_bytes(4, "big"), "little"):
            c.fail(f"swap_integer({x}) = {y} is not the byte reversal of the low 32 bits")
    return c


def trr_frame_bytes(e, dbl, fr):
    """One TRR frame packed with struct. fr: natoms, step, time, lam, and optional box/vir/pres (9 floats),
    x/v/f (natoms*3 floats); overrides: magic, slen, version, ints (dict index -> value)."""
    r, sz = ("d", 8) if dbl else ("f", 4)
    nat = fr["natoms"]
    sizes = {k: ((9 if k in ("box", "vir", "pres") else nat * 3) * sz if fr.get(k) is not None else 0) for k in TRR_KEYS}
    ints = [0, 0, sizes["box"], sizes["vir"], sizes["pres"], 0, 0, sizes["x"], sizes["v"], sizes["f"], nat, fr.get("step", 0), 0]
    for k, v in (fr.get("ints") or {}).items():
        ints[int(k)] = v
    version = fr.get("version", "GMX_trn_file").encode()
    slen = fr.get("slen", [len(version) + 1, len(version)])
    b = struct.pack(e + "i", fr.get("magic", 1993)) + struct.pack(e + "2i", *slen) + version
    b += struct.pack(e + "13i", *ints) + struct.pack(e + "2" + r, hf(fr.get("time", 0.0)), hf(fr.get("lam", 0.0)))
    for k in TRR_KEYS:
        if fr.get(k) is not None:
            vals = [hf(v) for v in fr[k]]
            b += struct.pack(f"{e}{len(vals)}{r}", *vals)
    return b


EXC = {"EOFError": "EOF"}


def impl_trr_frame(data):
    from infretis.classes.engines.gromacs import read_trr_data, read_trr_header
    fh_ = io.BytesIO(data)
    try:
        header, _ = read_trr_header(fh_)
        dat = read_trr_data(fh_, header)
    except EOFError:
        return "EOF"
    except (struct.error, ValueError, ZeroDivisionError, UnicodeDecodeError, OverflowError, MemoryError):
        return "BAD"
    return header, dat, len(data) - fh_.tell()


def unpack_real(h, dbl):
    return struct.unpack(">d" if dbl else ">f", unhxb(h))[0]


def trr_compare(ans, res, what, with_rest=True):
    """model answer line vs implementation (header, data, rest)."""
    if isinstance(res, str) or res is None:
        exp = "N" if res is None else res
        return None if ans == exp else f"{what}: model {ans[:80]} != implementation {exp}"
    if not ans.startswith("OK "):
        return f"{what}: model {ans}, implementation decodes a frame"
    header, dat = res[0], res[1]
    parts = ans[3:].split("|")
    ints = [int(x) for x in parts[0].split(",")]
    from infretis.classes.engines.gromacs import _HEAD_ITEMS
    if ints != [header[k] for k in _HEAD_ITEMS[:13]]:
        return f"{what}: header integers model {ints} != implementation"
    dbl = parts[4] == "1"
    if dbl != bool(header["double"]) or {"B": ">", "L": "<"}[parts[3]] != header["endian"]:
        return f"{what}: precision/byte order model {parts[3]}{parts[4]} != implementation {header['endian']} {header['double']}"
    if bits([unpack_real(parts[1], dbl), unpack_real(parts[2], dbl)]) != bits([header["time"], header["lambda"]]):
        return f"{what}: time/lambda differ"
    blocks = parts[5].split(";")
    for k, b in zip(TRR_KEYS, blocks):
        if (b == "N") != (k not in dat):
            return f"{what}: block {k} present in one side only"
        if b != "N":
            vals = [unpack_real(h, dbl) for h in b.split(",")]
            if bits(vals) != bits(dat[k]):
                return f"{what}: block {k}: model {vals} != implementation {np.asarray(dat[k]).tolist()}"
    if with_rest and int(parts[6]) != res[2]:
        return f"{what}: bytes left model {parts[6]} != implementation {res[2]}"
    return None


def case_trr_decode(spec, tmp):
    """one byte string (possibly malformed / truncated): decode_frame vs read_trr_header + read_trr_data."""
    c = Case("trr_decode", spec)
    e = spec["endian"]
    data = b"".join(trr_frame_bytes(e, spec["double"], fr) for fr in spec["frames"])
    cuts = spec.get("cuts") or [len(data)]
    for cut in cuts:
        d = data[:cut] + bytes.fromhex(spec.get("tail", ""))
        res = impl_trr_frame(d)
        c.ask([f"trrf {hx(d)}"], lambda a, res=res, cut=cut: trr_compare(a[0], res, f"TRR decode ({e}{'d' if spec['double'] else 'f'}, {cut} bytes)"))
        if cut == len(data) and spec.get("wellformed"):
            fr = spec["frames"][0]
            if isinstance(res, str):
                c.fail(f"a well-formed TRR frame ({e}, double={spec['double']}) does not decode: {res}")
                continue
            header, dat, rest = res
            for k in TRR_KEYS:
                if (fr.get(k) is not None) != (k in dat):
                    c.fail(f"TRR block {k} present/absent mismatch after decoding")
                elif fr.get(k) is not None and bits([hf(v) for v in fr[k]]) != bits(dat[k]):
                    c.fail(f"TRR block {k} decodes to other values than were encoded ({e}, double={spec['double']})")
            if header["natoms"] != fr["natoms"] or header["step"] != fr.get("step", 0) or bits([header["time"], header["lambda"]]) != bits([hf(fr.get("time", 0.0)), hf(fr.get("lam", 0.0))]):
                c.fail("TRR header fields decode to other values than were encoded")
            # the model's encoder produces the same bytes as struct
            from infretis.classes.engines.gromacs import _HEAD_ITEMS
            ints = [header[k] for k in _HEAD_ITEMS[:13]]
            r = ">d" if spec["double"] else ">f"
            blocks = ";".join("N" if fr.get(k) is None else ",".join(hx(struct.pack(r, hf(v))) for v in fr[k]) for k in TRR_KEYS)
            first = trr_frame_bytes(e, spec["double"], fr)
            c.ask1(f"trrenc {','.join(map(str, ints))} {hx(struct.pack(r, hf(fr.get('time', 0.0))))} {hx(struct.pack(r, hf(fr.get('lam', 0.0))))} "
                   f"{'B' if e == '>' else 'L'} {int(spec['double'])} {blocks}", hx(first), "model encode_frame vs struct.pack")
    c.tags.append("trr_" + ("wellformed" if spec.get("wellformed") else "malformed"))
    return c


def case_trr_file(spec, tmp):
    """multi-frame file: read_trr_frame for every index, the four variants decode identically,
    GromacsEngine._extract_frame writes frame k as g96."""
    from infretis.classes.engines.gromacs import GromacsEngine, read_gromos96_file, read_trr_frame
    c = Case("trr_file", spec)
    frames = spec["frames"]
    decoded = {}
    for e in "<>":
        for dbl in (False, True):
            data = b"".join(trr_frame_bytes(e, dbl, fr) for fr in frames)
            f1 = os.path.join(tmp, f"t{'L' if e == '<' else 'B'}{int(dbl)}.trr")
            with open(f1, "wb") as f:
                f.write(data)
            for k in range(len(frames) + 1):
                try:
                    h, d = read_trr_frame(f1, k)
                    res = None if h is None else (h, d, 0)
                except (struct.error, ValueError, ZeroDivisionError):
                    res = None
                c.ask([f"trrat {len(frames) + 2} {k} {hx(data)}"],
                      lambda a, res=res, k=k, e=e, dbl=dbl: trr_compare(a[0], res, f"read_trr_frame index {k} ({e}, double={dbl})", with_rest=False))
                if k < len(frames):
                    if res is None:
                        c.fail(f"frame {k} of {len(frames)} not found ({e}, double={dbl})")
                        continue
                    fr = frames[k]
                    got = {kk: bits(res[1][kk]) for kk in res[1]}
                    exp = {kk: bits([hf(v) for v in fr[kk]]) for kk in TRR_KEYS if fr.get(kk) is not None}
                    if got != exp or res[0]["step"] != fr.get("step", 0):
                        c.fail(f"read_trr_frame({k}) does not return frame {k} ({e}, double={dbl})")
                    decoded.setdefault(k, []).append((got, res[0]["step"], res[0]["natoms"]))
                elif res is not None:
                    c.fail(f"read_trr_frame({k}) returns a frame although the file has {len(frames)}")
            # ---- frame k -> g96 through the engine
            if e == spec.get("g96_variant", "<") and dbl == spec.get("g96_double", False):
                for k, fr in enumerate(frames):
                    if fr.get("x") is None or fr.get("v") is None or fr.get("box") is None:
                        continue
                    n = fr["natoms"]
                    labels = [g96_label(i) for i in range(n)]
                    top = {"TITLE": ["from trr"], "POSITION": labels, "VELOCITY": labels, "BOX": ["b"]}
                    f2 = os.path.join(tmp, "x.g96")
                    GromacsEngine._extract_frame(types.SimpleNamespace(top=top), f1, k, f2)
                    x = np.array([hf(v) for v in fr["x"]]).reshape(n, 3)
                    v = np.array([hf(vv) for vv in fr["v"]]).reshape(n, 3)
                    m = [hf(vv) for vv in fr["box"]]
                    box9 = [m[0], m[4], m[8], m[1], m[2], m[3], m[5], m[6], m[7]]
                    text = rfile(f2)
                    g96_text_requests(c, text, "from trr", labels, x, v, box9, what=f"g96 extracted from trr frame {k}")
                    try:
                        res = read_gromos96_file(f2)
                    except ValueError:
                        res = "ValueError"
                    g96_read_requests(c, text, res, n, True, what=f"g96 extracted from trr frame {k}")
                    if isinstance(res, str):
                        c.fail(f"g96 extracted from trr frame {k} cannot be read")
                    elif not (all(within(a, b, G96_D) for a, b in zip(res[1].flat, x.flat)) and all(within(a, b, G96_D) for a, b in zip(res[2].flat, v.flat))
                              and all(within(a, b, G96_D) for a, b in zip(res[3], box9))):
                        c.fail(f"_extract_frame({k}) wrote other positions/velocities/box than frame {k} holds")
    for k, lst in decoded.items():
        if any(x != lst[0] for x in lst[1:]):
            c.fail(f"frame {k} decodes differently for different byte orders / precisions")
    c.tags.append(f"trr_frames_{len(frames)}")
    return c


def f32(x):
    return struct.unpack("f", struct.pack("f", x))[0]


def gen_trr_frame(rng, natoms, present, step, wide=False):
    """wide: values that only double precision can hold (for frames written in double precision only)"""
    r = (lambda x: x) if wide else f32
    fr = {"natoms": natoms, "step": step, "time": fh(r(rng.uniform(0, 100))), "lam": fh(r(rng.random()))}
    for k in TRR_KEYS:
        if k in present:
            cnt = 9 if k in ("box", "vir", "pres") else natoms * 3
            fr[k] = [fh(r(rng.choice([rng.uniform(-99, 99), 0.0, -0.0, 1.5, rng.uniform(-1e-3, 1e-3)]))) for _ in range(cnt)]
        else:
            fr[k] = None
    return fr


# --------------------------------------------------------------------------- F. mdp templates


def enc_pairs(pairs):
    pairs = list(pairs)
    return ",".join(f"{hx(k)}:{'N' if v is None else hx(str(v))}" for k, v in pairs) if pairs else "-"


def enc_pairs_str(pairs):
    """mdp settings: the editor writes str(value) whatever the value is (0, 0.0, "", None, False included)"""
    pairs = list(pairs)
    return ",".join(f"{hx(k)}:{hx(str(v))}" for k, v in pairs) if pairs else "-"


def mdp_key(line):
    return line.split("=", 1)[0].strip() if "=" in line.rstrip("\n") else None


def case_mdp(spec, tmp):
    from infretis.classes.engines.enginebase import EngineBase
    c = Case("mdp", spec)
    text, pairs = spec["text"], [tuple(p) for p in spec["settings"]]
    settings = dict(pairs)
    src, out, out2 = (os.path.join(tmp, n) for n in ("in.mdp", "out.mdp", "out2.mdp"))
    wfile(src, text)
    EngineBase._modify_input(src, out, settings, delim="=")
    res = rfile(out)
    EngineBase._modify_input(out, out2, settings, delim="=")
    res2 = rfile(out2)
    before = EngineBase._read_input_settings(src)
    after = EngineBase._read_input_settings(out)
    c.ask1(f"mdp {enc_pairs_str(pairs)} {hx(text)}", hx(res), "_modify_input output")
    c.ask([f"mdpread {hx(res)}"], lambda a: None if dict(tuple(unhx(x) for x in p.split(":")) for p in ([] if a[0] == "-" else a[0].split(","))) == after
          else f"_read_input_settings: model {a[0]} != implementation {after}")
    # ---- the statement, evaluated on the implementation
    lin = text.splitlines(keepends=True)
    lout = res.splitlines(keepends=True)
    present = {mdp_key(ln) for ln in lin} - {None}
    missing = [k for k, _ in pairs if k not in present]
    if len(lout) != len(lin) + len(missing):
        c.fail(f"{len(lin)} template lines + {len(missing)} missing keys gave {len(lout)} lines: {res!r}")
    else:
        for i, ln in enumerate(lin):
            k = mdp_key(ln)
            if k in settings:
                exp = ln.split("=", 1)[0] + "= " + str(settings[k]) + "\n"
                if lout[i] != exp:
                    c.fail(f"line {i} ({ln!r}) with requested key {k!r} became {lout[i]!r}, expected {exp!r}")
            elif lout[i] != ln and not (i == len(lin) - 1 and missing and lout[i] == ln + "\n"):
                c.fail(f"line {i} ({ln!r}) was not requested but became {lout[i]!r}")
        for j, k in enumerate(missing):
            got = lout[len(lin) + j]
            if mdp_key(got) != k or got.split("=", 1)[1].strip() != str(settings[k]).strip():
                c.fail(f"missing key {k!r} appended as {got!r}")
    for k, v in pairs:
        if "=" not in str(v) and after.get(k) != str(v).strip():
            c.fail(f"after editing, key {k!r} reads back as {after.get(k)!r} instead of {str(v).strip()!r}")
    for k, v in before.items():
        if k not in settings and after.get(k) != v:
            c.fail(f"key {k!r} was not requested but its value changed from {v!r} to {after.get(k)!r}")
    if res2 != res:
        c.fail(f"second application changes the file: {res!r} -> {res2!r}")
    c.tags.append("mdp_missing_no_newline" if (missing and text and not text.endswith("\n")) else "mdp_other")
    for k, v in pairs:
        if not v:       # a requested value that is falsy in Python (0, 0.0, "", None, False) is a requested value
            c.tags.append("mdp_falsy_value_key_" + ("present" if k in present else "absent"))
        elif str(v).strip() in ("0", "0.0"):
            c.tags.append("mdp_zero_string_key_" + ("present" if k in present else "absent"))
    c.sample = {"mdp_in": text[:200], "settings": pairs, "mdp_out": res[:200]}
    return c


MDP_LINES = ["a = 1\n", "ab = 2\n", "a=3\n", "; a = 4\n", "x\n", "\n", " a  =  5 \n", "c = d = e\n"]
MDP_KEYS = ["a", "ab", "c"]
# requested values that are falsy in Python, and their truthy string twins: all of them are requested values
# (the engine itself asks for nstvout = 0, nstfout = 0, nsteps = 0); the editor writes str(value)
MDP_FALSY = [0, 0.0, "", None, False]
MDP_ZEROISH = ["0", "0.0", " "]


def gen_mdp_random(rng):
    keys = ["nsteps", "nstep", "dt", "tinit", "integrator", "ref_t", "ref-t", "gen_vel", "Nsteps", "tcoupl", "nstxout", "nstxout-compressed"]
    lines = []
    for _ in range(rng.randrange(0, 12)):
        k = rng.choice(keys)
        form = rng.randrange(8)
        v = rng.choice(["1", "0.002", "md", "300 300", "yes", "", "a=b", "0", "10"])
        lines.append([f"{k} = {v}\n", f"{k}={v}\n", f"  {k}\t=   {v}  \n", f"; {k} = {v}\n", f"{k} = {v} ; comment = x\n", "\n", f"{k}\n", f"include {k}\n"][form])
    text = "".join(lines)
    if text and rng.random() < 0.4:
        text = text[:-1]
    ks = rng.sample(keys, rng.randrange(0, 5))
    return {"text": text, "settings": [[k, rng.choice(["5", "0.5", "sd", "1 2 3", 7, 0.25] + MDP_FALSY + MDP_ZEROISH[:2])] for k in ks]}


# --------------------------------------------------------------------------- G. CP2K


def cp2k_data_oracle(c, lines, pairs, out, out2, what):
    data = dict(pairs)
    keys = [ln.split()[0] for ln in lines]
    missing = [k for k, _ in pairs if k not in keys]

    def want(k):
        return [k] + ([] if data[k] is None else str(data[k]).split())
    if len(out) != len(lines) + len(missing):
        c.fail(f"{what}: {len(lines)} data lines + {len(missing)} new keys gave {out}")
        return
    for i, ln in enumerate(lines):
        if keys[i] in data:
            if out[i].split() != want(keys[i]):
                c.fail(f"{what}: line {ln!r} with requested key became {out[i]!r}, expected tokens {want(keys[i])}")
        elif out[i] != ln:
            c.fail(f"{what}: line {ln!r} was not requested but became {out[i]!r}")
    for j, k in enumerate(missing):
        if out[len(lines) + j].split() != want(k):
            c.fail(f"{what}: new key {k!r} (value {data[k]!r}) written as {out[len(lines) + j]!r}")
    if out2 != out:
        c.fail(f"{what}: second application changes the section: {out} -> {out2}")


def case_cp2k_data(spec, tmp):
    from infretis.classes.engines.cp2k import SectionNode, update_node
    c = Case("cp2k_data", spec)
    lines, pairs = spec["lines"], [tuple(p) for p in spec["data"]]
    if spec["new"]:
        ref, nodes = {}, []
        update_node("SEC", [], dict(pairs), ref, nodes, replace=False)
        out = list(nodes[0].data)
        update_node("SEC", [], dict(pairs), ref, nodes, replace=False)
        out2 = list(nodes[0].data)
        c.ask1(f"cp2knew {enc_pairs(pairs)}", hxl(out), "data of a section created from a dict")
        cp2k_data_oracle(c, [], pairs, out, out2, "new section")
    else:
        node = SectionNode("SEC", None, [])
        node.data = list(lines)
        ref, nodes = {"SEC": node}, [node]
        update_node("SEC", [], dict(pairs), ref, nodes, replace=False)
        out = list(node.data)
        update_node("SEC", [], dict(pairs), ref, nodes, replace=False)
        out2 = list(node.data)
        c.ask1(f"cp2k {enc_pairs(pairs)} {hxl(lines)}", hxl(out), "update_node data lines")
        cp2k_data_oracle(c, lines, pairs, out, out2, "update_node")
    c.tags.append("cp2k_new" if spec["new"] else "cp2k_update")
    return c


def parse_cp2k(text):
    """independent reader used to compare CP2K inputs as trees; node = [title, settings, data, kids]"""
    roots, stack = [], []
    for ln in text.split("\n"):
        s = ln.strip()
        if not s:
            continue
        if s.startswith("&"):
            if s[1:].upper().startswith("END"):
                stack.pop()
            else:
                t = s[1:].split()
                node = [t[0].upper(), t[1:], [], []]
                (stack[-1][3] if stack else roots).append(node)
                stack.append(node)
        elif stack:
            stack[-1][2].append(s)
    return roots


def canon(node):
    # data lines are compared stripped (the reader strips them; "KEY " is what an empty value prints)
    return (node[0], tuple(node[1]), tuple(x.strip() for x in node[2]), tuple(sorted(canon(k) for k in node[3])))


def canon_forest(roots):
    return [canon(r) for r in roots]


def tree_index(roots):
    """key -> node following set_parents' rule (two nodes with one path are told apart by settings);
    None when three or more nodes share a path."""
    by_path = {}

    def walk(node, path):
        p = path + [node[0]]
        by_path.setdefault("->".join(p), []).append(node)
        for k in node[3]:
            walk(k, p)
    for r in roots:
        walk(r, [])
    idx = {}
    for p, lst in by_path.items():
        if len(lst) == 1:
            idx[p] = lst[0]
        elif len(lst) == 2:
            for nd in lst:
                idx[p + "->" + " ".join(nd[1])] = nd
        else:
            return None
    return idx


def cp2k_tree_oracle(c, text, updates, removes, res, res2):
    """the statement on trees: only targeted sections change, as requested; a second application is a no-op"""
    t0 = parse_cp2k(text)
    idx = tree_index(t0)
    if idx is None:
        return
    import copy
    exp_roots = t0   # edited in place: idx points into it
    for tgt, setts, replace, isdict, data, dl in updates:
        data = [tuple(p) for p in data]
        node = idx.get(tgt)
        new_lines = [k if v is None else f"{k} {v}" for k, v in data] if isdict else list(dl)
        if node is None:
            parts = tgt.split("->")
            for i in range(1, len(parts) + 1):
                key = "->".join(parts[:i])
                if key not in idx:
                    nd = [parts[i - 1], list(setts) if i == len(parts) else [], list(new_lines) if i == len(parts) else [], []]
                    (idx["->".join(parts[:i - 1])][3] if i > 1 else exp_roots).append(nd)
                    idx[key] = nd
            continue
        if replace:
            node[1] = list(setts)
            node[2] = [k for k, _ in data] if isdict else list(dl)
        else:
            d = dict(data)
            done = set()
            out = []
            for ln in node[2]:
                k = ln.split()[0]
                if k in d:
                    out.append(k if d[k] is None else f"{k} {d[k]}")
                    done.add(k)
                else:
                    out.append(ln)
            out += [k if v is None else f"{k} {v}" for k, v in data if k not in done]
            node[2] = out
            node[1] = node[1] + list(setts)
    for tgt in removes:
        node = idx.pop(tgt, None)
        if node is None:
            continue

        def drop(lst):
            lst[:] = [x for x in lst if x is not node]
            for x in lst:
                drop(x[3])
        drop(exp_roots)
    exp = [canon((r[0], r[1], r[2], r[3])) if False else canon(r) for r in exp_roots]
    got = canon_forest(parse_cp2k(res))
    if got != exp:
        c.fail(f"edited CP2K input differs from the requested edit (as trees): got {got}, expected {exp}")
    # a second application is claimed to be a no-op when nothing is appended to the settings and every
    # target still names its section in the output (the key of a section depends on whether a sibling
    # with the same title exists, so removing / creating such a sibling renames it; a target that is
    # also removed is re-created together with its missing parents by a second run)
    idx1 = tree_index(parse_cp2k(res)) or {}
    idem = all((replace or not setts) and tgt in idx1 for tgt, setts, replace, _, _, _ in updates)
    c.tags.append("cp2k_idempotence_claimed" if idem else "cp2k_idempotence_not_claimed")
    if idem and res2 is not None and canon_forest(parse_cp2k(res2)) != got:
        c.fail(f"second application of update_cp2k_input changes the tree: {got} -> {canon_forest(parse_cp2k(res2))}")


def case_cp2k_tree(spec, tmp):
    from infretis.classes.engines.cp2k import read_cp2k_input, set_parents, update_cp2k_input
    c = Case("cp2k_tree", spec)
    text, updates, removes = spec["text"], spec["updates"], spec["removes"]
    src, out, out2 = (os.path.join(tmp, n) for n in ("in.inp", "out.inp", "out2.inp"))
    wfile(src, text)
    upd = {}
    for tgt, setts, replace, isdict, data, dl in updates:
        v = {"replace": bool(replace), "data": (dict((k, vv) for k, vv in data) if isdict else list(dl))}
        if setts is not None:
            v["settings"] = list(setts)
        upd[tgt] = v
    import copy
    update_cp2k_input(src, out, update=copy.deepcopy(upd), remove=list(removes))
    res = rfile(out)
    update_cp2k_input(out, out2, update=copy.deepcopy(upd), remove=list(removes))
    res2 = rfile(out2)
    lines = text.split("\n")
    ups = ";".join("~".join([hx(t), hxl(s or []), str(int(bool(r))), str(int(bool(isd))), enc_pairs(d), hxl(dl)]) for t, s, r, isd, d, dl in updates) or "-"

    def chk(ans):
        if ans[0] == "N":
            return "model: the template makes read_cp2k_input fail, implementation wrote a file"
        mt = canon_forest(parse_cp2k("\n".join(unhxl(ans[0]))))
        it = canon_forest(parse_cp2k(res))
        return None if mt == it else f"update_cp2k_input (as trees): model {mt} != implementation {it}"
    c.ask([f"cp2kapply {hxl(lines)} {ups} {hxl(removes)}"], chk)

    def chk_again(ans):
        if ans[0] == "N":
            return "model: second application fails"
        mt = canon_forest(parse_cp2k("\n".join(unhxl(ans[0]))))
        it = canon_forest(parse_cp2k(res2))
        return None if mt == it else f"second update_cp2k_input (as trees): model {mt} != implementation {it}"
    c.ask([f"cp2kapply {hxl(res.split(chr(10)))} {ups} {hxl(removes)}"], chk_again)
    # node dictionary
    nodes = read_cp2k_input(src)
    ref = set_parents(nodes)
    keys = sorted((k, n.title, " ".join(n.settings)) for k, n in ref.items())

    def chk2(ans):
        ents = [] if ans[0] in ("-", "N") else [e.split(":") for e in ans[0].split(",")]
        mk = sorted(unhx(e[0]) for e in ents)
        return None if mk == [k for k, _, _ in keys] else f"set_parents keys: model {mk} != implementation {[k for k, _, _ in keys]}"
    if not spec.get("dup_collision"):
        c.ask([f"cp2krefs {hxl(lines)}"], chk2)
    cp2k_tree_oracle(c, text, [tuple(u) for u in updates], removes, res, res2)
    c.sample = {"cp2k_in": text[:300], "updates": updates, "removes": removes, "cp2k_out": res[:300]}
    return c


CP2K_TITLES = ["GLOBAL", "MOTION", "MD", "PRINT", "EACH", "RESTART", "FORCE_EVAL", "SUBSYS", "DFT", "SCF", "TOPOLOGY", "CELL"]
CP2K_KEYS = ["STEPS", "TIMESTEP", "PROJECT", "MD", "ABC", "BACKUP_COPIES", "RUN_TYPE", "STEP", "#", "!note"]


def gen_cp2k_tree(rng):
    out, paths = [], []
    counter = [0]

    def section(depth, path, used):
        title = rng.choice([t for t in CP2K_TITLES if t not in used] or ["X%d" % counter[0]])
        used.add(title)
        counter[0] += 1
        ind = " " * rng.randrange(0, 5)
        shown = rng.choice([title, title.lower(), title.capitalize()])
        setts = rng.choice([[], [], ["ON"], ["A", "b"]])
        out.append(f"{ind}&{shown}{''.join(' ' + s for s in setts)}")
        p = path + [title]
        paths.append(("->".join(p), setts))
        sub_used = set()
        for _ in range(rng.randrange(0, 4)):
            r = rng.random()
            if r < 0.55:
                k = rng.choice(CP2K_KEYS)
                out.append(f"{ind}  {k}{rng.choice(['', ' 1', ' 0.5 0.5', '   x   y'])}")
            elif r < 0.65:
                out.append("")
            elif depth < 3:
                section(depth + 1, p, sub_used)
        if depth < 3 and rng.random() < 0.25 and "KIND" not in sub_used:
            sub_used.add("KIND")
            for el in rng.sample(["H", "O", "Ar", "C"], 2):
                out.append(f"{ind}  &KIND {el}")
                out.append(f"{ind}    MASS {rng.randrange(1, 40)}")
                if rng.random() < 0.5:
                    out.append(f"{ind}    ELEMENT {el}")
                out.append(f"{ind}  &END KIND")
                paths.append(("->".join(p + ["KIND"]) + "->" + el, [el]))
        out.append(f"{ind}&{rng.choice(['END', 'end', 'End'])} {title}")
    used = set()
    for _ in range(rng.randrange(1, 4)):
        section(1, [], used)
    if rng.random() < 0.2:
        out.insert(0, "stray line before any section")
    text = "\n".join(out) + "\n"
    updates, removes = [], []
    targets = [p for p, _ in paths]
    plain = [p for p, st in paths if not p.endswith("->" + " ".join(st)) or not st]
    for _ in range(rng.randrange(0, 4)):
        r = rng.random()
        if r < 0.6 and targets:
            tgt = rng.choice(targets)
        elif r < 0.8:
            tgt = rng.choice(plain + ["NEWROOT"]) + "->" + rng.choice(["NEW", "PRINT->EACH", "EXTRA"])
        else:
            tgt = rng.choice(["NEWROOT", "EXT_RESTART", "GLOBAL"])
        if any(u[0] == tgt for u in updates):
            continue
        kind = rng.random()
        data = [[k, rng.choice(["5", "0.25", "a b", 7, None, 0, "0", 0.0, ""])] for k in rng.sample(CP2K_KEYS[:8], rng.randrange(0, 4))]
        if kind < 0.6:
            updates.append([tgt, [], False, True, data, []])
        elif kind < 0.8:
            updates.append([tgt, rng.choice([[], ["NEWSET"]]), True, False, [], [f"{k} {v}" for k, v in data if v is not None]])
        else:
            updates.append([tgt, ["EXTRA"], False, True, data, []])
    for _ in range(rng.randrange(0, 3)):
        removes.append(rng.choice(targets + ["NOT->THERE", "EXT_RESTART"]))
    return {"text": text, "updates": updates, "removes": removes}


# --------------------------------------------------------------------------- H. LAMMPS input


def pieces(line):
    return re.findall(r"\S+|\s+", line)


def enc_lmp_lines(lines):
    return ";".join(",".join(("W" if p.isspace() else "T") + hx(p) for p in pieces(ln)) for ln in lines) or "-"


def dec_lmp_lines(s):
    return [] if s == "-" else ["".join(unhx(p[1:]) for p in ln.split(",")) if ln != "-" else "" for ln in s.split(";")]


KNOWN_LMP = ("LAMMPS write_for_run edits text that was not requested on a line where a requested variable is a word AND occurs inside another word of that line "
             "(or inside a value written earlier on that line): `if var in line.split(): line = line.replace(var, value)` replaces every occurrence in the line. "
             "Witness: settings {var_n: 3, var_nsteps: 500} (this order), line 'run var_n var_nsteps' -> 'run 3 3steps' instead of 'run 3 500' "
             "(theorem C19_lammps_same_line_refuted; C19_lammps_impl_whole_word holds exactly on the lmp_line_clean lines; lines none of whose words is a variable are never touched: "
             "C19_lammps_impl_no_word_untouched; small repair: proposed_fixes/C19_lammps_whole_word.diff)")


def run_write_for_run(src, out, settings):
    """-> (text written, variables reported missing) ; (None, description) when the real function raised anything
    but its own 'Did not find the following keys' ValueError"""
    from infretis.classes.engines.lammps import write_for_run
    try:
        write_for_run(src, out, dict(settings))
        return rfile(out), []
    except ValueError as e:
        m = re.search(r"Did not find the following keys\s*dict_keys\((\[.*?\])\)", str(e), re.S)
        if not m or not os.path.exists(out):
            return None, f"ValueError({e})"
        return rfile(out), list(__import__("ast").literal_eval(m.group(1)))
    except Exception as e:  # noqa: BLE001  any exception on a legal template is a finding
        return None, f"{type(e).__name__}({e})"


def lmp_line_clean(line, spairs):
    """The guard of C19_lammps_impl_whole_word stated on Python strings (independent of the model's
    lmp_line_clean, the two are compared): when a variable that is a word of the line is applied (dictionary
    order), it occurs in no other word still standing and in no value already written on this line."""
    words = line.split()
    done = []
    for k, v in spairs:
        if k in words:
            written = dict(done)
            for t in words:
                if t != k and t not in written and k in t:
                    return False
            for k2, v2 in done:
                if k2 in words and k in v2:
                    return False
        done.append((k, v))
    return True


def case_lammps_in(spec, tmp):
    c = Case("lammps_in", spec)
    c.known = None
    text, pairs = spec["text"], [tuple(p) for p in spec["settings"]]
    src, out, out2 = (os.path.join(tmp, n) for n in ("in.lmp", "out.lmp", "out2.lmp"))
    for f in (out, out2):
        if os.path.exists(f):
            os.remove(f)
    wfile(src, text)
    res, miss = run_write_for_run(src, out, pairs)
    lines = text.splitlines(keepends=True)
    spairs = [(k, str(v)) for k, v in pairs]
    s = dict(spairs)
    # the statement: every word that IS a requested variable is replaced by its value, every other character stays
    exp = "".join("".join(s.get(p, p) for p in pieces(ln)) for ln in lines)
    toks = {t for ln in lines for t in ln.split()}
    exp_miss = sorted(k for k in s if k not in toks)
    clean = [lmp_line_clean(ln, spairs) for ln in lines]
    allclean = all(clean)
    settings_ok = not any(v in s for v in s.values())       # no value is itself a requested variable
    rel_keys = any(a != b and a in b for a in s for b in s)
    word_has_var = any(k in t and t != k for k in s for t in toks if t not in s)
    val_has_var = any(k in v for k in s for v in s.values())
    for tag, on in (("lammps_clean_lines_only", allclean), ("lammps_same_line_overlap", not allclean), ("lammps_prefix_or_substring_related_keys", rel_keys),
                    ("lammps_word_contains_variable_name", word_has_var), ("lammps_value_contains_variable_name", val_has_var),
                    ("lammps_var_on_two_lines", any(sum(k in ln.split() for ln in lines) > 1 for k in s)),
                    ("lammps_var_repeated_on_line", any(ln.split().count(k) > 1 for ln in lines for k in s))):
        if on:
            c.tags.append(tag)
    c.sample = {"lammps_in": text[:200], "settings": pairs}
    enc = f"{enc_pairs_str(pairs)} {enc_lmp_lines(lines)}"
    if res is None:
        c.fail(f"write_for_run raised {miss} on a legal template (settings {pairs}, text {text[:300]!r})")
        return c

    def chk(ans):
        ol, om, oc = ans[0].split("|")
        mt, mm = "".join(dec_lmp_lines(ol)), unhxl(om)
        mclean = [] if oc in ("-", "") else [x == "1" for x in oc.split(",")]
        if mclean != clean:
            return f"clean-line guard: model {mclean} != harness {clean}"
        if sorted(mm) != sorted(exp_miss):
            return f"variables never found: model {mm} != harness {exp_miss}"
        if mt != res:
            if not allclean and res == exp:
                return None         # whole-word substitution on an overlapping line: the repaired behaviour, accepted
            if res != exp:
                c.fail(f"write_for_run changed text that was not requested or missed a requested word (and differs from the model of the code as written): got {res!r}, expected {exp!r}")
            return f"write_for_run output: model of the code as written {mt!r} != implementation {res!r}"
        if res != exp:              # only possible off the clean lines (C19_lammps_impl_whole_word): the recorded same-line finding
            c.known = KNOWN_LMP
        return None
    c.ask([f"lmpi {enc}"], chk)

    def chk_spec(ans):
        ol, om = ans[0].split("|")
        mt, mm = "".join(dec_lmp_lines(ol)), unhxl(om)
        if mt != exp:
            return f"whole-word model {mt!r} != the harness' statement of the requested edit {exp!r}"
        return None if sorted(mm) == exp_miss else f"whole-word model reports {mm} missing, harness {exp_miss}"
    c.ask([f"lmp {enc}"], chk_spec)
    if sorted(miss) != exp_miss:
        c.fail(f"variables reported missing {sorted(miss)}, but the requested variables that are no word of the template are {exp_miss}")
    elif allclean and res != exp:
        bad = [(a, b) for a, b in zip(res.splitlines(), exp.splitlines()) if a != b][:2]
        c.fail(f"editing the template did not change exactly the requested words: written/expected lines {bad}; got {res!r}, expected {exp!r}")
    elif allclean and settings_ok:
        if any(t in s for ln in res.splitlines() for t in ln.split()):
            c.fail("a requested variable survives as a word of the output")
        else:
            wfile(os.path.join(tmp, "again.lmp"), res)
            res2, miss2 = run_write_for_run(os.path.join(tmp, "again.lmp"), out2, pairs)
            if res2 is None:
                c.fail(f"second application raised {miss2}")
            elif res2 != res or sorted(miss2) != sorted(s):
                c.fail(f"second application: text changed ({res2 != res}) or not every variable reported missing ({miss2})")
    return c


LMP_VARS = ["infretis_timestep", "infretis_nsteps", "infretis_name", "infretis_temperature", "infretis_initconf"]


def gen_lammps_in(rng, small=None):
    toks = LMP_VARS[:3] + ["variable", "equal", "dt", "run", "#", "fix", "1", "all", "nve", "${dt}", "infretis", "timestep"]
    lines = []
    for _ in range(rng.randrange(0, 8)):
        n = rng.randrange(0, 6)
        ln = rng.choice(["", " ", "\t"]) + "".join(rng.choice(toks) + rng.choice([" ", "  ", "\t", " "]) for _ in range(n))
        lines.append(ln.rstrip(" ") + rng.choice(["", " "]) + "\n")
    text = "".join(lines)
    if text and rng.random() < 0.3:
        text = text[:-1]
    ks = rng.sample(LMP_VARS, rng.randrange(0, 4))
    return {"text": text, "settings": [[k, rng.choice(["0.5", 100, "run_7", "300.0", "conf.lammpstrj", 0, "0", 0.0, ""])] for k in ks]}


# Key sets with prefix / suffix / substring relations, template words, comments and file names that CONTAIN variable
# names, values that contain variable names.  Small scope: keys over {v, vn, xv} in every dictionary order, words over
# LREL_WORDS; realistic scope: the infretis_* variables and user templates around them.
LREL_KEYS = ["v", "vn", "xv"]
LREL_WORDS = ["v", "vn", "xv", "vnx", "#v", "w"]
LREL_VALUES = ({"v": "7", "vn": "8", "xv": "9"},                 # plain
               {"v": "q_vn", "vn": "xv.d", "xv": "1v1"})         # values containing the names of other (and their own) variables
LREL_PAIR_LINES = ["v vn\n", "vn v\n", "xv vnx\n", "vnx #v\n", "w xv\n", "vn\n", "#v w\n", "v v\n"]

LMP_STANDARD = """# variables to be replaced by infretis
variable subcycles index infretis_subcycles
variable timestep index infretis_timestep
variable nsteps index infretis_nsteps
variable initconf index infretis_initconf
variable name index infretis_name
variable lammpsdata index infretis_lammpsdata
variable temperature index infretis_temperature
variable seed index infretis_seed

units real
read_data ${lammpsdata}
read_dump ${initconf} 0 x y z vx vy vz box yes
fix 2 all langevin ${temperature} ${temperature} 500.0 ${seed}
thermo ${subcycles}
dump 1 all custom ${subcycles} ${name}.lammpstrj id type x y z vx vy vz id
timestep ${timestep}
run ${nsteps}
"""
LMP_STD_SETTINGS = [["infretis_timestep", 0.5], ["infretis_nsteps", 4000], ["infretis_subcycles", 10], ["infretis_initconf", "/w0/conf.lammpstrj"],
                    ["infretis_name", "trial7"], ["infretis_lammpsdata", "/in/lammps.data"], ["infretis_temperature", 300.0], ["infretis_seed", 12345]]
LMP_USER_LINES = ["# my_infretis_nsteps_note: total length is 2 x nsteps\n", "variable restartfile index infretis_name_restart.bin\n", "log log.infretis_seed_check\n",
                  "variable out index ${name}_infretis_temperature.dat # infretis_temperature_scan\n", "shell mkdir x_infretis_name\n", "\n"]
LREAL_KEYS = ["infretis_n", "infretis_nsteps", "infretis_nsteps_out", "infretis_name", "my_infretis_name", "infretis_name2", "infretis_temperature",
              "infretis_temp", "infretis_seed", "infretis_initconf", "var_n", "var_nsteps", "var_nsteps_out", "n", "name"]
LREAL_WORDS = ["infretis_name_restart.bin", "log.infretis_seed_check", "${name}.lammpstrj", "${infretis_name}", "#infretis_nsteps", "my_infretis_nsteps_note:",
               "x_infretis_temperature_x", "var_nsteps2", "variable", "index", "run", "dump", "#", "2", "nsteps", "all", "fix", "${n}", "names"]
LREAL_VALUES = ["/scratch/infretis_temperature_scan/w0/conf.lammpstrj", "run_infretis_name_7", "trial7", 300.0, 4000, "infretis_seed_0", "var_nsteps_outer",
                0, "", "0.5", "n1", "my_name", "/data/var_n/infretis_n.data"]


def lammps_fixed_cases():
    std = [list(p) for p in LMP_STD_SETTINGS]
    out = [{"text": LMP_STANDARD, "settings": std}, {"text": LMP_STANDARD + "".join(LMP_USER_LINES), "settings": std},
           {"text": LMP_STANDARD + "".join(LMP_USER_LINES), "settings": std[::-1]}]
    pre = "variable n index var_n\nvariable nsteps index var_nsteps\nvariable nstepsout index var_nsteps_out\nrun ${nsteps}\n# var_n_total var_nsteps_outer\n"
    for order in itertools.permutations([["var_n", 3], ["var_nsteps", 500], ["var_nsteps_out", 50]]):
        out.append({"text": pre, "settings": [list(p) for p in order]})
    withname = [list(p) for p in LMP_STD_SETTINGS]
    withname[3] = ["infretis_initconf", "/scratch/infretis_temperature_scan/w0/conf.lammpstrj"]
    withname[4] = ["infretis_name", "run_infretis_seed_infretis_nsteps"]
    out += [{"text": LMP_STANDARD, "settings": withname}, {"text": LMP_STANDARD + "".join(LMP_USER_LINES), "settings": withname[::-1]}]
    # the same-line overlap (recorded finding) and its clean reordering
    out += [{"text": "run var_n var_nsteps\n", "settings": [["var_n", 3], ["var_nsteps", 500]]},
            {"text": "run var_n var_nsteps\n", "settings": [["var_nsteps", 500], ["var_n", 3]]}]
    return out


def lammps_small_scope(quick):
    out = []
    orders = [o for r in range(0, 4) for o in itertools.permutations(LREL_KEYS, r)]
    one = ["".join(w + sep for w, sep in zip(ws, seps)).rstrip(" ") + "\n" for n in (0, 1, 2) for ws in itertools.product(LREL_WORDS, repeat=n)
           for seps in ([" "] * n,)]
    two = [a + b for a in LREL_PAIR_LINES for b in LREL_PAIR_LINES]
    for order in orders:
        for vals in (LREL_VALUES if order else LREL_VALUES[:1]):
            st = [[k, vals[k]] for k in order]
            for t in one + (two if not quick or len(order) >= 2 else two[::3]):
                out.append({"text": t, "settings": st})
    return out


def gen_lammps_rel(rng):
    ks = rng.sample(LREAL_KEYS, rng.randrange(1, 6))
    vals = [v for v in LREAL_VALUES if v not in ks] if rng.random() < 0.9 else LREAL_VALUES + ks
    settings = [[k, rng.choice(vals)] for k in ks]
    lines = []
    for _ in range(rng.randrange(1, 9)):
        r = rng.random()
        if r < 0.4:         # definition line: one variable as a word (sometimes twice), other words around it
            k = rng.choice(ks)
            ln = ["variable", rng.choice(["a", "nsteps", "name", k[-3:]]), "index", k] + ([k] if rng.random() < 0.15 else [])
        elif r < 0.75:      # user line: words that contain variable names, no variable as a word
            ln = [rng.choice([w for w in LREAL_WORDS if w not in ks] + [k + "_x" for k in ks] + ["pre_" + k for k in ks] + ["${" + k + "}" for k in ks])
                  for _ in range(rng.randrange(1, 5))]
        elif r < 0.9:       # comment
            ln = ["#"] + [rng.choice(LREAL_WORDS + ks + [k + "s" for k in ks]) for _ in range(rng.randrange(0, 4))]
        else:               # anything
            ln = [rng.choice(LREAL_WORDS + LREAL_KEYS) for _ in range(rng.randrange(0, 5))]
        lines.append(rng.choice(["", "  ", "\t"]) + "".join(w + rng.choice([" ", "  ", "\t"]) for w in ln).rstrip(" ") + "\n")
    text = "".join(lines)
    if rng.random() < 0.2:
        text = text[:-1]
    return {"text": text, "settings": settings}


# --------------------------------------------------------------------------- K. extraction histories
#
# dump_config((file, k), deffnm=name) -> <Engine>._extract_frame for every engine that has one, as a
# sequence of operations on ONE worker directory: the output name is re-used move after move, may be left
# over by an earlier (crashed) move, may be an earlier output, the source may be an earlier output.  After
# every operation the output is read back with the engine's own readers and must be exactly frame k of the
# source as it was before the operation, and hold exactly one snapshot; the whole directory is compared
# with the model's (fx_run / fx_trace: files[out := [frame k of src]]).

FX_ENGINES = ("cp2k", "turtlemd", "lammps", "gromacs", "ase")
FX_SYMBOLS = ["H", "O", "Ar", "C", "He", "Na"]


def engine_shell(cls, **attrs):
    """a real engine object without running __init__ (which needs input files / executables)"""
    obj = object.__new__(cls)
    obj.description = "c19"
    for k, v in attrs.items():
        setattr(obj, k, v)
    return obj


def arr(rows):
    return np.array([[hf(v) for v in r] for r in rows], dtype=float).reshape(-1, 3)


class FxXyz:
    """CP2K and TurtleMD: extended xyz, source and output format are the same"""
    ext = src_ext = "xyz"
    mode = "exact"

    def __init__(self, spec):
        self.n = spec["n"]
        if spec["engine"] == "cp2k":
            from infretis.classes.engines.cp2k import CP2KEngine as cls
        else:
            from infretis.classes.engines.turtlemdengine import TurtleMDEngine as cls
        self.cls = cls

    def engine(self, d):
        return engine_shell(self.cls, exe_dir=d, ext="xyz")

    def write(self, path, frames, src=True):
        from infretis.classes.engines.engineparts import write_xyz_trajectory
        if os.path.exists(path):
            os.remove(path)
        for fr in frames:
            box = None if fr["box"] is None else np.array([hf(v) for v in fr["box"]])
            write_xyz_trajectory(path, arr(fr["pos"]), arr(fr["vel"]), fr["names"], box, step=fr.get("step"), append=True)

    def read_all(self, path):
        from infretis.classes.engines.engineparts import read_xyz_file
        out = []
        for s in read_xyz_file(path):
            names, xyz, vel, box = snap_arrays(s)
            out.append((tuple(names), xyz, vel, box))
        return out

    def count(self, path):
        return len(self.read_all(path))

    def conf(self, eng, path):
        xyz, vel, box, names = eng._read_configuration(path)
        return (tuple(names), xyz, vel, box)

    def expected_conf(self, sig):
        return sig


class FxLammps:
    ext = src_ext = "lammpstrj"
    mode = "exact"

    def __init__(self, spec):
        self.n = spec["n"]

    def engine(self, d):
        from infretis.classes.engines.lammps import LAMMPSEngine
        return engine_shell(LAMMPSEngine, exe_dir=d, ext="lammpstrj", n_atoms=self.n)

    def write(self, path, frames, src=True):
        from infretis.classes.engines.lammps import write_lammpstrj
        for k, fr in enumerate(frames):
            idt = np.array([[float(i), float(t)] for i, t in zip(fr["ids"], fr["types"])])
            write_lammpstrj(path, idt, arr(fr["pos"]), arr(fr["vel"]), np.array([[hf(v) for v in r] for r in fr["box"]], dtype=float), append=(k > 0))

    def read_all(self, path):
        from infretis.classes.engines.lammps import read_lammpstrj
        lines = rfile(path).split("\n")
        nfr = sum(1 for ln in lines if ln.startswith("ITEM: TIMESTEP"))
        if nfr == 0 or len(lines) != nfr * (self.n + 9) + 1:
            raise ValueError(f"{len(lines) - 1} lines are not {nfr} blocks of {self.n} atoms")
        out = []
        for j in range(nfr):
            idt, pos, vel, box = read_lammpstrj(path, j, self.n)
            out.append((tuple(map(tuple, idt.tolist())), pos, vel, box))
        return out

    def count(self, path):
        return sum(1 for ln in rfile(path).split("\n") if ln.startswith("ITEM: TIMESTEP"))

    def conf(self, eng, path):
        pos, vel, box, _ = eng._read_configuration(path)
        return (None, pos, vel, box)

    def expected_conf(self, sig):
        _, pos, vel, box = sig
        return (None, pos - box[:, 0], vel, box[:, 1] - box[:, 0])     # shift_boxbounds (dyadic values: exact)


class FxGromacs:
    """sources are .trr files (struct-packed), outputs .g96; an earlier .g96 output as source is copied"""
    ext, src_ext = "g96", "trr"
    mode = "g96"

    def __init__(self, spec):
        self.n = spec["n"]
        self.endian = spec.get("endian", "<")
        self.double = bool(spec.get("double", False))

    def top(self, n=None):
        labels = [g96_label(i) for i in range(self.n if n is None else n)]
        return {"TITLE": ["extracted"], "POSITION": labels, "VELOCITY": list(labels), "BOX": ["b"]}

    def engine(self, d):
        from infretis.classes.engines.gromacs import GromacsEngine
        return engine_shell(GromacsEngine, exe_dir=d, ext="g96", top=self.top())

    @staticmethod
    def box9(m):
        m = [float(v) for v in np.asarray(m).flat]
        return np.array([m[0], m[4], m[8], m[1], m[2], m[3], m[5], m[6], m[7]])

    def write(self, path, frames, src=True):
        if src:
            with open(path, "wb") as f:
                f.write(b"".join(trr_frame_bytes(self.endian, self.double, fr) for fr in frames))
            return
        from infretis.classes.engines.gromacs import write_gromos96_file
        text = ""
        for fr in frames:        # g96 holds one configuration; several are simply concatenated texts
            n = fr["natoms"]
            write_gromos96_file(path, self.top(n), np.array([hf(v) for v in fr["x"]]).reshape(n, 3),
                                np.array([hf(v) for v in fr["v"]]).reshape(n, 3), self.box9([hf(v) for v in fr["box"]]))
            text += rfile(path)
        wfile(path, text)

    def read_all(self, path):
        from infretis.classes.engines.gromacs import read_gromos96_file, read_trr_frame
        if path.endswith(".trr"):
            out = []
            for j in range(1000):
                h, dat = read_trr_frame(path, j)
                if h is None:
                    break
                n = h["natoms"]
                out.append((None, np.asarray(dat["x"], dtype=float).reshape(n, 3), np.asarray(dat["v"], dtype=float).reshape(n, 3), self.box9(dat["box"])))
            return out
        if self.count(path) != 1:
            raise ValueError("not one g96 configuration")
        _, xyz, vel, box = read_gromos96_file(path)
        return [(None, xyz, vel, np.asarray(box, dtype=float))]

    def count(self, path):
        lines = rfile(path).split("\n")
        return max(lines.count("POSITION"), lines.count("TITLE"), lines.count("VELOCITY"), lines.count("BOX"))

    def conf(self, eng, path):
        xyz, vel, box, _ = eng._read_configuration(path)
        return (None, xyz, vel, None if box is None else np.asarray(box, dtype=float))

    def expected_conf(self, sig):
        return sig


class FxAse:
    ext = src_ext = "traj"
    mode = "ase"      # velocities are stored as momenta: v*m/m may differ from v in the last bit

    def __init__(self, spec):
        self.n = spec["n"]

    def engine(self, d):
        from infretis.classes.engines.ase_engine import ASEEngine
        return engine_shell(ASEEngine, exe_dir=d, ext="traj")

    def write(self, path, frames, src=True):
        from ase import Atoms
        from ase.io import Trajectory
        with Trajectory(path, "w") as t:
            for fr in frames:
                a = Atoms(symbols=fr["names"], positions=arr(fr["pos"]), cell=[hf(v) for v in fr["box"]], pbc=True)
                a.set_velocities(arr(fr["vel"]))
                t.write(a)

    def read_all(self, path):
        from ase.io import Trajectory
        with Trajectory(path) as t:
            return [(tuple(a.get_chemical_symbols()), a.positions.copy(), a.get_velocities(), a.cell.diagonal().copy()) for a in t]

    def count(self, path):
        from ase.io import Trajectory
        with Trajectory(path) as t:
            return len(t)

    def conf(self, eng, path):
        pos, vel, box, _ = eng._read_configuration(path)
        return (None, pos, vel, box)

    def expected_conf(self, sig):
        return (None,) + tuple(sig[1:])


FX = {"cp2k": FxXyz, "turtlemd": FxXyz, "lammps": FxLammps, "gromacs": FxGromacs, "ase": FxAse}


def fx_close(a, b, mode):
    if (a is None) != (b is None):
        return False
    if a is None:
        return True
    a, b = np.asarray(a, dtype=float), np.asarray(b, dtype=float)
    if a.shape != b.shape:
        return False
    if mode == "exact":
        return bool(np.array_equal(a, b))
    if mode == "ase":
        return bool(np.allclose(a, b, rtol=1e-12, atol=1e-12))
    # g96: 9 decimals (half a unit of the last one, plus the spacing of doubles)
    return bool(np.all(np.abs(a - b) <= 0.5e-9 * (1 + 1e-6) + np.abs(b) * 2.0 ** -50))


def fx_same(s, t, mode, vel_sign=1.0):
    """two (labels, pos, vel, box) tuples hold the same configuration (labels compared when both have them)"""
    if s[0] is not None and t[0] is not None and tuple(s[0]) != tuple(t[0]):
        return False
    return fx_close(s[1], t[1], mode) and fx_close(s[2], vel_sign * np.asarray(t[2], dtype=float), mode) and fx_close(s[3], t[3], mode)


def case_extract_history(spec, tmp):
    c = Case("extract_history", spec)
    fx = FX[spec["engine"]](spec)
    mode = fx.mode
    d = os.path.join(tmp, "fxh")
    common.rmtree(d)
    os.makedirs(d)
    eng = fx.engine(d)
    names = spec["names"]                       # every file name of the history; its index is the model's name
    sources, pre, ops = spec["sources"], spec.get("pre", {}), spec["ops"]
    known = {}                                  # frame id -> (labels, pos, vel, box) as the package's reader returns it
    frozen = {}                                 # path -> (bytes, model content) of files whose content is opaque
    model0 = {}

    def path_of(name):
        return os.path.join(d, f"{name}.{fx.src_ext if name in sources else fx.ext}")

    def new_ids(sigs):
        out = []
        for s in sigs:
            known[len(known) + 1] = s
            out.append(len(known))
        return out

    def opaque_ids(k):
        out = []
        for _ in range(k):
            known[len(known) + 1] = None
            out.append(len(known))
        return out

    for name, frames in sources.items():
        fx.write(path_of(name), frames, src=True)
        sigs = fx.read_all(path_of(name))
        if len(sigs) != len(frames):
            c.fail(f"source {name}: wrote {len(frames)} frames, read {len(sigs)}")
            return c
        model0[name] = new_ids(sigs)
    for name, p in pre.items():
        if "junk" in p:
            with open(path_of(name), "wb") as f:
                f.write(p["junk"].encode("latin-1"))
            model0[name] = []
        else:
            fx.write(path_of(name), p["frames"], src=False)
            model0[name] = opaque_ids(len(p["frames"])) if p.get("opaque") else new_ids(fx.read_all(path_of(name)))
        if "junk" in p or p.get("opaque"):
            with open(path_of(name), "rb") as f:
                frozen[path_of(name)] = (f.read(), model0[name])

    parsed = {}                                 # file bytes -> frames (files are re-read only when they changed)

    def read_all(p):
        with open(p, "rb") as f:
            key = (p.endswith(".trr"), f.read())
        if key not in parsed:
            try:
                parsed[key] = fx.read_all(p)
            except Exception as e:  # noqa: BLE001
                parsed[key] = e
        if isinstance(parsed[key], Exception):
            raise parsed[key]
        return parsed[key]

    def which(sig, conf=False, vel_sign=1.0):
        return [i for i, s in known.items() if s is not None and fx_same(sig, fx.expected_conf(s) if conf else s, mode, vel_sign)]

    def identify(name):
        """the content of a file as a list of frame ids ('?' = a snapshot that is no known frame / unreadable)"""
        p = path_of(name)
        if p in frozen:
            with open(p, "rb") as f:
                if f.read() == frozen[p][0]:
                    return list(frozen[p][1])
        try:
            sigs = read_all(p)
        except Exception as e:  # noqa: BLE001
            return [f"?{type(e).__name__}"]
        out = []
        for s in sigs:
            w = which(s)
            out.append(w[0] if w else "?")
        return out

    def show(i):
        pres = {k: ("junk" if "junk" in v else f"{len(v['frames'])} {'unrelated' if v.get('opaque') else 'stale'} frame(s)") for k, v in pre.items()}
        return f"{spec['engine']} history {ops[:i + 1]} (sources {({k: len(v) for k, v in sources.items()})}, pre-existing {pres})"

    states, reads = [], []
    for i, (src, k, out) in enumerate(ops):
        try:
            before = read_all(path_of(src))
            want = before[k]
        except Exception as e:  # noqa: BLE001
            c.fail(f"{show(i)}: the source {src} has no readable frame {k} before the operation ({type(e).__name__}: {e})")
            break
        try:
            got_path = eng.dump_config((path_of(src), k), deffnm=out)
        except Exception as e:  # noqa: BLE001
            c.fail(f"{show(i)}: dump_config raised {type(e).__name__}: {e}")
            break
        if os.path.abspath(got_path) != os.path.abspath(path_of(out)) or not os.path.isfile(path_of(out)):
            c.fail(f"{show(i)}: dump_config returned {got_path!r}, expected {path_of(out)!r}")
            break
        # ---- the statement: the output holds exactly one snapshot and the engine's readers return frame k
        try:
            nsnap = fx.count(path_of(out))
        except Exception as e:  # noqa: BLE001
            nsnap = f"unreadable ({type(e).__name__})"
        try:
            conf = fx.conf(eng, path_of(out))
            conf_err = None
        except Exception as e:  # noqa: BLE001
            conf, conf_err = None, f"{type(e).__name__}: {e}"
        if conf is None:
            c.fail(f"{show(i)}: _read_configuration of the output raised {conf_err}; the file holds {nsnap} snapshot(s)")
            rid = "?"
        else:
            w = which(conf, conf=True)
            rid = w[0] if w else "?"
            same = fx_same(conf, fx.expected_conf(want), mode)
            if nsnap != 1 or not same:
                c.fail(f"{show(i)}: asked for frame {k} of {src} (frame id {which(want)}): the output {out}.{fx.ext} holds {nsnap} snapshot(s) (exactly 1 expected) and "
                       f"_read_configuration returns frame id {w or 'unknown'}"
                       + ("" if same else f": positions {np.asarray(conf[1]).tolist()} instead of {np.asarray(fx.expected_conf(want)[1]).tolist()}"))
        rev = os.path.join(d, f"r_{out}.{fx.ext}")
        try:
            eng._reverse_velocities(path_of(out), rev)
            rconf = fx.conf(eng, rev)
            if not fx_same(rconf, fx.expected_conf(want), mode, vel_sign=-1.0):
                c.fail(f"{show(i)}: frame {k} of {src} extracted and reversed is not (x, -v) of that frame: _reverse_velocities read frame id {which(rconf, conf=True, vel_sign=-1.0) or 'unknown'}")
        except Exception as e:  # noqa: BLE001
            c.fail(f"{show(i)}: _reverse_velocities / re-reading of the output raised {type(e).__name__}: {e}")
        if os.path.exists(rev):
            os.remove(rev)
        reads.append(rid)
        states.append({nm: identify(nm) for nm in names if os.path.exists(path_of(nm))})
    # ---- the model on the same history
    idx = {nm: j for j, nm in enumerate(names)}
    dir0 = ";".join(f"{idx[nm]}:{','.join(map(str, ids)) or '-'}" for nm, ids in model0.items()) or "-"
    opsq = ";".join(f"{idx[s]}.{k}.{idx[o]}" for s, k, o in ops) or "-"

    def chk(ans):
        trace, final = ans[0].split("=")
        steps = [] if trace == "-" else trace.split("|")
        if len(steps) != len(ops) or "N" in steps:
            return f"model: the history fails at operation {len(steps)} ({ans[0][:200]})"

        def parse_dir(s):
            out = {}
            for ent in ([] if s == "-" else s.split(";")):
                nm, ids = ent.split(":")
                out[names[int(nm)]] = [] if ids == "-" else [int(x) for x in ids.split(",")]
            return out
        for i, st in enumerate(steps):
            if i >= len(states):
                return f"implementation stopped after {len(states)} of {len(ops)} operations"
            r, ds = st.split("@")
            md = parse_dir(ds)
            if md != states[i]:
                return f"directory after operation {i} of {ops}: model {md} != implementation {states[i]}"
            if r != str(reads[i]):
                return f"frame read from the output after operation {i} of {ops}: model {r} != implementation {reads[i]}"
        return None if parse_dir(final) == states[-1] else f"final directory: model {final} != implementation {states[-1]}"
    c.ask([f"fxhist {dir0} {opsq}"], chk)
    c.tags += [f"fx_{spec['engine']}", f"fx_history_of_{len(ops)}"]
    for nm, p in pre.items():
        c.tags.append("fx_output_preexisting_" + ("junk" if "junk" in p else ("unrelated" if p.get("opaque") else "stale") + f"_{len(p['frames'])}"))
    outs_so_far = set()
    for s, k, o in ops:
        if s == o:
            c.tags.append("fx_source_is_the_output")
        elif s in outs_so_far:
            c.tags.append("fx_source_is_an_earlier_output")
        if o in outs_so_far:
            c.tags.append("fx_output_extracted_earlier")
        outs_so_far.add(o)
    c.sample = {"engine": spec["engine"], "ops": ops, "pre": {k: list(v) for k, v in pre.items()}, "directory_after": states[-1] if states else None}
    return c


def fx_frames(rng, engine, n, count, tag0):
    """`count` distinct frames of n atoms in the engine's frame spec; the first coordinate carries the frame's number"""
    out = []
    for j in range(count):
        g = tag0 + j
        if engine in ("cp2k", "turtlemd"):
            fr = gen_xyz_spec(rng, 1, n, "plain", rng.choice((0, 3, 9)))["frames"][0]
            fr["names"] = [rng.choice(NAMES) for _ in range(n)]
            fr["pos"][0][0] = fh(g + 0.5)
        elif engine == "lammps":
            fr = gen_lmp_spec(rng, 1, n, "plain", rng.choice((2, 3)), dyadic=True)["frames"][0]
            fr["pos"][0][0] = fh(g + 0.5)
        elif engine == "gromacs":
            fr = gen_trr_frame(rng, n, ("box", "x", "v"), 10 * g)
            fr["x"][0] = fh(g + 0.5)
        else:
            fr = {"names": [rng.choice(FX_SYMBOLS) for _ in range(n)], "pos": [[fh(rng.randrange(-400, 400) / 8) for _ in range(3)] for _ in range(n)],
                  "vel": [[fh(rng.randrange(-400, 400) / 64) for _ in range(3)] for _ in range(n)], "box": [fh(rng.randrange(8, 200) / 4) for _ in range(3)]}
            fr["pos"][0][0] = fh(g + 0.5)
        out.append(fr)
    return out


FX_JUNK = ["not a configuration\n", "3\n# truncated\nH 0.0 0.0", "\x00\x01\x02junk"]


def fx_world(rng, engine, n, nA, nB):
    """sources A, B and the candidates for pre-existing content of the output 'conf'"""
    w = {"engine": engine, "n": n, "sources": {"trajA": fx_frames(rng, engine, n, nA, 1), "trajB": fx_frames(rng, engine, n, nB, 11)}}
    if engine == "gromacs":
        w["endian"], w["double"] = rng.choice("<>"), rng.random() < 0.5
    st = fx_frames(rng, engine, n, 3, 21)
    un = fx_frames(rng, engine, n + 1, 2, 31)
    w["pres"] = [None, {"frames": st[:1]}, {"frames": un[:1], "opaque": True}, {"junk": rng.choice(FX_JUNK)}, {"junk": ""},
                 ({"frames": st[1:3], "opaque": True} if engine == "gromacs" else {"frames": st[1:3]})]
    return w


def fx_spec(w, pre, ops):
    sp = {k: w[k] for k in ("engine", "n", "sources", "endian", "double") if k in w}
    sp["names"] = ["trajA", "trajB", "conf", "genesis"]
    sp["pre"] = {} if pre is None else {"conf": pre}
    sp["ops"] = [list(o) for o in ops]
    return sp


def fx_choices(w, content, outs=("conf", "genesis")):
    """every valid next operation given the number of (readable) frames per file"""
    res = []
    for src, cnt in content.items():
        for k in range(cnt):
            for out in outs:
                if src == out and w["engine"] == "gromacs":
                    continue        # g96 -> g96 is shutil.copyfile: raises SameFileError on itself (outside the claim)
                res.append((src, k, out))
    return res


def fx_content0(w, pre):
    content = {nm: len(fr) for nm, fr in w["sources"].items()}
    if pre is not None and "frames" in pre and not pre.get("opaque"):
        content["conf"] = len(pre["frames"])
    return content


def fx_histories(w, pre, length):
    """all histories of exactly `length` valid operations"""
    def rec(content, k):
        if k == 0:
            yield []
            return
        for op in fx_choices(w, content):
            nxt = dict(content)
            nxt[op[2]] = 1
            for rest in rec(nxt, k - 1):
                yield [op] + rest
    return rec(fx_content0(w, pre), length)


def fx_random_history(rng, w, pre, length):
    content, ops = fx_content0(w, pre), []
    for _ in range(length):
        ch = fx_choices(w, content)
        into_conf = [o for o in ch if o[2] == "conf"]
        op = rng.choice(into_conf if (into_conf and rng.random() < 0.5) else ch)
        ops.append(op)
        content[op[2]] = 1
    return ops


def gen_extract_histories(rng, tier):
    q = tier == "quick"
    cases = []
    for engine in FX_ENGINES:
        nmin = 2 if engine == "lammps" else 1
        w = fx_world(rng, engine, nmin + 1, 3, 2)
        for pre in w["pres"]:
            for ops in fx_histories(w, pre, 1):
                cases.append(("extract_history", fx_spec(w, pre, ops)))
            two = list(fx_histories(w, pre, 2))
            # quick: every pair whose second operation writes where the first one wrote or where the old content is,
            # a seeded sample of the others; thorough: all pairs
            if q:
                keep = [h for h in two if h[1][2] == "conf" and (h[0][2] == "conf" or pre is not None)]
                rest = [h for h in two if h not in keep]
                cap = FX_QUICK_PAIRS[engine]
                if len(keep) > cap:
                    keep = rng.sample(keep, cap)
                two = keep + rng.sample(rest, min(len(rest), 12))
            two.sort(key=lambda h: h[0][:2] == h[1][:2])     # the same frame twice is the least telling history: last
            for ops in two:
                cases.append(("extract_history", fx_spec(w, pre, ops)))
        for _ in range(FX_QUICK_RANDOM[engine] if q else 400):
            n = rng.randrange(nmin, 6)
            w2 = fx_world(rng, engine, n, rng.randrange(1, 5), rng.randrange(1, 4))
            pre = rng.choice(w2["pres"])
            cases.append(("extract_history", fx_spec(w2, pre, fx_random_history(rng, w2, pre, rng.randrange(3, 8)))))
    return cases


# quick tier: pairs kept per pre-existing state of the output (the extended-xyz engines keep all of them) and
# number of random longer histories; the thorough tier runs every pair and 400 random histories per engine
FX_QUICK_PAIRS = {"cp2k": 400, "turtlemd": 400, "lammps": 40, "gromacs": 80, "ase": 40}
FX_QUICK_RANDOM = {"cp2k": 40, "turtlemd": 40, "lammps": 12, "gromacs": 20, "ase": 12}


# --------------------------------------------------------------------------- driver

CASE_FUNCS = {
    "fixed": case_fixed, "g96": case_g96, "xyz": case_xyz, "lammpstrj": case_lammpstrj, "swap": case_swap,
    "trr_decode": case_trr_decode, "trr_file": case_trr_file, "mdp": case_mdp, "cp2k_data": case_cp2k_data,
    "cp2k_tree": case_cp2k_tree, "lammps_in": case_lammps_in, "extract_history": case_extract_history,
}


def generate(rng, tier):
    """list of (kind, spec); exhaustive small scope first, seeded random beyond"""
    q = tier == "quick"
    cases = []
    # A. fixed-point fields: the formats of /repo plus a zero-decimals format (exercises ties)
    for w, d in ((15, 9), (9, 4), (8, 3), (6, 0), (12, 5)):
        vals = boundary_values(rng, w, d, 150 if q else 4000)
        if d == 0:
            vals += [k + 0.5 for k in range(-12, 13)]
        for i in range(0, len(vals), 40):
            cases.append(("fixed", {"w": w, "d": d, "values": [fh(v) for v in vals[i:i + 40]]}))
    # B. g96: every atom count 1..20, every box form, plain / edge / beyond-width values
    for n in range(1, 21):
        for mode in ("plain", "edge", "beyond") + (() if q else ("plain", "edge", "beyond", "huge")):
            for bc in ((rng.choice((0, 3, 9)),) if q else (0, 3, 9)):
                pos, vel = gen_config(rng, n, mode)
                cases.append(("g96", {"xyz": pos, "vel": vel, "box": gen_box(rng, bc, "negzero" if n % 5 == 0 else "plain"),
                                      "names": rng.choice([["SOL", "OW"], ["ARG", "CA"], ["X", "Y"]]), "title": rng.choice(["t", "a title = 1", "  padded"])}))
    # single-value sweep across the width limit in every column
    for v in boundary_values(rng, G96_W, G96_D, 0):
        for col in range(3):
            row = [fh(1.0)] * 3
            row[col] = fh(v)
            cases.append(("g96", {"xyz": [row], "vel": [[fh(0.0), fh(-0.0), fh(2.0)]], "box": [fh(3.0), fh(3.0), fh(3.0)]}))
            cases.append(("g96", {"xyz": [[fh(0.5)] * 3], "vel": [row], "box": None}))
    # C. xyz: frames 1..4, atoms 1..20, every frame index extracted, every magnitude
    for nf in range(1, 5):
        for n in (list(range(1, 21)) if not q else [1, 2, 3, 5, 8, 13, 20]):
            for mode in ("plain", "huge"):
                cases.append(("xyz", gen_xyz_spec(rng, nf, n, mode, rng.choice((0, 3, 9)))))
    # D. lammpstrj: atoms 2..20, id permutations, 3x2 and 3x3 boxes, frames 1..4
    for nf in range(1, 5):
        for n in (list(range(2, 21)) if not q else [2, 3, 4, 7, 12, 20]):
            cases.append(("lammpstrj", gen_lmp_spec(rng, nf, n, rng.choice(("plain", "huge")), rng.choice((2, 3)))))
            cases.append(("lammpstrj", gen_lmp_spec(rng, nf, n, "plain", 2, dyadic=True)))
    for perm in itertools.permutations(range(1, 5)):   # every order of four ids
        sp = gen_lmp_spec(rng, 1, 4, "plain", 2)
        sp["frames"][0]["ids"] = list(perm)
        cases.append(("lammpstrj", sp))
    # E. swap_integer: every byte value in every position, signed values, beyond 32 bits
    vals = [b << (8 * k) for k in range(4) for b in range(256)] + [1993, 3372679168, -1, -1993, -2 ** 31, 2 ** 31 - 1, 2 ** 32, 2 ** 32 + 5, 2 ** 40 + 1993]
    vals += [rng.randrange(0, 2 ** 32) for _ in range(300 if q else 3000)] + [rng.randrange(-2 ** 31, 0) for _ in range(50)]
    for i in range(0, len(vals), 200):
        cases.append(("swap", {"values": vals[i:i + 200]}))
    # F. TRR: the four variants; every truncation point of small frames; malformed headers; multi-frame files
    shapes = [("box", "x", "v"), ("x",), ("box", "vir", "pres", "x", "v", "f"), ("box",), ("v", "f"), ()]
    for e in "<>":
        for dbl in (False, True):
            for sh in shapes:
                for nat in ((1, 3) if q else (1, 2, 3, 7, 20)):
                    fr = gen_trr_frame(rng, nat, sh, rng.randrange(0, 10 ** 6), wide=dbl)
                    cases.append(("trr_decode", {"endian": e, "double": dbl, "frames": [fr], "wellformed": bool(sh), "tail": rng.choice(["", "00", "deadbeef"])}))
            fr = gen_trr_frame(rng, 1, ("box", "x", "v"), 7)
            full = len(trr_frame_bytes(e, dbl, fr))
            cases.append(("trr_decode", {"endian": e, "double": dbl, "frames": [fr], "cuts": list(range(0, full + 1))}))
            fr2 = gen_trr_frame(rng, 2, ("x",), 1)
            # a wrong magic number is only logged and the file then taken as little-endian (only generated
            # for little-endian data: otherwise every size is garbage of the order 2^24..2^31)
            for bad in (({"magic": 1994}, {"magic": 0}) if e == "<" else ()) + ({"version": "GMX_trn_fild"}, {"version": "GMX", "slen": [4, 3]}, {"slen": [1, 12]}, {"slen": [0, 0]},
                        {"slen": [14, 12]}, {"ints": {"10": 0}}, {"ints": {"7": 20}}, {"ints": {"7": 25}}, {"ints": {"2": 35}}, {"ints": {"2": 72, "7": 24}},
                        {"ints": {"7": 0, "8": 24 * (2 if dbl else 1)}}, {"ints": {"7": -24}}, {"ints": {"3": 36}}, {"ints": {"10": 1000}}):
                cases.append(("trr_decode", {"endian": e, "double": dbl, "frames": [dict(fr2, **bad)]}))
    for nf in range(1, 5):
        for rep in range(2 if q else 20):
            nat = rng.randrange(1, 21)
            frames = [gen_trr_frame(rng, nat, rng.choice([("box", "x", "v"), ("box", "x", "v", "f"), ("box", "vir", "pres", "x", "v")] + ([("x",), ("box", "x")] if rep else [])), 10 * k) for k in range(nf)]
            cases.append(("trr_file", {"frames": frames, "g96_variant": rng.choice("<>"), "g96_double": rng.random() < 0.5}))
    # G. mdp: every template of <= 2 lines over a small alphabet x every subset of keys, with and without final newline
    tmpls = [""] + ["".join(t) for k in (1, 2) for t in itertools.product(MDP_LINES, repeat=k)]
    tmpls += [t[:-1] for t in tmpls if t.endswith("\n") and len(t) > 1]
    for t in tmpls:
        for r in range(len(MDP_KEYS) + 1):
            for ks in itertools.combinations(MDP_KEYS, r):
                cases.append(("mdp", {"text": t, "settings": [[k, "9"] for k in ks]}))
    # ... and the same templates x every non-empty subset of keys with a falsy requested value (0, 0.0, "", None,
    # False: `if value:` is not `if key in settings`) and with the truthy strings "0" / "0.0" / " "; all keys the
    # same value for templates of <= 1 line and (thorough) 2 lines, mixed with a non-zero value for 2 lines
    one_line = [t for t in tmpls if len(t.splitlines()) <= 1]
    two_line = [t for t in tmpls if len(t.splitlines()) == 2]
    for t in one_line + ([] if q else two_line):
        for r in range(1, len(MDP_KEYS) + 1):
            for ks in itertools.combinations(MDP_KEYS, r):
                for v in MDP_FALSY + MDP_ZEROISH:
                    cases.append(("mdp", {"text": t, "settings": [[k, v] for k in ks]}))
    for j, t in enumerate(two_line):
        for ks in itertools.combinations(MDP_KEYS, 2):
            for i, v in enumerate(MDP_FALSY + MDP_ZEROISH[:1]):
                if q and (i + j) % 3:
                    continue
                cases.append(("mdp", {"text": t, "settings": [[ks[0], v], [ks[1], "9"]]}))
                cases.append(("mdp", {"text": t, "settings": [[ks[0], "9"], [ks[1], v]]}))
    # the engine's own requests on a grompp-like template (write_vel/write_force = False, zero-step genvel input)
    grompp = "integrator = md\ndt = 0.002\nnsteps = 10000\nnstxout = 10\nnstvout = 10\nnstfout = 5\ndefine = -DFLEXIBLE\ngen_vel = no\n"
    for st in ([["nstxout", 5], ["nstvout", 0], ["nstfout", 0], ["nsteps", 200]], [["nsteps", 0], ["gen_vel", "yes"], ["gen_seed", 0]],
               [["define", ""]], [["nstcalcenergy", 0], ["nstenergy", 0.0], ["dt", 0.0]], [["gen_vel", False], ["define", None]]):
        cases.append(("mdp", {"text": grompp, "settings": st}))
        cases.append(("mdp", {"text": grompp[:-1], "settings": st}))
    for _ in range(300 if q else 12000):
        cases.append(("mdp", gen_mdp_random(rng)))
    # H. CP2K data lines: all sections of <= 2 (quick) / 3 lines over a small alphabet x all dicts over three keys
    for dct in ([["STEPS", 50], ["TIMESTEP", 0.5]], [["MD", 10]], [["A", "x  y"], ["B", None]]):
        cases.append(("cp2k_data", {"lines": [], "data": dct, "new": True}))
        cases.append(("cp2k_data", {"lines": ["STEPS 1", "MD 2 3"], "data": dct, "new": False}))
    alpha = ["A 1", "AB 2", "A", "B x y", "  A   7", "C  3"]
    secs = [[]] + [list(t) for k in range(1, 3 if q else 4) for t in itertools.product(alpha, repeat=k)]
    dicts = [[]]
    for r in range(1, 4):
        for ks in itertools.permutations(["A", "AB", "C"], r):
            for vs in itertools.product(["5", None], repeat=r):
                dicts.append([[k, v] for k, v in zip(ks, vs)])
    if q:
        dicts = dicts[:1] + rng.sample(dicts[1:], 25)
    for sec in secs:
        for dct in dicts:
            cases.append(("cp2k_data", {"lines": sec, "data": dct, "new": False}))
    for dct in dicts:
        cases.append(("cp2k_data", {"lines": [], "data": dct, "new": True}))
    # falsy values that are not None are values (0, 0.0, "", False) - only None means "keyword alone"
    for sec in [s_ for s_ in secs if len(s_) <= 1] + [["A 1", "C  3"], ["AB 2", "A"]]:
        for ks in (["A"], ["C"], ["A", "AB"], ["C", "A"]):
            for v in (0, 0.0, "", False, "0"):
                cases.append(("cp2k_data", {"lines": sec, "data": [[k, v] for k in ks], "new": False}))
    for v in (0, 0.0, "", False, "0"):
        cases.append(("cp2k_data", {"lines": [], "data": [["A", v], ["B", "1"]], "new": True}))
    # I. CP2K trees (nested / repeated sections, comments, blank lines, mixed case)
    fixed_tree = ("&GLOBAL\n  PROJECT x\n&END GLOBAL\n&MOTION\n  &MD\n    STEPS 10\n  &END MD\n&END MOTION\n&FORCE_EVAL\n &SUBSYS\n  &KIND H\n    MASS 1\n  &END KIND\n"
                  "  &KIND O\n    MASS 16\n  &END KIND\n &END SUBSYS\n&END FORCE_EVAL\n")
    for ups, rms in (([["FORCE_EVAL->SUBSYS->KIND->H", [], False, True, [["MASS", "2"]], []]], []),
                     ([["FORCE_EVAL->SUBSYS->KIND->O", [], False, True, [["MASS", "2"], ["ELEMENT", "O"]], []]], ["FORCE_EVAL->SUBSYS->KIND->H"]),
                     ([["MOTION->PRINT->RESTART->EACH", [], False, True, [["MD", 5]], []], ["MOTION->MD", [], False, True, [["STEPS", 50], ["TIMESTEP", 0.5]], []],
                       ["GLOBAL", [], True, False, [], ["PROJECT y", "RUN_TYPE MD"]]], ["EXT_RESTART", "FORCE_EVAL->SUBSYS->COORD"]),
                     ([], ["MOTION"]), ([], [])):
        cases.append(("cp2k_tree", {"text": fixed_tree, "updates": ups, "removes": rms}))
    for _ in range(250 if q else 10000):
        cases.append(("cp2k_tree", gen_cp2k_tree(rng)))
    # J. LAMMPS input templates
    small = ["variable dt equal infretis_timestep\n", "run infretis_nsteps\n", "# infretis_timestep infretis_timestep\n", "\n", "  fix 1 all nve\n"]
    for k in (0, 1, 2):
        for t in itertools.product(small, repeat=k):
            for r in range(3):
                for ks in itertools.combinations(LMP_VARS[:3], r):
                    cases.append(("lammps_in", {"text": "".join(t), "settings": [[kk, "7"] for kk in ks]}))
                    if ks and k <= 1:
                        for v in (0, 0.0, "0"):
                            cases.append(("lammps_in", {"text": "".join(t), "settings": [[kk, v] for kk in ks]}))
    for _ in range(300 if q else 8000):
        cases.append(("lammps_in", gen_lammps_in(rng)))
    # J2. LAMMPS: related key sets, words / comments / values containing variable names, dictionary orders
    cases += [("lammps_in", sp) for sp in lammps_fixed_cases()]
    cases += [("lammps_in", sp) for sp in lammps_small_scope(q)]
    for _ in range(700 if q else 12000):
        cases.append(("lammps_in", gen_lammps_rel(rng)))
    # K. extraction histories in one worker directory, every engine with an _extract_frame
    cases += gen_extract_histories(rng, tier)
    return cases


def run_cases(cases, runner, tmp):
    """-> list of (Case, correspondence error or None)"""
    built = []
    for kind, spec in cases:
        try:
            built.append(CASE_FUNCS[kind](spec, tmp))
        except Exception as e:  # noqa: BLE001  the implementation (or the harness) crashed on this input
            c = Case(kind, spec)
            import traceback
            c.fail(f"implementation raised {type(e).__name__}: {e} [{traceback.format_exc(limit=3)[-400:]}]")
            built.append(c)
    reqs = [r for c in built for g in c.groups for r in g[0]]
    outs = runner.run(reqs) if reqs else []
    res, at = [], 0
    for c in built:
        err = None
        for rq, chk in c.groups:
            ans = outs[at:at + len(rq)]
            at += len(rq)
            if err is None:
                bad = [a for a in ans if a.startswith("ERR")]
                try:
                    err = f"model runner error {bad[0]} on {rq[0][:80]}" if bad else chk(ans)
                except Exception as e:  # noqa: BLE001
                    err = f"cannot compare model answer {ans[0][:120]!r}: {type(e).__name__} {e}"
                if err:
                    err = f"{err}  [request: {rq[0][:300]}]"
        res.append((c, err))
    return res


def run(ctx):
    common.proof_stage(ctx, "C19", ["extract/c19.vo"])
    runner = common.runner_stage(ctx, "c19")
    if runner is None:
        return
    tmp = common.scratch_dir("c19_")
    try:
        cases = generate(ctx.rng, ctx.tier)
        results = []
        for i in range(0, len(cases), 400):
            results += run_cases(cases[i:i + 400], runner, tmp)
    finally:
        common.rmtree(tmp)
    rep_o, rep_c, ncorr, nreq = {}, {}, 0, 0
    kinds_with_input = {c.kind for c, _ in results if c.oracle}
    for c, cerr in results:
        ctx.count((c.kind, json.dumps(c.spec, sort_keys=True)), nontrivial=bool(c.groups))
        ctx.dist(c.kind)
        for t in c.tags:
            ctx.dist(t)
        nreq += sum(len(g[0]) for g in c.groups)
        if c.oracle:
            rep_o[c.kind] = rep_o.get(c.kind, 0) + 1
            if rep_o[c.kind] <= MAXREP:
                ctx.violation(f"C19 statement fails on the implementation ({c.kind}): {c.oracle}", {"kind": c.kind, "spec": c.spec, "observed": c.oracle}, True)
        elif cerr:
            ncorr += 1
            rep_c[c.kind] = rep_c.get(c.kind, 0) + 1
            # DESIGN 2.4: a broken correspondence triggers the search for a failing input of the property;
            # when the oracle exhibits one for this codec, that input is the report
            if rep_c[c.kind] <= MAXREP and c.kind not in kinds_with_input:
                ctx.violation(f"correspondence model/implementation broken ({c.kind}; the oracle found no failing input for this case): {cerr}",
                              {"kind": c.kind, "spec": c.spec, "correspondence": cerr}, False)
    nknown = 0
    listed = [k for k in common.load_findings().get("known", []) if "property=C19" in k and "write_for_run" in k]
    for c, _ in results:
        if getattr(c, "known", None) and not c.oracle:
            nknown += 1
            if listed:
                ctx.known(c.known)
            elif nknown <= 3:
                # not (or no longer) a recorded finding: a violation like any other
                ctx.violation(f"C19 statement fails on the implementation ({c.kind}): {c.known}", {"kind": c.kind, "spec": c.spec, "observed": c.known}, True)
    seen = set()
    for c, _ in results:
        if c.sample and c.kind not in seen:
            seen.add(c.kind)
            ctx.sample({"kind": c.kind, **c.sample}, cap=8)
    ctx.cov["rule"] = ("one evaluation = one generated file / template / byte string pushed through the real functions and the extracted model, with the statement evaluated on the "
                       "implementation's result; distinct by (kind, spec); non-trivial = at least one model comparison was made. Exhaustive small scope: every atom count 1-20 (2-20 lammpstrj), "
                       "every boundary magnitude of the format width in every column, every frame index of 1-4 frame files (and one beyond), all 24 id orders of four atoms, every byte in every "
                       "position for swap_integer, every truncation point of a TRR frame in the four (byte order x precision) variants, every mdp template of <= 2 lines over an 8-line alphabet "
                       "(with and without final newline) x every subset of 3 keys, the same templates (<= 1 line quick, <= 2 lines thorough) x every non-empty subset x every falsy value "
                       "(0, 0.0, '', None, False) and zero-like string ('0', '0.0', ' '), 2-line templates with a falsy value mixed with a non-zero one, the engine's own zero requests on a grompp-like template, every CP2K section of <= 2-3 lines over a 6-line alphabet x dicts over 3 keys (incl. None values, all key orders), "
                       "every LAMMPS template of <= 2 lines over 5 lines x variable subsets; LAMMPS key sets with prefix / suffix / substring relations ({v, vn, xv} in every dictionary order, plain values and values containing variable names) x every line of <= 2 words over {v, vn, xv, vnx, #v, w} and pairs of 8 such lines, fixed realistic templates (standard template + user lines, prefix keys in all orders, path values containing variable names), 700 / 12000 random related templates; extraction histories for each of the five engines (CP2K, TurtleMD, LAMMPS, GROMACS, ASE) in one directory with "
                       "sources trajA (3 frames) and trajB (2 frames), outputs conf / genesis, the output conf initially absent / one stale frame / one frame of an unrelated system / junk / empty / a stale 2-frame trajectory: "
                       "every single extraction, every pair of extractions (sources: both trajectories and every earlier output incl. the output itself, every frame index, both outputs; quick tier: all pairs ending in the "
                       "pre-existing or just-written output for the extended-xyz engines, a seeded sample of them for the others and of the remaining pairs; thorough: all pairs), and random histories of 3-7 operations "
                       "with 1-5 atoms, 1-4 / 1-3 source frames; seeded random beyond (values up to 1e15, random mdp/CP2K/LAMMPS grammars).")
    ctx.cov["correspondence"] = {"cases": len(results), "model_requests": nreq, "disagreeing_cases": ncorr, "oracle_failures": sum(rep_o.values()), "oracle_failures_by_kind": rep_o,
                                 "lammps_same_line_overlap_cases_showing_the_recorded_finding": nknown}
    ctx.cov["trusted_base"] += ["extraction: ExtrOcamlBasic only; ocaml/util.ml + ocaml/c19_driver.ml",
                                "py/checks/c19.py: generators, file skeletons (section keywords of .g96, count/header lines of .xyz), struct-packed TRR files, IEEE decoding of the model's byte groups, "
                                "independent CP2K tree parser + canonical sibling order, tokenisation of LAMMPS lines into white-space / token pieces, engine objects made with object.__new__ for the extraction histories, "
                                "identification of the frames held by a file by value with the package's own multi-frame readers (ASE: ase.io.Trajectory)",
                                "py/params_c19.py (format constants from /repo's ASTs, fail closed)",
                                "Python format()/float(), numpy astype(str)/genfromtxt, struct (checked per value against the model's exact rationals, not proved)"]
    ctx.assumptions += ["ASCII text; no '\\r'; plain decimal literals (no exponent/inf/nan in fixed-width fields)",
                        "g96 label prefix is exactly 24 characters (format contract)", "lammpstrj: >= 2 atoms, box present, ids distinct",
                        "CP2K: at most two sections share a title path and then differ in their settings; targets upper case and not extending a settings-qualified key; replace=True with list data",
                        "LAMMPS: values are free of white space; the whole-word statement is demanded on lmp_line_clean templates (the others show the recorded same-line finding); idempotence is demanded when no value is itself a requested variable",
                        "TRR: natoms >= 0 and sizes below 2^31; reals are compared as bit patterns",
                        "extraction histories: every operation names an existing source and a frame it holds; GROMACS: the source of an extraction is never its own output (.g96 -> .g96 is a copy); "
                        "AMS engine not exercised (needs an AMS worker)"]


def replay(doc):
    rp = doc.get("replay", {})
    print(json.dumps({k: v for k, v in doc.items() if k != "replay"}, indent=1))
    kind, spec = rp.get("kind"), rp.get("spec")
    if kind not in CASE_FUNCS:
        print(json.dumps(rp, indent=1, default=str))
        return 0
    print("case:", kind, json.dumps(spec)[:2000])
    runner = common.Runner("c19")
    tmp = common.scratch_dir("c19r_")
    try:
        (c, cerr), = run_cases([(kind, spec)], runner, tmp)
    finally:
        common.rmtree(tmp)
    print("statement on the implementation:", c.oracle or "holds")
    print("model vs implementation:", cerr or "agree")
    return 1 if (c.oracle or cerr) else 0
