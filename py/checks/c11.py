"""C11 — zero swaps exchange the crossing frames and are reversible.

Theorems: coq/theorems/C11.v (model coq/model/SwapM.v on top of PathM / EngineM / WeightM).
Tie: scripted-oracle lock-step of the REAL infretis.core.tis.select_shoot / retis_swap_zero /
quantis_swap_zero (scripted engines replaying prescribed frame streams through the real
add_to_path, scripted random numbers, np.exp observed) against the extracted model, plus the
property's own statement evaluated on the implementation's results (junction identity,
validity, thresholds, early 0-L reject without propagation, double-swap identity with
deterministic time-reversible plug-in engines).

[0-] and [0+] always get two DISTINGUISHABLE engine objects (legal in infretis through
simulation.ensemble_engines): every propagate call and every produced frame records the identity
of the object, the model answers which object each call is made on (c_eng), and the oracle states
which engine must have produced which frames: everything of the new [0-] path beyond the shared
point old[0+][1] comes from the [0-] engine, everything of the new [0+] path beyond the shared
point old[0-][-2] from the [0+] engine.  The double swap is run with one dynamics for both
objects and with two different dynamics (one per ensemble): new paths must be trajectories of
their own ensemble's dynamics and two swaps must restore both original order sequences.

The two length limits are independent inputs (picked[-1]["ens"]["tis_set"]["maxlength"] for [0-],
picked[0]["ens"]["tis_set"]["maxlength"] for [0+]): gen_limits runs every ordered pair of a grid around the
lengths the two new paths need, and limits_oracle states the outcome from the property alone: each new path is
measured against ITS OWN ensemble's limit; a path that cannot be completed below it rejects the swap (BTX for
[0-], FTX for [0+]); otherwise the swap is accepted with exactly the complete paths.  Exceptions, exhausted
engines and answers outside the move's answer domain on such inputs are findings with their input.  The oracle
is active for EVERY pair of limits (the model and all theorems are about the code after
proposed_fixes/C11_zero_swap_own_limits.diff, which sizes and measures each new path by its own ensemble's limit).

Start condition of [0-] (gen_start_cond): a finite left interface lambda_-1 for [0-] together with the start conditions
"R", "L" and ["L", "R"] (infretis' own set-up gives a finite lambda_-1 only with ["L", "R"]; a caller that builds the
ensemble dicts itself can give any, and shoot handles all three), retis and QuanTIS (one and two levels of theory),
scripted backward dynamics from the first [0+] frame that end left of lambda_-1, right of lambda_0 or run out of length.
Oracle, independent of the model: an ACCEPTED swap leaves a new [0-] path that starts on a side the [0-] ensemble's OWN
start condition allows (and ends right of lambda_0, interior inside; new [0+] starts left of lambda_0 ...); a complete
new [0-] path that left through lambda_-1 although "L" is not an allowed start rejects the swap with 0-L.  The
start-side clause is applied for the start conditions "R" and ["L", "R"] (what infretis builds).  C11 does not quantify
over start conditions: the "L"-alone cases stay in the family for the model lock-step and for every OTHER clause of the
oracle, the start-side clause is not applied to them; that both moves accept a new [0-] path starting on the right
there is recorded once under coverage.observations (theorem C11_start_cond_L_only_refuted documents it); it is neither a
violation nor a known finding.

Real files (oracle only, no model comparison): `real_files_stage` runs retis and quantis zero swaps, single and
double, with two REAL file-writing TurtleMDEngine objects (double-well example; same parameters and two different
levels of theory) that share one worker directory per move, and evaluates the statement on the configurations the
returned frames refer to: every frame's (file, index) exists and holds the configuration with the frame's order
parameter, no two propagate calls of a move wrote the same file, the junction frames are the old paths' frames as
configurations (x, v), two swaps restore both order sequences within 1e-6.

The model also carries the code before that repair (select_swap_g false false, request `swap0`; refuted by
C11_swap_valid_limit_order_refuted / C11_quantis_limit_order_refuted).  Which of the two the tree under test has
is found by ONE probing call per move (`probe_variant`); only the lock-step (which model variant the real
functions are compared with) depends on the probe, the oracle never does: a tree without the repair is reported
by the oracle with concrete failing inputs.
"""
import importlib.util  # noqa: F401
import itertools
import re
import types
from fractions import Fraction

import common

META = {
    "id": "C11",
    "level": "proof",
    "technique": "Coq theorems over a literal model of retis_swap_zero / quantis_swap_zero (stop-rule invariants, abstract reversible dynamics: one engine and two different engines, one per ensemble) + scripted-oracle lock-step of the extracted model vs the real functions with two distinguishable engine objects + oracle-only zero swaps with real file-writing TurtleMD engines in one shared worker directory",
    "text": "Unbounded theorems (any paths, interface values, length limits, engine frame streams, draws, energies) about an executable model of the two zero-swap moves over the current add_to_path stop rule: junction identity as frame identities and as order values (C11_swap_junction_frames, C11_swap_junction), full shape of an accepted swap and the converse sufficient conditions (C11_swap_accepted_shape, C11_swap_accepted_if), validity of both new paths, each below ITS OWN ensemble's length limit (C11_swap_valid; the two limits maxlength([0-]) and maxlength([0+]) are separate inputs of the model and every theorem holds for EVERY pair of limits), a swap that cannot complete a new path below that path's own limit is rejected BTX / FTX (C11_swap_limit_reject), the code before proposed_fixes/C11_zero_swap_own_limits.diff (kept in the model behind the boolean `fixed`: backward container of retis_swap_zero sized with the [0+] limit, quantis_swap_zero reading the [0-] limit for both paths) accepts an incomplete [0-] path / measures the [0+] path against the wrong limit, while the code handles the same inputs correctly (C11_swap_valid_limit_order_refuted, C11_quantis_limit_order_refuted), and coincides with the code when the two limits are equal (C11_before_fix_same_on_equal_limits), the variant that sizes the forward container of the new [0+] path with the [0-] limit accepts an incomplete [0+] path (C11_forward_segment_minus_limit_refuted; C11_variant_is_code_at_plus_limit ties the variant definition to the code), lambda_-1 early rejection with no engine call and no draw (C11_lambda_m1_test, C11_lambda_m1_reject), QuanTIS energy rule u <= min(1,E) with the exponent's signs and the frames the four energies are read from (C11_quantis_accept_iff, C11_quantis_exponent), QuanTIS junction (C11_quantis_junction) and each new path below its own limit for any two limits (C11_quantis_own_limits), validity of the new [0-] path of an accepted QuanTIS swap in ITS OWN ensemble, for any (finite or -inf) left interface lambda_-1 of [0-] and any start condition of [0-]: first frame strictly outside [lambda_-1, lambda_0], interior inside, last frame right of lambda_0, and unless 'L' is in the start condition OF [0-] (ens_set0, not ens_set1) the first frame lies right of lambda_0, i.e. a new [0-] path that left through lambda_-1 is never accepted by an ensemble that only admits starts on the right (C11_quantis_valid_minus; C11_quantis_start_cond: the new [0-] path starts on a side its own start condition allows for the start conditions 'R' and ['L','R']; retis: C11_swap_valid), while with the start condition 'L' ALONE, which is outside C11's quantifier and which infretis never builds, both moves accept a new [0-] path that starts on the right (C11_start_cond_L_only_refuted: concrete witness for retis_swap_zero and quantis_swap_zero, documentation only, see note), and for an abstract deterministic time-reversible engine (state space X, step T, reversal R with R.R = id, R.T.R.T = id, ord.R = ord) that the swap back is accepted and restores both order sequences (C11_swap_twice_id, C11_swap_twice_restores). Which engine object does what is part of the model (every modelled propagate call names the object it is made on: E0 = engines[-1][0] for [0-], E1 = engines[0][0] for [0+]): an accepted swap runs backward on E0 and forward on E1, every frame of the new [0-] path but the shared point old[0+][1] is a frame of the E0 call's answer and every frame of the new [0+] path but the shared point old[0-][-2] one of the E1 call's (C11_swap_engines); QuanTIS calls E0, E1, E0, E1 (C11_quantis_engines, C11_quantis_junction). With TWO different deterministic dynamics (T0,R0) for [0-] and (T1,R1) for [0+] over one phase space (simulation.ensemble_engines): the streams are the answers of exactly the engines the calls are made on (C11_two_engines_calls), the new [0-] path is the backward T0-trajectory from old[0+][0] plus the shared point and the new [0+] path the shared point plus the forward T1-trajectory from old[0-][-1] (C11_two_engines_segments), and if old [0-] is a T0-trajectory and old [0+] a T1-trajectory the swap back is accepted and both order sequences are restored, assuming time-reversibility of the [0-] engine only (C11_swap_twice_id_two_engines, C11_swap_twice_restores_two_engines; one engine is the special case T0=T1, C11_one_engine_special_case). The model is tied to /repo by running the extracted model and the real select_shoot/retis_swap_zero/quantis_swap_zero on the same old paths, settings, engine streams, draws and energies (all valid [0-]/[0+] pairs over a small integer alphabet, limits incl. exact hits, INDEPENDENT limits for the two ensembles (every ordered pair (maxlength[0-], maxlength[0+]) of a grid needed-1 / needed / needed+1 / needed+2 / much larger around the lengths the two new paths need, for all 8x8 backward x forward stream patterns incl. new paths of the minimal 3 frames, retis and quantis), lambda_minus_one on/off, a finite lambda_-1 for [0-] with each of the start conditions 'R', 'L' and ['L','R'] x retis and QuanTIS (one level of theory: V0 = V1, equal betas; two levels: different energies and betas with E = 1, E < 1 with the draw below / above E, accept_all) x scripted backward dynamics from the first [0+] frame that end LEFT of lambda_-1 (4 patterns, incl. a 3-frame new [0-] path), RIGHT of lambda_0 (3) or never leave the interfaces (2: cut off by the limit) x 4 forward patterns x 3 old [0+] x 2 old [0-] paths x limits around the needed lengths, outcome fixed by the statement (accepted iff both complete new paths are below their own limits AND, for the start conditions 'R' and ['L','R'], the new [0-] path starts on a side its own ensemble's start condition allows; a path that left through lambda_-1 under start condition 'R' must be answered 0-L with exactly the complete path; the 'L'-alone cases are compared with the model and judged by every other clause only), wf high-acceptance swap, quantis with draws around the Metropolis threshold), always with two distinguishable engine objects whose identity is logged per call and per frame and compared with the model's, and by evaluating the property's statement on the implementation's outputs (incl. which engine produced which frames), including double swaps of the real functions with deterministic reversible integer engines: one dynamics for both ensembles and two different dynamics (one per ensemble; new paths must be trajectories of their own ensemble's dynamics, two swaps must restore both sequences; every retis swap of these also compared with the model). ORACLE ONLY, REAL FILES (no model comparison for this family): retis and quantis zero swaps, each run twice (swap and swap back), by two real file-writing TurtleMDEngine objects (double-well system of examples/turtlemd/double_well, built by infretis' engine factory; once with the same parameters for [0-] and [0+], once with two distinguishable levels of theory: timestep 0.025 / potential b=2.0 for [0-], timestep 0.02 / b=2.1 for [0+]) that share ONE worker directory per move as a worker's engines do, from start paths grown by each ensemble's own dynamics through fixed configurations (no random numbers anywhere); on the returned paths: (1) every frame refers to a file that exists and the configuration read back from (file, index) with the engine's own reader has the order parameter stored in the frame, (2) no two propagate calls of one move created or changed the same file (EngineBase.propagate wrapped: directory listing with size, mtime and content hash before/after each call), (3) the junction on the configurations (x, v) read from the files: new[0+][0] = old[0-][-2] and new[0-][-2] = old[0+][0], and (retis, and quantis with one dynamics) new[0+][1] = old[0-][-1], new[0-][-1] = old[0+][1], (4) a valid pair is swapped (the only admitted rejection is QS0/QS1 of the first quantis swap with two levels of theory), the swap back is accepted and restores both order sequences within 1e-6 (same lengths).",
    "note": "Trusted: Coq kernel; extraction (ExtrOcamlBasic) + OCaml driver; this harness (scripted engines built on plugins.engines.ScriptedEngine and the real add_to_path, scripted rgen, np.exp shim, canonicalisation). No axioms (every Print Assumptions is closed). exp is not modelled: its value E is computed by numpy exactly as the code does and handed to the model as the exact rational of that float; the exponent is compared exactly (dyadic energies/betas). -inf is represented in the model by an integer below every order value of the case. The order-value form of the junction assumes that an engine's first frame carries the order parameter of the phase point it was started from (propagate contract, C12); validity theorems assume ordered interfaces; no theorem and no oracle clause restricts the two length limits (infretis itself hands both ensembles one shared tis_set, i.e. equal limits; unequal limits arise when a caller builds the ensemble dicts itself). Model and theorems are about the code AFTER proposed_fixes/C11_zero_swap_own_limits.diff (retis_swap_zero sizes the backward container with maxlen0 - 1, quantis_swap_zero reads maxlen1 from ens_set1). The code before that repair is the same model at fixed = false (retis_swap_zero_before_fix / quantis_swap_zero_before_fix, request swap0), kept for the two refutation witnesses about the ORIGINAL code. Variant of the code under test: C11 has no generated-parameter file; the check probes the real functions ONCE each (retis_swap_zero with limits 12/5: size of the container handed to the backward run, 11 = repaired, 4 = before the repair; quantis_swap_zero with limits 8/4: size of the container handed to the forward run, 3 = repaired, 7 = before); an unrepaired answer makes the LOCK-STEP compare that move with the before-fix variant of the model so that the correspondence stays meaningful; any other answer keeps the repaired model (and shows up in the lock-step). The oracle never depends on the probe: it always demands that each new path is complete and below its own ensemble's limit, so a tree without the repair is reported with concrete failing inputs (VIOLATION); the probe's answers are recorded in coverage.correspondence.variant. The oracle is total: an exception, an exhausted engine or an answer outside the move's answer domain on an input whose outcome the statement fixes is reported with that input. The swap never reads propagate's success flag, so it is insensitive to the add_to_path repair (C11_stop_rule_irrelevant). The QuanTIS double swap (one and two engines) is checked on the implementation only (no Coq theorem); reversibility of real MD engines is an assumption of the statement itself. Two engines: the Coq theorems allow engine-specific velocity reversals R0, R1 and need reversibility of the [0-] engine only (the [0+] engine is never run backward by the swap); the harness engines share one reversal (v -> -v) as real MD engines do. Which engine object calls dump_phasepoint (engine1 for 'second', engine0 for 'second_last' in the code) is not modelled: a dumped copy holds the same configuration whoever writes it. Engine identity in the lock-step is a label of the engine object (the prescribed orders of a call do not depend on it), in the double swaps it is a different dynamics. quantis_swap_zero has no lambda_-1 early exit: check_config rejects quantis together with lambda_minus_one (so a finite left interface reaches quantis_swap_zero only through a caller that builds the ensemble dicts itself; the start-condition family does exactly that, as it does for start conditions other than the two initiate_ensembles creates). Start condition 'L' ALONE for [0-]: C11's quantifier ranges over path pairs, interface positions, length limits, energies and draws, not over start conditions; infretis itself only ever builds [0-] with 'R' or ['L','R'] (upstream's own QuanTIS mock labels [0-] 'L' with a -inf left interface, i.e. does not treat the label as a constraint). Demanding the start-side clause there would ask more than the property states, so the oracle does NOT apply it to start_cond == {'L'}: those cases stay in the family for the model lock-step (correspondence) and for every other clause of the oracle (junction, limits, interior, end side, engines, energy rule). What the code does there (retis_swap_zero and quantis_swap_zero accept a new [0-] path that starts on the right of lambda_0, their guards only test for a forbidden 'L'; e.g. interfaces (0,1,2)/(2,2,5), old paths -1 1 3 / 0 3 1, backward run 0 3 -> new [0-] path 3 0 3) is recorded once per run under coverage.observations and documented by theorem C11_start_cond_L_only_refuted; it is neither a violation nor a known finding. The start-side clause of the oracle is computed from the order values and the case's own interfaces/start condition, not from the model and not from check_interfaces. Real-file family: oracle only (the Coq model has no file system: a frame is an abstract tag there, so file naming, e.g. which counter numbers the trajectory files of a propagation, is outside the model and is checked on the implementation alone); the engines are real TurtleMDEngine objects with all their file I/O (dump_config/_extract_frame, reversed-velocity files, trajectory/msg/conf files named by EngineBase.propagate), only the integrator class is turtlemd's VelocityVerlet handed in through a one-line adapter (TurtleMDEngine passes every integrator a seed argument that VelocityVerlet does not take; with the example's LangevinInertia integrator at small friction (gamma 1e-5, beta 1e12) a double swap restores the sequences only to about 1e-5, measured); each swap runs in a fresh worker directory shared by the two engine objects (infretis moves accepted files out and cleans the directory between moves), both objects are fresh at the first swap (equal numbers of propagations started) and have each started two more at the swap back; tolerance 1e-6 against the 9 decimals of the xyz files; lambda_minus_one and unequal length limits are not part of this family (covered by the scripted families); the two-levels-of-theory quantis scenarios use accept_all (the energy rule is covered by the scripted family), the one-dynamics ones the real rule with the draw 0.5.",
    "design_ref": "4/C11",
}
LEVEL = "proof"

# interfaces: lambda_-1 = 0, lambda_0 = 2, lambda_N = 5  (mid of [0-] = 1, integer)
LM1, L0, LN = 0, 2, 5


# --------------------------------------------------------------------------- harness objects


class Tape:
    """The prescribed engine output: the n-th propagate call continues with
    script[n] = (first_order or None, [orders...]); energies[n] = per-frame vpot or None.
    The tape is shared by the two engine OBJECTS of a case (so that the orders a call yields do
    not depend on which object the code happens to call), but every frame carries the identity
    of the object that produced it (config name e<eid>traj<n>) and every logged call the identity
    of the object it was made on: eid 0 = engines[-1][0] ([0-]), eid 1 = engines[0][0] ([0+])."""

    def __init__(self, script, energies=None):
        self.script = script
        self.energies = energies
        self.ncalls = 0
        self.calls = []


class Exhausted(RuntimeError):
    pass


def make_engine_classes():
    from plugins.engines import ScriptedEngine

    class TapeEngine(ScriptedEngine):
        def _propagate_from(self, *a, **k):  # abstract in EngineBase; propagate is overridden
            raise NotImplementedError

        def __init__(self, tape, beta=1.0, eid=0):
            super().__init__([], beta=beta)
            self.tape = tape
            self.eid = eid

        def propagate(self, path, ens_set, system, reverse=False):
            t = self.tape
            n = t.ncalls
            t.ncalls += 1
            init = (system.order[0], system.config, bool(system.vel_rev))
            system.set_pos((f"init{n}", 0))
            system.vel_rev = reverse
            left, _, right = ens_set["interfaces"]
            first, rest = t.script[n] if n < len(t.script) else (None, None)
            if rest is None:
                t.calls.append((init, reverse, left, right, path.maxlen, 0, self.eid))
                raise Exhausted("no stream")
            ener = t.energies[n] if t.energies and n < len(t.energies) else None
            orders = [system.order[0] if first is None else first] + list(rest)
            for k, o in enumerate(orders):
                snapshot = {"order": [float(o)], "config": (f"e{self.eid}traj{n}", k), "vel_rev": reverse}
                if ener is not None and k < len(ener):
                    snapshot["vpot"] = ener[k]
                    snapshot["ekin"] = 0.0
                phase_point = self.snapshot_to_system(system, snapshot)
                status, success, stop, _ = self.add_to_path(path, phase_point, left, right)
                if stop:
                    t.calls.append((init, reverse, left, right, path.maxlen, k + 1, self.eid))
                    return success, status
            t.calls.append((init, reverse, left, right, path.maxlen, len(orders), self.eid))
            raise Exhausted("stream ended before the stop rule fired")

    class VerletEngine(ScriptedEngine):
        """Deterministic time-reversible integer dynamics (velocity Verlet on the integers, the force
        table F giving the half-step kick): state s = (x, v) = (position, velocity),
        T(x, v) = (x', v') with w = v + F(x), x' = x + w, v' = w + F(x'); velocity reversal
        R(x, v) = (x, -v) is the same for every force table; R.T.R.T = id and R.R = id exactly.
        order = x.  Configurations live in a dict keyed by the frame's config tag (shared by the
        engine objects of a case: a configuration written by one is read by the other).  Two
        objects with different force tables F are two different dynamics; every frame carries the
        identity eid of the object that produced it (config name e<eid>traj<n>)."""

        def _propagate_from(self, *a, **k):
            raise NotImplementedError

        def __init__(self, world, force, vfun, beta=1.0, eid=0):
            super().__init__([], beta=beta)
            self.world = world          # shared: {"states": {config: (x, p)}, "ncalls": int, "streams": [...]}
            self.force = force
            self.vfun = vfun
            self.eid = eid

        def T(self, s):
            return vv_step(self.force, s)

        def R(self, s):
            return vv_reverse(s)

        def dump_config(self, config, deffnm="conf"):
            new = f"dump:{deffnm}:{config[0]}:{config[1]}"
            self.world["states"][(new, 0)] = self.world["states"][tuple(config)]
            return new

        def propagate(self, path, ens_set, system, reverse=False):
            w = self.world
            n = w["ncalls"]
            w["ncalls"] += 1
            s = w["states"][tuple(system.config)]
            if reverse != system.vel_rev:
                s = self.R(s)
            init = (system.order[0], system.config, bool(system.vel_rev))
            system.set_pos((f"init{n}", 0))
            system.vel_rev = reverse
            left, _, right = ens_set["interfaces"]
            k = 0
            rec = []
            while True:
                cfg = (f"e{self.eid}traj{n}", k)
                w["states"][cfg] = s
                snapshot = {"order": [float(s[0])], "config": cfg, "vel_rev": reverse,
                            "vpot": self.vfun(s[0]), "ekin": 0.0}
                rec.append((s[0], cfg, reverse))
                phase_point = self.snapshot_to_system(system, snapshot)
                status, success, stop, _ = self.add_to_path(path, phase_point, left, right)
                if stop:
                    w["streams"].append(rec)
                    w["calls"].append((init, reverse, left, right, path.maxlen, k + 1, self.eid))
                    return success, status
                s = self.T(s)
                k += 1
                if k > 10000:
                    raise Exhausted("runaway")

    return TapeEngine, VerletEngine


def vv_step(F, s):
    """one velocity-Verlet step on the integers (F = half-step kick table)"""
    x, v = s
    w = v + F(x)
    x2 = x + w
    return (x2, w + F(x2))


def vv_reverse(s):
    return (s[0], -s[1])


class ScriptRng:
    def __init__(self, draws):
        self.draws = list(draws)
        self.used = 0

    def random(self):
        if self.used >= len(self.draws):
            raise IndexError("no draw left")
        u = self.draws[self.used]
        self.used += 1
        return u


class NpShim:
    """numpy stand-in for infretis.core.tis.np: records the argument of exp."""

    def __init__(self, real):
        self._real = real
        self.exp_args = []

    def exp(self, x):
        self.exp_args.append(x)
        return self._real.exp(x)

    def __getattr__(self, k):
        return getattr(self._real, k)


def mk_path(orders, name, maxlen, vpots=None, revs=None):
    from infretis.classes.path import Path
    from infretis.classes.system import System
    p = Path(maxlen=maxlen)
    for i, o in enumerate(orders):
        s = System()
        s.order = [float(o)]
        s.config = (name, i)
        s.vel_rev = bool(revs[i]) if revs else False
        s.vpot = None if vpots is None else vpots[i]
        s.ekin = None if vpots is None else 0.0
        p.phasepoints.append(s)
    p.status = "ACC"
    p.weight = 1.0
    return p


def ensembles(lm1, moves, maxlen0, maxlen1, cap=None, accept_all=False, quantis=False, sc0=None):
    """[0-] and [0+] dicts exactly as REPEX_state.initiate_ensembles builds them (interfaces,
    start_cond), with one tis_set per ensemble so that the two maxlength reads can differ.
    sc0 (None | "R" | "L" | ["L", "R"]): start condition of [0-] set by the caller instead (a caller that builds
    the ensemble dicts itself, as shoot's own start_cond handling allows: finite left interface with start_cond
    "R" = paths that leave through lambda_-1 are not members of [0-])."""
    from infretis.classes.repex import REPEX_state
    tis = {"lambda_minus_one": (LM1 if lm1 else False), "maxlength": maxlen0, "accept_all": accept_all,
           "quantis": quantis}
    if cap is not None:
        tis["interface_cap"] = cap
    fake = types.SimpleNamespace(config={"simulation": {"interfaces": [L0, LN], "tis_set": tis,
                                                        "shooting_moves": list(moves)}})
    REPEX_state.initiate_ensembles(fake)
    e0, e1 = dict(fake.ensembles[0]), dict(fake.ensembles[1])
    e1["tis_set"] = dict(tis, maxlength=maxlen1)
    if sc0 is not None:
        e0["start_cond"] = sc0 if isinstance(sc0, str) else list(sc0)
    return e0, e1


def allowed_starts(lm1, sc0=None):
    """the sides a [0-] path may start on: the ensemble's own start condition"""
    if sc0 is not None:
        return set(sc0)
    return {"L", "R"} if lm1 else {"R"}


# --------------------------------------------------------------------------- encoding


def tag_of(config):
    name, idx = config
    idx = int(idx)
    if name == "old0":
        return 100 + idx
    if name == "old1":
        return 200 + idx
    if name[:1] == "e" and name[2:6] == "traj":     # e<eid>traj<n>: frame idx of the n-th propagate call, made on engine object eid
        return 1000 * (int(name[6:]) + 1) + 500 * int(name[1]) + idx
    if name.startswith("dump:"):
        parts = name.split(":")
        inner = tag_of((":".join(parts[2:-1]), int(parts[-1])))
        return {"second": 100000, "second_last": 200000}[parts[1]] + inner
    if name.startswith("init"):
        return 900000 + int(name[4:])
    raise ValueError(f"unknown config {config}")


def engine_of(config):
    """identity of the engine object that produced a frame (None: not produced by a propagate call)"""
    name = config[0]
    if name[:1] == "e" and name[2:6] == "traj":
        return int(name[1])
    return None


ENG_NAME = {0: "the [0-] engine engines[-1][0]", 1: "the [0+] engine engines[0][0]", None: "no propagate call"}


def zint(x):
    if x == float("-inf"):
        return "ninf"
    f = Fraction(x)
    assert f.denominator == 1, x
    return str(f.numerator)


def enc_frame(o, cfg, rev):
    return f"{zint(o)}:{tag_of(cfg)}:{int(bool(rev))}"


def enc_path(p):
    fr = [enc_frame(s.order[0], s.config, s.vel_rev) for s in p.phasepoints]
    st = p.status if p.status else "EMPTY"
    return f"{','.join(fr) if fr else '-'}|{p.maxlen}|{p.time_origin}|{st}|{zint(p.weight)}"


def enc_ens(e):
    i0, i1, i2 = e["interfaces"]
    sc = set(e["start_cond"])
    cap = e["tis_set"].get("interface_cap", None)
    return ",".join([zint(i0), zint(i1), zint(i2), str(int("L" in sc)), str(int("R" in sc)), e["mc_move"],
                     str(e["tis_set"]["maxlength"]), "N" if cap is None else zint(cap),
                     str(int(bool(e["tis_set"]["accept_all"])))])


def enc_call(c):
    (o, cfg, rv), reverse, left, right, ml, used, eid = c
    return "/".join([f"e{eid}", enc_frame(o, cfg, rv), str(int(reverse)), zint(left), zint(right), str(ml), str(used)])


def enc_streams(produced):
    """produced: list of streams, each a list of (order, tag, rev)."""
    if not produced:
        return "-"
    return ";".join(",".join(f"{zint(o)}:{t}:{int(r)}" for o, t, r in s) if s else "_" for s in produced)


# --------------------------------------------------------------------------- one case


class Case:
    """Everything that defines one swap: settings, old paths, tape, draws, betas."""

    def __init__(self, **kw):
        self.quantis = kw.get("quantis", False)
        self.lm1 = kw.get("lm1", False)
        sc0 = kw.get("sc0")             # start condition of [0-] when not the one initiate_ensembles gives
        self.sc0 = sc0 if sc0 is None or isinstance(sc0, str) else list(sc0)
        self.moves = kw.get("moves", ("sh", "sh"))
        self.maxlen0 = kw["maxlen0"]
        self.maxlen1 = kw.get("maxlen1", self.maxlen0)
        self.cap = kw.get("cap")
        self.accept_all = kw.get("accept_all", False)
        self.old0 = tuple(kw["old0"])
        self.old1 = tuple(kw["old1"])
        self.v0 = kw.get("v0")          # vpots of old0 frames (or None)
        self.v1 = kw.get("v1")
        self.script = kw["script"]      # list of (first or None, [orders])
        self.energies = kw.get("energies")
        self.draws = kw.get("draws", ())
        self.betas = kw.get("betas", (1.0, 1.0))
        self.direct = kw.get("direct", False)   # call the move function directly instead of select_shoot

    def desc(self):
        return {k: v for k, v in self.__dict__.items()}


def run_impl(case, TapeEngine, shim):
    """Run the real code on a case.  Returns (canonical answer, raw dict for the oracle, request line)."""
    import infretis.core.tis as tis
    e0, e1 = ensembles(case.lm1, case.moves, case.maxlen0, case.maxlen1, case.cap, case.accept_all, case.quantis, case.sc0)
    old0 = mk_path(case.old0, "old0", case.maxlen0, case.v0)
    old1 = mk_path(case.old1, "old1", case.maxlen1, case.v1)
    tape = Tape(case.script, case.energies)
    eng0, eng1 = TapeEngine(tape, case.betas[0], eid=0), TapeEngine(tape, case.betas[1], eid=1)
    rgen = ScriptRng(case.draws)
    e0["rgen"] = rgen
    e1["rgen"] = ScriptRng(())
    picked = {-1: {"ens": e0, "traj": old0, "eng_idx": {"e0": 0}, "exe_dir": None},
              0: {"ens": e1, "traj": old1, "eng_idx": {"e1": 0}, "exe_dir": None}}
    # request line (built before the call: the code mutates nothing of this, but be safe)
    energies = {}
    for p in (old0, old1):
        for s in p.phasepoints:
            if s.vpot is not None:
                energies[tag_of(s.config)] = s.vpot
    for n, en in enumerate(case.energies or []):
        for k, v in enumerate(en or []):
            if v is not None:
                energies[1000 * (n + 1) + k] = v            # whichever engine object produces the frame
                energies[1000 * (n + 1) + 500 + k] = v
    shim.exp_args.clear()
    tis.ENGINES = {"e0": [eng0], "e1": [eng1]}
    enc_old = (enc_path(old0), enc_path(old1))
    enc_e = (enc_ens(e0), enc_ens(e1))
    raw = {"old0": old0, "old1": old1, "e0": e0, "e1": e1, "tape": tape, "rgen": rgen}
    try:
        if case.direct:
            fn = tis.quantis_swap_zero if case.quantis else tis.retis_swap_zero
            acc, paths, status = fn(picked, {-1: [eng0], 0: [eng1]})
        else:
            acc, paths, status = tis.select_shoot(picked)
        raw.update(accept=acc, paths=paths, status=status, error=None)
    except Exhausted:
        raw["error"] = "exhausted"
    except (IndexError, AssertionError, TypeError) as e:
        raw["error"] = "raise"
        raw["exc"] = repr(e)
    except Exception as e:                      # any other exception: an answer outside the modelled outcomes
        raw["error"] = "raise"
        raw["exc"] = repr(e)
        raw["unexpected_exc"] = True
    finally:
        tis.ENGINES = {}
    # streams actually prescribed, as full frames for the model
    produced = []
    for n, (first, rest) in enumerate(case.script):
        if n < len(tape.calls):
            (o, _, _), reverse, eid = tape.calls[n][0], tape.calls[n][1], tape.calls[n][6]
        else:
            o, reverse, eid = (first if first is not None else 0), False, n % 2
        if rest is None:
            produced.append([])
            continue
        ords = [o if first is None else first] + list(rest)
        produced.append([(x, 1000 * (n + 1) + 500 * eid + k, reverse) for k, x in enumerate(ords)])
    raw["produced"] = produced
    evalue = None
    exparg = None
    if shim.exp_args:
        exparg = Fraction(float(shim.exp_args[-1]))
        evalue = Fraction(float(shim._real.exp(shim.exp_args[-1])))
    raw["exparg"], raw["evalue"] = exparg, evalue
    req = enc_request(case.quantis, enc_e, case.betas, enc_old, produced, case.draws, energies, evalue)
    raw["bad_answer"] = None
    if raw["error"]:
        ans = f"ERR {raw['error']}"
    else:
        raw["bad_answer"] = answer_domain_error(raw["accept"], raw["paths"], raw["status"])
        if raw["bad_answer"]:
            ans = f"BAD {raw['bad_answer']}"
        else:
            try:
                ans = enc_answer(raw["accept"], raw["status"], rgen.used, raw["paths"], tape.calls, exparg)
            except Exception as e:              # not encodable: non-integer order/weight, unknown config name ...
                raw["bad_answer"] = f"answer cannot be encoded ({e!r})"
                ans = f"BAD {raw['bad_answer']}"
    return ans, raw, req


STATUSES = {"ACC", "BTX", "BTS", "0-L", "FTX", "FTS", "HAS", "QNE", "QLL", "QS0", "QS1", "QEA", "QR*", "QLR", "0+R"}


def answer_domain_error(accept, paths, status):
    """The move must answer (bool, [Path, Path], status string of the known set).  Returns a description
    of what is outside that domain, or None."""
    from infretis.classes.path import Path
    if not isinstance(accept, (bool,)) and type(accept).__name__ != "bool_":
        return f"accept is {accept!r} (not a bool)"
    if not isinstance(status, str) or status not in STATUSES:
        return f"status {status!r} is not one of the move's status codes"
    if not isinstance(paths, (list, tuple)) or len(paths) != 2 or not all(isinstance(p, Path) for p in paths):
        return f"paths is not a pair of Path objects: {paths!r}"[:200]
    for name, p in zip(("[0-]", "[0+]"), paths):
        if p.status is not None and p.status != "" and p.status not in STATUSES:
            return f"new {name} path has status {p.status!r}"
    return None


# Which zero-swap code does the tree under test have?  The model carries both: the code after
# proposed_fixes/C11_zero_swap_own_limits.diff (request `swap` = select_swap_g true true = select_swap, what every
# theorem but the two ..._limit_order_refuted witnesses is about) and the code before it (request `swap0` =
# select_swap_g false false).  One probing call per move (`probe_variant`) decides which variant the LOCK-STEP
# compares that move with; the oracle never looks at this.
VARIANT = {"retis": {"fixed": True, "probe": None}, "quantis": {"fixed": True, "probe": None}}


def probe_variant(TapeEngine, shim):
    """retis_swap_zero with limits 12/5 on 3 1 3 / 1 3 1: the container handed to the backward run has 11 frames
    (maxlen0 - 1: repaired) or 4 (maxlen1 - 1: the code before the repair).  quantis_swap_zero with limits 8/4:
    the container handed to the forward run (4th propagate call) has 3 frames (maxlen1 read from ens_set1:
    repaired) or 7 (read from ens_set0: before).  Any other answer (exception, fewer calls, another size) keeps
    the repaired model, and the difference shows up in the lock-step."""
    pr = Case(maxlen0=12, maxlen1=5, old0=(3, 1, 3), old1=(1, 3, 1), script=[(None, [1, 1, 1, 1, 1, 3]), (None, [3, 1])], direct=True)
    pq = Case(quantis=True, maxlen0=8, maxlen1=4, old0=(3, 1, 3), old1=(1, 3, 1), v0=[0.0] * 3, v1=[0.5] * 3,
              script=[(None, [3]), (None, [3]), (None, [1, 3]), (None, [3, 1])],
              energies=[[0.25, 0.0], [0.5, 0.0], None, None], draws=(0.5,), betas=(1.0, 1.0), direct=True)
    for var, case, ncall, before, what in (("retis", pr, 0, 4, "limits 12/5: container of the backward run (1st propagate call)"),
                                           ("quantis", pq, 3, 7, "limits 8/4: container of the forward run (4th propagate call)")):
        got = None
        try:
            _, raw, _ = run_impl(case, TapeEngine, shim)
            calls = raw["tape"].calls
            got = calls[ncall][4] if len(calls) > ncall else f"only {len(calls)} propagate calls ({raw.get('error') or raw.get('status')})"
        except Exception as e:                  # the probe must never end the check
            got = f"probe raised {e!r}"
        VARIANT[var]["probe"] = f"{what} has maxlen {got}"
        VARIANT[var]["fixed"] = got != before
    return {k: v["fixed"] for k, v in VARIANT.items()}


def variant_report():
    out = {}
    for var, fn in (("retis", "retis_swap_zero"), ("quantis", "quantis_swap_zero")):
        v = VARIANT[var]
        out[var] = {"probe": f"{fn}, {v['probe']}",
                    "model_used_for_the_lock_step": (f"{fn} = {fn}_g true (each new path sized/measured by its own ensemble's limit; request swap)" if v["fixed"] else
                                                     f"{fn}_before_fix = {fn}_g false (request swap0): the tree under test lacks proposed_fixes/C11_zero_swap_own_limits.diff "
                                                     f"for this move; the oracle demands the repaired behaviour")}
    return out


def enc_request(quantis, enc_e, betas, enc_old, produced, draws, energies, evalue):
    return " ".join([
        "swap" if VARIANT["quantis" if quantis else "retis"]["fixed"] else "swap0", str(int(quantis)), enc_e[0], enc_e[1], common.qstr(betas[0]), common.qstr(betas[1]),
        enc_old[0], enc_old[1], enc_streams(produced),
        ",".join(common.qstr(u) for u in draws) if draws else "-",
        ",".join(f"{k}={common.qstr(v)}" for k, v in sorted(energies.items())) if energies else "-",
        common.qstr(evalue) if evalue is not None else "1/1",
    ])


def enc_answer(accept, status, ndraws, paths, calls, exparg):
    p0, p1 = paths
    cs = ";".join(enc_call(c) for c in calls) if calls else "-"
    ex = "N" if exparg is None else (f"{exparg.numerator}/{exparg.denominator}" if exparg.denominator != 1 else str(exparg.numerator))
    return " ".join(["OUT", str(int(bool(accept))), status, str(ndraws), enc_path(p0), enc_path(p1), cs, ex])


# --------------------------------------------------------------------------- the property's own statement


def orders_of(p):
    return [s.order[0] for s in p.phasepoints]


def valid_minus(orders, lm1, sc0=None):
    """valid [0-] path w.r.t. the code's operators: classified start/end, interior not beyond the
    interfaces (the stop rule of add_to_path did not fire); the start side is one the ensemble's own
    start condition allows."""
    left = LM1 if lm1 else float("-inf")
    if len(orders) < 3:
        return False
    st = "L" if orders[0] <= left else ("R" if orders[0] >= L0 else "?")
    en = "L" if orders[-1] <= left else ("R" if orders[-1] >= L0 else "?")
    if en != "R" or st not in allowed_starts(lm1, sc0):
        return False
    return all(left <= o <= L0 for o in orders[1:-1])


def start_clause_sides(lm1, sc0=None):
    """the sides the START-SIDE CLAUSE of the oracle admits for a new [0-] path: the ensemble's own start condition for
    the two start conditions infretis creates for [0-] ("R"; ["L", "R"] with lambda_minus_one).  C11 quantifies over
    path pairs, interface positions, length limits, energies and draws, not over start conditions: for a start
    condition that is "L" ALONE (only a caller building the dicts itself can give it; upstream's own QuanTIS mock
    labels [0-] "L" with a -inf left interface, i.e. does not treat the label as a constraint) the clause is not
    applied (both sides admitted); every other clause of the oracle and the model lock-step still are."""
    allowed = allowed_starts(lm1, sc0)
    return {"L", "R"} if allowed == {"L"} else allowed


def start_side_error(case, g0):
    """'valid in its ensemble', start condition: the new [0-] path g0 (complete: its first frame is strictly
    outside [lambda_-1, lambda_0]) must start on a side the [0-] ensemble's OWN start condition allows (start
    conditions "R" and ["L", "R"]; not applied to "L" alone, see start_clause_sides).
    Returns a description or None."""
    left = LM1 if case.lm1 else float("-inf")
    if not g0:
        return None
    side = "L" if g0[0] < left else ("R" if g0[0] > L0 else None)
    allowed = start_clause_sides(case.lm1, case.sc0)
    if side is None or side in allowed:
        return None
    where = f"left of lambda_-1 = {left}" if side == "L" else f"right of lambda_0 = {L0}"
    return (f"new [0-] path {g0} starts {where} (side {side}), but the [0-] ensemble only admits paths that start on "
            f"{sorted(allowed)} (its start_cond, interfaces ({left}, {L0}))")


def valid_plus(orders):
    if len(orders) < 3:
        return False
    if not orders[0] <= L0:
        return False
    return all(L0 <= o <= LN for o in orders[1:-1])


def call_tag(config):
    """tag of a frame without the identity of the engine object: 1000 * (call ordinal + 1) + frame index"""
    e = engine_of(config)
    return tag_of(config) - (500 * e if e else 0)


def engines_oracle(quantis, accepted, p0, p1, calls):
    """Which engine object must have produced which frames (the paths are 'valid in their ensembles':
    the [0-] part is a trajectory of the [0-] dynamics, the [0+] part one of the [0+] dynamics).
    calls: logged propagate calls (..., eid) in call order.  Returns an error string or None."""
    # the propagate calls: backward for [0-] on engine0, forward for [0+] on engine1
    # (quantis: one step [0-], one step [0+], backward [0-], forward [0+])
    expected = [0, 1, 0, 1] if quantis else [0, 1]
    what = (["the one-step run of [0-]", "the one-step run of [0+]", "the backward run of [0-]", "the forward run of [0+]"] if quantis
            else ["the backward run that builds the new [0-] path", "the forward run that builds the new [0+] path"])
    for n, c in enumerate(calls):
        if n < len(expected) and c[6] != expected[n]:
            return (f"wrong engine: {what[n]} (propagate call {n + 1}, reverse={c[1]}, from order {c[0][0]}) was made on "
                    f"{ENG_NAME[c[6]]} instead of {ENG_NAME[expected[n]]}")
    if not accepted:
        return None
    # frames beyond the shared shooting points
    pp0 = p0.phasepoints if quantis else p0.phasepoints[:-1]       # retis: last frame = dumped old[0+][1]
    pp1 = p1.phasepoints if quantis else p1.phasepoints[1:]        # retis: first frame = dumped old[0-][-2]
    for k, s in enumerate(pp0):
        if engine_of(s.config) != 0:
            return (f"wrong engine: frame {k} (order {s.order[0]}) of the new [0-] path {orders_of(p0)} was produced by "
                    f"{ENG_NAME[engine_of(s.config)]}, not by {ENG_NAME[0]}")
    for k, s in enumerate(pp1):
        if engine_of(s.config) != 1:
            return (f"wrong engine: frame {k + (0 if quantis else 1)} (order {s.order[0]}) of the new [0+] path {orders_of(p1)} was produced by "
                    f"{ENG_NAME[engine_of(s.config)]}, not by {ENG_NAME[1]}")
    return None


def stop_prefix(orders, left, right):
    """the frames a run yields when only the interfaces stop it: up to and including the first one strictly
    beyond [left, right]; None when no frame of the tape is"""
    for k, o in enumerate(orders):
        if o < left or o > right:
            return list(orders[:k + 1])
    return None


def expected_new_paths(case):
    """C11's own description of the two new paths (order sequences) of a case with valid old paths and honest
    engines: the backward run from old[0+][0] / the forward run from old[0-][-1] (quantis: from the one-step
    frames) continued until the ensemble's own interfaces stop it, joined with the shared point.  An entry is
    None when that run never leaves the interfaces on the tape: the path cannot be completed under any limit."""
    o0, o1 = list(case.old0), list(case.old1)
    left = LM1 if case.lm1 else float("-inf")
    if case.quantis:
        s0, s1, bs, fs = (case.script[k][1] for k in range(4))
        back = stop_prefix([o1[0]] + list(bs), left, L0)
        forw = stop_prefix([s1[0]] + list(fs), L0, LN)
        new0 = None if back is None else list(reversed(back)) + [s0[0]]
        new1 = None if forw is None else [o0[-2]] + forw
    else:
        bs, fs = case.script[0][1], case.script[1][1]
        back = stop_prefix([o1[0]] + list(bs), left, L0)
        forw = stop_prefix([o0[-1]] + list(fs), L0, LN)
        new0 = None if back is None else list(reversed(back)) + [o1[1]]
        new1 = None if forw is None else [o0[-2]] + forw
    return new0, new1


def limits_domain(case, raw):
    """Cases on which the statement fixes the outcome from the two length limits alone: valid old paths,
    honest engines answering every call, no wire fencing, limits >= 2; quantis: energies present, both
    shooting points strictly left of lambda_0, both one-step runs cross lambda_0 (and stay below lambda_N),
    the energy rule passes."""
    ncalls = 4 if case.quantis else 2
    if len(case.script) < ncalls or any(f is not None or r is None for f, r in case.script[:ncalls]):
        return False
    if "wf" in case.moves or min(case.maxlen0, case.maxlen1) < 2:
        return False
    o0, o1 = list(case.old0), list(case.old1)
    if not (valid_minus(o0, case.lm1, case.sc0) and valid_plus(o1)):
        return False
    if not case.quantis:
        return True
    s0, s1 = case.script[0][1], case.script[1][1]
    en = case.energies
    if case.v0 is None or case.v1 is None or case.v0[-2] is None or case.v1[0] is None:
        return False
    if not en or len(en) < 2 or not en[0] or not en[1] or en[0][0] is None or en[1][0] is None:
        return False
    if not (o1[0] < L0 and o0[-2] < L0 and len(s0) >= 1 and len(s1) >= 1 and s0[0] > L0 and L0 < s1[0] <= LN):
        return False
    if not case.draws:
        return False
    if case.accept_all:
        return True
    if raw.get("evalue") is None:
        # the implementation did not reach exp: decide the energy rule from the energies (dyadic, exact)
        import math
        x = (Fraction(case.betas[0]) * (Fraction(case.v0[-2]) - Fraction(en[0][0]))
             - Fraction(case.betas[1]) * (Fraction(en[1][0]) - Fraction(case.v1[0])))
        return x >= 0 or Fraction(case.draws[0]) <= Fraction(math.exp(float(x)))
    return Fraction(case.draws[0]) <= min(Fraction(1), raw["evalue"])


def expected_by_limits(case, new0, new1):
    """status the statement prescribes: a new path that cannot be completed below ITS OWN limit rejects the
    swap (BTX for [0-], which is built first, FTX for [0+]); a complete new [0-] path that starts on a side the
    [0-] ensemble's own start condition ("R": it left through lambda_-1) does not allow is not a member of [0-] and
    rejects the swap with "0-L", as shoot answers; otherwise the swap is accepted."""
    if new0 is None or len(new0) >= case.maxlen0:
        return "BTX"
    if start_side_error(case, new0):
        return "0-L"
    if new1 is None or len(new1) >= case.maxlen1:
        return "FTX"
    return "ACC"


def limits_oracle(case, raw):
    """'both valid in their ensembles', each path measured against ITS OWN ensemble's length limit, and 'a swap
    that cannot complete a path within that ensemble's limit is rejected with the corresponding status'.
    Evaluated for EVERY pair of limits.  Total: an exception, an exhausted engine or an answer outside the move's
    answer domain on such an input is a finding.  Returns an error string or None."""
    if not limits_domain(case, raw):
        return None
    new0, new1 = expected_new_paths(case)
    if (new0 is not None and len(new0) < 3) or (new1 is not None and len(new1) < 3):
        return None
    # a tape that never leaves the interfaces must outlast every container the limits allow (else the harness,
    # not the move, ends the run)
    k = 2 if case.quantis else 0
    for new, (_, rest) in ((new0, case.script[k]), (new1, case.script[k + 1])):
        if new is None and 1 + len(rest) < max(case.maxlen0, case.maxlen1):
            return None
    exp = expected_by_limits(case, new0, new1)
    ml0, ml1 = case.maxlen0, case.maxlen1
    var = "quantis" if case.quantis else "retis"
    lim = f"limits maxlength[0-]={ml0}, maxlength[0+]={ml1}"
    need = (f"new [0-] path {new0 if new0 is not None else 'never leaves the interfaces'}"
            f"{'' if new0 is None else f' ({len(new0)} frames)'}, new [0+] path "
            f"{new1 if new1 is not None else 'never leaves the interfaces'}{'' if new1 is None else f' ({len(new1)} frames)'}")
    inside0 = (LM1 if case.lm1 else float("-inf"), L0)

    def dev():
        if raw["error"]:
            what = (f"raised {raw.get('exc')}" if raw["error"] == "raise"
                    else "asked an engine for more frames than its length limit allows (the tape ended before the run was stopped)")
            return f"{var} zero swap with {lim}: the move {what} on valid old paths {list(case.old0)} / {list(case.old1)}; expected {exp}: {need}"
        if raw["bad_answer"]:
            return f"{var} zero swap with {lim}: answer outside the move's answer domain: {raw['bad_answer']}"
        acc, status = bool(raw["accept"]), raw["status"]
        p0, p1 = raw["paths"]
        g0, g1 = orders_of(p0), orders_of(p1)
        if acc:
            # validity of the accepted paths, each against its own limit
            if not (g0 and (g0[0] < inside0[0] or g0[0] > inside0[1])):
                return (f"{var} zero swap with {lim}: ACCEPTED with an incomplete new [0-] path {g0}: its first frame is still inside the "
                        f"[0-] interfaces (the backward run was cut off after {len(g0) - 1} frames); {need}")
            if not (g1 and (g1[-1] < L0 or g1[-1] > LN)):
                return (f"{var} zero swap with {lim}: ACCEPTED with an incomplete new [0+] path {g1}: its last frame is still inside "
                        f"[lambda_0, lambda_N] = [{L0}, {LN}] (the forward run was cut off after {len(g1) - 1} frames, below the [0+] limit {ml1}); {need}")
            if not len(g0) < ml0:
                return f"{var} zero swap with {lim}: ACCEPTED with a new [0-] path of {len(g0)} frames, not below the [0-] limit {ml0}: {g0}"
            if not len(g1) < ml1:
                return f"{var} zero swap with {lim}: ACCEPTED with a new [0+] path of {len(g1)} frames, not below the [0+] limit {ml1}: {g1}"
            if not all(inside0[0] <= o <= inside0[1] for o in g0[1:-1]) or not g0[-1] >= L0:
                return f"{var} zero swap with {lim}: ACCEPTED new [0-] path {g0} is not a [0-] path (interior outside the interfaces or end not on the right)"
            serr = start_side_error(case, g0)
            if serr:
                return (f"{var} zero swap with {lim}: ACCEPTED although the {serr}: the new [0-] path is not valid in its own ensemble "
                        f"(old paths {list(case.old0)} / {list(case.old1)}, start_cond of [0-] {raw['e0']['start_cond']!r}, of [0+] {raw['e1']['start_cond']!r})")
            if not all(L0 <= o <= LN for o in g1[1:-1]) or not g1[0] <= L0:
                return f"{var} zero swap with {lim}: ACCEPTED new [0+] path {g1} is not a [0+] path (interior outside the interfaces or start not on the left)"
            if exp in ("BTX", "FTX"):
                which = "[0-]" if exp == "BTX" else "[0+]"
                return (f"{var} zero swap with {lim}: ACCEPTED although the new {which} path cannot be completed below the {which} limit "
                        f"(expected rejection {exp}); {need}; returned {g0} / {g1}")
            if exp != "ACC":
                return (f"{var} zero swap with {lim}: ACCEPTED although the complete new [0-] path would start on a side its own ensemble's "
                        f"start condition {raw['e0']['start_cond']!r} does not allow (expected rejection {exp}); {need}; returned {g0} / {g1}")
            if g0 != [float(x) for x in new0] or g1 != [float(x) for x in new1]:
                return f"{var} zero swap with {lim}: accepted paths {g0} / {g1} are not the complete paths the runs give; {need}"
            if status != "ACC" or p0.status != "ACC" or p1.status != "ACC":
                return f"{var} zero swap with {lim}: accepted but statuses are {status} / {p0.status} / {p1.status}"
            return None
        if exp == "ACC":
            return (f"{var} zero swap with {lim}: REJECTED with status {status} although both new paths are valid and below their own "
                    f"limits (two swaps cannot restore the originals): {need}")
        if exp == "0-L":
            if status != "0-L" or p0.status != "0-L":
                return (f"{var} zero swap with {lim}: the complete new [0-] path leaves through lambda_-1 = {LM1} and start_cond of [0-] is "
                        f"{raw['e0']['start_cond']!r}: the swap must be rejected with 0-L (as shoot does) but the status is {status} / {p0.status}; {need}")
            if orders_of(p0) != [float(x) for x in new0]:
                return f"{var} zero swap with {lim}: rejected 0-L but the returned new [0-] path {orders_of(p0)} is not the complete path; {need}"
            return None
        if status != exp:
            which = "[0-]" if exp == "BTX" else "[0+]"
            return (f"{var} zero swap with {lim}: the new {which} path cannot be completed below the {which} limit, the swap must be "
                    f"rejected with {exp} but the status is {status}; {need}")
        if exp == "BTX" and p0.status != "BTX":
            return f"{var} zero swap with {lim}: rejected BTX but the new [0-] path carries status {p0.status}"
        if exp == "FTX" and p1.status != "FTX":
            return f"{var} zero swap with {lim}: rejected FTX but the new [0+] path carries status {p1.status}"
        return None

    return dev()


def oracle(case, raw):
    """C11 evaluated on the implementation's outputs.  Returns an error string (always naming the two length
    limits of the case) or None.  Independent of VARIANT (the probe)."""
    err = _oracle(case, raw)
    if err and "maxlength[0-]=" not in err:
        err += f" (limits maxlength[0-]={case.maxlen0}, maxlength[0+]={case.maxlen1})"
    return err


def _oracle(case, raw):
    lerr = limits_oracle(case, raw)
    if lerr:
        return lerr
    if raw["error"] or raw["bad_answer"]:
        if raw.get("unexpected_exc") or raw["bad_answer"]:
            what = raw["bad_answer"] or f"raised {raw.get('exc')}"
            return f"answer outside the move's answer domain: the move {what}"
        return None
    acc, status = raw["accept"], raw["status"]
    p0, p1 = raw["paths"]
    old0, old1, tape = raw["old0"], raw["old1"], raw["tape"]
    o0, o1 = list(case.old0), list(case.old1)
    left = LM1 if case.lm1 else float("-inf")
    if bool(acc) != (status == "ACC"):
        return f"accept={acc} but status={status}"
    # early 0-L reject: no propagation, old paths returned
    if case.lm1 and not case.quantis and o0 and o0[-1] <= LM1:
        if allowed_starts(case.lm1, case.sc0) != {"L", "R"}:
            # finite left interface without the lambda_-1 start condition: rejected without propagation (no status prescribed)
            if acc or tape.ncalls != 0:
                return f"[0-] path ending on the left must be rejected without propagation (status {status}, accept={acc}, {tape.ncalls} propagate calls)"
            return None
        if status != "0-L" or acc or tape.ncalls != 0 or p0 is not old0 or p1 is not old1:
            return f"[0-] path ending on the left must be rejected as 0-L without propagation (status {status}, {tape.ncalls} propagate calls)"
        return None
    both_valid = valid_minus(o0, case.lm1, case.sc0) and valid_plus(o1)
    if acc:
        n0, n1 = orders_of(p0), orders_of(p1)
        # junction
        if not case.quantis:
            if n0[-2:] != [float(x) for x in o1[:2]] and case.script[0][0] is None:
                return f"new [0-] path {n0} does not end with the first two frames {o1[:2]} of the old [0+] path"
            if n1[:2] != [float(x) for x in o0[-2:]] and case.script[1][0] is None:
                return f"new [0+] path {n1} does not start with the last two frames {o0[-2:]} of the old [0-] path"
            if tag_of(p0.phasepoints[-1].config) != 100000 + 200 + 1 or call_tag(p0.phasepoints[-2].config) != 1000:
                return "new [0-] path: last two frames are not (first frame of the backward run, dumped copy of old[0+][1])"
            if tag_of(p1.phasepoints[0].config) != 200000 + 100 + len(o0) - 2 or call_tag(p1.phasepoints[1].config) != 2000:
                return "new [0+] path: first two frames are not (dumped copy of old[0-][-2], first frame of the forward run)"
            if tape.calls[0][0][1] != ("old1", 0) or tape.calls[1][0][1] != ("old0", len(o0) - 1):
                return "propagation did not start from old[0+][0] / old[0-][-1]"
        else:
            honest = all(s[0] is None for s in case.script[:4])
            if honest and (n0[-2] != float(o1[0]) or n1[0] != float(o0[-2])):
                return f"quantis: junction frames wrong: new[0-][-2]={n0[-2]} vs old[0+][0]={o1[0]}, new[0+][0]={n1[0]} vs old[0-][-2]={o0[-2]}"
            if call_tag(p0.phasepoints[-1].config) != 1001 or call_tag(p1.phasepoints[1].config) != 2001:
                return "quantis: the one-step frames are not at the junction"
            if tape.calls[0][0][1] != ("old1", 0) or tape.calls[1][0][1] != ("old0", len(o0) - 2):
                return "quantis: one-step propagation did not start from old[0+][0] / old[0-][-2]"
        # validity: which engine object produced which frames
        err = engines_oracle(case.quantis, True, p0, p1, tape.calls)
        if err:
            return err
        # validity
        ml0, ml1 = case.maxlen0, case.maxlen1          # each path against ITS OWN ensemble's limit
        if not (3 <= len(n0) < ml0 and 3 <= len(n1) < ml1):
            return (f"accepted paths with lengths {len(n0)}, {len(n1)} outside [3, limit) for limits maxlength[0-]={ml0}, "
                    f"maxlength[0+]={ml1}: {n0} / {n1}")
        s0, e0, _, _ = p0.check_interfaces(list(raw["e0"]["interfaces"]))
        if not case.lm1 and ("L" in (s0, e0)):
            return f"accepted [0-] path starts/ends on the left: {n0}"
        honest = all(s[0] is None for s in case.script)
        if both_valid and honest:
            if e0 != "R" or s0 not in start_clause_sides(case.lm1, case.sc0):
                return (f"accepted [0-] path {n0} has start/end {s0}/{e0} w.r.t. its own interfaces {tuple(raw['e0']['interfaces'])}; the [0-] ensemble "
                        f"admits starts on {sorted(start_clause_sides(case.lm1, case.sc0))} (its start_cond {raw['e0']['start_cond']!r}) and ends on R")
            serr = start_side_error(case, n0)
            if serr:
                return f"accepted swap: the {serr}"
            if not all(left <= o <= L0 for o in n0[1:-1]):
                return f"accepted [0-] path {n0} leaves [{left},{L0}] in its interior"
            if not (n0[0] < left or n0[0] > L0):
                return f"accepted [0-] path {n0} does not start with a crossing frame"
            if p1.get_start_point(L0, LN) != "L":
                return f"accepted [0+] path {n1} does not start on the left"
            if not all(L0 <= o <= LN for o in n1[1:-1]):
                return f"accepted [0+] path {n1} leaves [{L0},{LN}] in its interior"
            if not (n1[-1] < L0 or n1[-1] > LN):
                return f"accepted [0+] path {n1} does not end with a crossing frame"
    if not acc:
        err = engines_oracle(case.quantis, False, p0, p1, tape.calls)
        if err:
            return err
    # thresholds
    if case.quantis and raw["evalue"] is not None:
        en = case.energies
        exp_expected = (Fraction(case.betas[0]) * (Fraction(case.v0[-2]) - Fraction(en[0][0]))
                        - Fraction(case.betas[1]) * (Fraction(en[1][0]) - Fraction(case.v1[0])))
        if raw["exparg"] != exp_expected:
            return f"quantis exponent {raw['exparg']} != beta0*(V0(r0)-V0(r1)) - beta1*(V1(r0)-V1(r1)) = {exp_expected}"
        u = Fraction(case.draws[0])
        passes = case.accept_all or u <= min(Fraction(1), raw["evalue"])
        if passes == (status == "QEA"):
            return f"quantis energy rule: u={float(u)} E={float(raw['evalue'])} accept_all={case.accept_all} but status {status}"
    if not case.quantis and "wf" in case.moves and status in ("ACC", "HAS") and raw["rgen"].used == 1:
        from infretis.core.tis import compute_weight
        iw = [list(raw["e0"]["interfaces"]), list(raw["e1"]["interfaces"])]
        if case.cap is not None:
            iw[0][2] = iw[1][2] = case.cap
        c1o = Fraction(compute_weight(p1, iw[0], case.moves[0]))
        c2o = Fraction(compute_weight(old1, iw[1], case.moves[1]))
        c1n = Fraction(compute_weight(old1, iw[0], case.moves[0]))
        c2n = Fraction(compute_weight(p1, iw[1], case.moves[1]))
        ratio = Fraction(1) if (c1o == 0 or c2o == 0) else c1n * c2n / (c1o * c2o)
        u = Fraction(case.draws[0])
        if u != ratio and ((u < ratio) != (status == "ACC")):
            return f"high-acceptance swap: u={float(u)} ratio={ratio} but status {status}"
    return None


# --------------------------------------------------------------------------- generators


def minus_paths(maxL, lm1):
    """valid [0-] paths over the alphabet (plus, for lambda_-1, paths that start or end on the left)."""
    inner = [LM1, 1, L0] if lm1 else [-1, 1, L0]
    starts = [L0, 3] + ([LM1, -1] if lm1 else [])
    ends = [L0, 3] + ([LM1, -1] if lm1 else [])
    out = []
    for L in range(3, maxL + 1):
        for mid in itertools.product(inner, repeat=L - 2):
            for a in starts:
                for b in ends:
                    out.append((a,) + mid + (b,))
    return out


def plus_paths(maxL):
    inner = [L0, 3, LN]
    out = []
    for L in range(3, maxL + 1):
        for mid in itertools.product(inner, repeat=L - 2):
            for a in (1, L0):
                for b in (1, 6):
                    out.append((a,) + mid + (b,))
    return out


BACK_STREAMS = [[3], [1, 3], [1, 1, 3], [L0, 1, 3], [1, -1, 1, 3], [1, LM1, -1, LM1, 3], [1] * 14, [L0] * 14]
FORW_STREAMS = [[1], [3, 1], [3, 6], [L0, 3, 1], [LN, 6], [3, 4, 3, 1], [3] * 14, [LN] * 14]


def limits_for(nb, nf, rng):
    """length limits around the lengths the new paths would have (exact hits included)."""
    cands = {nb + 1, nb + 2, nb + 3, nf + 1, nf + 2, nf + 3, 12}
    return sorted({min(c, 13) for c in cands if c >= 2})


def stop_len(first, rest, left, right, ml):
    """frames consumed by the stop rule (python re-statement used only to choose limits)."""
    for k, o in enumerate([first] + list(rest)):
        if o < left or o > right or k + 1 == ml:
            return k + 1
    return len(rest) + 1


def gen_retis(ctx, rng, maxL, per_pair, n_cap):
    cases = []
    for lm1 in (False, True):
        mps, pps = minus_paths(maxL, lm1), plus_paths(maxL)
        pairs = [(a, b) for a in mps for b in pps]
        if len(pairs) > n_cap:
            # every [0-] path and every [0+] path still occurs: cover both marginals, then sample
            keep = [(a, pps[i % len(pps)]) for i, a in enumerate(mps)] + [(mps[i % len(mps)], b) for i, b in enumerate(pps)]
            keep += rng.sample(pairs, n_cap - len(keep)) if n_cap > len(keep) else []
            pairs = keep
            ctx.cov.setdefault("pair_sampling", {})[f"lm1={lm1}"] = f"{len(pairs)} of {len(mps) * len(pps)} pairs (all {len(mps)} [0-] and all {len(pps)} [0+] paths occur)"
        else:
            ctx.cov.setdefault("pair_sampling", {})[f"lm1={lm1}"] = f"all {len(pairs)} pairs"
        left = LM1 if lm1 else float("-inf")
        for a, b in pairs:
            for _ in range(per_pair):
                bs, fs = rng.choice(BACK_STREAMS), rng.choice(FORW_STREAMS)
                nb = stop_len(b[0], bs, left, L0, 99) + 1
                nf = stop_len(a[-1], fs, L0, LN, 99) + 1
                ml0 = rng.choice(limits_for(nb, nf, rng))
                ml1 = ml0 if rng.random() < 0.8 else rng.choice(limits_for(nb, nf, rng))
                cases.append(Case(lm1=lm1, maxlen0=ml0, maxlen1=ml1, old0=a, old1=b,
                                  script=[(None, bs), (None, fs)], direct=rng.random() < 0.1))
                ctx.dist(f"retis lm1={int(lm1)}")
    return cases


def gen_retis_grid(ctx, rng):
    """all stream patterns x all limits (exact hits) x lambda_-1 on a few representative pairs,
    plus degenerate inputs (short/empty paths, missing streams, dishonest first frames)."""
    cases = []
    reps0 = {False: [(3, 1, 3), (3, 1, L0), (L0, -1, 1, 3), (3, L0, 3), (3, 1, 6)],
             True: [(3, 1, 3), (-1, 1, 3), (3, 1, LM1), (3, 1, -1), (LM1, 1, L0), (3, 1, 6)]}
    reps1 = [(1, 3, 1), (L0, L0, 6), (1, LN, 3, 1), (1, 3, 6), (-1, 3, 1)]
    for lm1 in (False, True):
        left = LM1 if lm1 else float("-inf")
        for a in reps0[lm1]:
            for b in reps1:
                for bs in BACK_STREAMS:
                    for fs in FORW_STREAMS:
                        nb = stop_len(b[0], bs, left, L0, 99) + 1
                        nf = stop_len(a[-1], fs, L0, LN, 99) + 1
                        for ml in limits_for(nb, nf, rng):
                            cases.append(Case(lm1=lm1, maxlen0=ml, old0=a, old1=b, script=[(None, bs), (None, fs)]))
                            ctx.dist("retis grid")
                        cases.append(Case(lm1=lm1, maxlen0=nb + 2, maxlen1=nf + 1, old0=a, old1=b, script=[(None, bs), (None, fs)]))
                        cases.append(Case(lm1=lm1, maxlen0=nb + 3, maxlen1=nb, old0=a, old1=b, script=[(None, bs), (None, fs)]))
                        ctx.dist("retis grid unequal limits", 2)
    # degenerate
    for lm1 in (False, True):
        for a in [(), (3,), (1, 3), (3, 1), (3, 1, 1)]:
            for b in [(), (1,), (1, 3), (3, 3, 1)]:
                for ml in (1, 2, 3, 6):
                    cases.append(Case(lm1=lm1, maxlen0=ml, old0=a, old1=b, script=[(None, [1, 3]), (None, [3, 1])], direct=True))
                    ctx.dist("retis degenerate")
        cases.append(Case(lm1=lm1, maxlen0=8, old0=(3, 1, 3), old1=(1, 3, 1), script=[(None, [1, 1])], direct=True))
        cases.append(Case(lm1=lm1, maxlen0=8, old0=(3, 1, 3), old1=(1, 3, 1), script=[(None, [1, 3])], direct=True))
        cases.append(Case(lm1=lm1, maxlen0=8, old0=(3, 1, 3), old1=(1, 3, 1), script=[(4, [1, 3]), (1, [3, 1])]))
        cases.append(Case(lm1=lm1, maxlen0=8, old0=(3, 1, 3), old1=(1, 3, 1), script=[(1, [1, 3]), (6, [3, 1])]))
        ctx.dist("retis degenerate", 4)
    return cases


BIG_LIMIT = 15      # "much larger": above every needed length, below the 15 frames of the never-crossing tapes


def limit_grid(n0, n1):
    """limits around the lengths n0 / n1 the two new paths need (a path of n frames is accepted iff n < limit,
    so the smallest sufficient limit is n + 1): n - 1, n (exact hit), n + 1 (just enough), n + 2, and one much
    larger; for a run that never leaves the interfaces a small, a medium and the large limit."""
    g = {BIG_LIMIT}
    for n in (n0, n1):
        g |= {3, 8} if n is None else {n - 1, n, n + 1, n + 2}
    return sorted(x for x in g if 2 <= x <= BIG_LIMIT)


def gen_limits(ctx, rng):
    """INDEPENDENT length limits for [0-] and [0+]: every ordered pair (maxlen0, maxlen1) of the grid around the
    lengths the two new paths need, for every backward x forward stream pattern (new paths of 3 frames = the
    minimum included), retis and quantis, lambda_minus_one on/off."""
    cases = []
    pairs = {False: [((3, 1, 3), (1, 3, 1)), ((L0, -1, 1, 3), (L0, L0, 6))],
             True: [((3, 1, 3), (1, 3, 1)), ((-1, 1, 3), (1, LN, 3, 1))]}
    qpairs = {False: [((3, 1, 3), (1, 3, 1)), ((L0, -1, 1, 3), (1, LN, 6))],
              True: [((3, 1, 3), (1, 3, 1))]}

    def tally(kind, c, new0, new1):
        order = "<" if c.maxlen0 < c.maxlen1 else (">" if c.maxlen0 > c.maxlen1 else "=")
        ctx.dist(f"{kind} limit grid maxlen0{order}maxlen1")
        ctx.dist(f"{kind} limit grid expected {expected_by_limits(c, new0, new1)}")
        if (new0 is not None and len(new0) == 3) or (new1 is not None and len(new1) == 3):
            ctx.dist(f"{kind} limit grid with a 3-frame new path")

    for lm1 in (False, True):
        for a, b in pairs[lm1]:
            for bs in BACK_STREAMS:
                for fs in FORW_STREAMS:
                    base = dict(lm1=lm1, old0=a, old1=b, script=[(None, bs), (None, fs)])
                    new0, new1 = expected_new_paths(Case(maxlen0=BIG_LIMIT, **base))
                    g = limit_grid(None if new0 is None else len(new0), None if new1 is None else len(new1))
                    for ml0 in g:
                        for ml1 in g:
                            c = Case(maxlen0=ml0, maxlen1=ml1, direct=(ml0 + ml1) % 2 == 0, **base)
                            cases.append(c)
                            tally("retis", c, new0, new1)
        for a, b in qpairs[lm1]:
            for bs in BACK_STREAMS:
                for fs in FORW_STREAMS:
                    base = dict(quantis=True, lm1=lm1, old0=a, old1=b, v0=[0.0] * len(a), v1=[0.5] * len(b),
                                script=[(None, [3]), (None, [3]), (None, bs), (None, fs)],
                                energies=[[0.25, 0.0], [0.5, 0.0], None, None], draws=(0.5,), betas=(1.0, 1.0))
                    new0, new1 = expected_new_paths(Case(maxlen0=BIG_LIMIT, **base))
                    g = limit_grid(None if new0 is None else len(new0), None if new1 is None else len(new1))
                    for ml0 in g:
                        for ml1 in g:
                            c = Case(maxlen0=ml0, maxlen1=ml1, direct=(ml0 + ml1) % 2 == 0, **base)
                            cases.append(c)
                            tally("quantis", c, new0, new1)
    return cases


# ---- finite lambda_-1 for [0-] with the three start conditions a caller can give [0-]
SC0S = ("R", "L", ["L", "R"])
# scripted backward dynamics from the first [0+] frame (orders after the engine's own first frame): they end LEFT of
# lambda_-1, RIGHT of lambda_0, or never leave [lambda_-1, lambda_0] on the tape (the run is cut off by the length limit)
SC_BACK = {"left": [[-1], [1, -1], [1, LM1, -1], [LM1, 1, 1, -2]],
           "right": [[3], [1, 3], [1, LM1, 1, 3]],
           "never": [[1] * 14, [LM1, 1] * 7]}
SC_FORW = [[1], [3, 1], [LN, 6], [3] * 14]
SC_OLD0 = {"R": [(3, 1, 3), (3, LM1, 1, 3)], "L": [(-1, 1, 3), (LM1, 1, 1, 3)], "LR": [(3, 1, 3), (-1, LM1, 1, 3)]}
SC_OLD1 = [(1, 3, 1), (1, LN, 3, 6), (LM1, 3, 1)]
# levels of theory of the QuanTIS scenarios: (name, betas, V0(r0), V0(r1), V1(r1), V1(r0), draw, accept_all);
# exponent = beta0 * (V0(r0) - V0(r1)) - beta1 * (V1(r0) - V1(r1))
SC_THEORY = [("one level of theory (V0 = V1, E = 1)", (1.0, 1.0), 0.25, 0.5, 0.5, 0.25, 0.5, False),
             ("two levels of theory, E = 1", (0.5, 2.0), 1.0, 0.5, 0.0, 0.125, 0.999, False),
             ("two levels of theory, exponent -1/2, draw below E", (1.0, 0.5), 0.0, 0.5, 0.25, 0.25, 0.5, False),
             ("two levels of theory, exponent -1/2, draw above E", (1.0, 0.5), 0.0, 0.5, 0.25, 0.25, 0.75, False),
             ("two levels of theory, exponent -1/2, draw above E, accept_all", (1.0, 0.5), 0.0, 0.5, 0.25, 0.25, 0.75, True)]


def gen_start_cond(ctx, rng):
    """Finite left interface lambda_-1 for [0-] with start conditions "R", "L" and ["L", "R"] (a caller building the
    ensemble dicts itself; infretis' own set-up gives a finite lambda_-1 only together with ["L", "R"]), retis and
    QuanTIS (one and two levels of theory), scripted backward dynamics from the first [0+] frame that end left of
    lambda_-1, right of lambda_0, or run out of length, x forward patterns x limits around the needed lengths.
    The outcome is fixed by the statement (limits_oracle): accepted iff both complete new paths are below their own
    limits AND the new [0-] path starts on a side the [0-] ensemble's own start condition allows."""
    cases = []
    stats = {}
    for sc0 in SC0S:
        key = sc0 if isinstance(sc0, str) else "LR"
        for a in SC_OLD0[key]:
            for b in SC_OLD1:
                for ends, streams in SC_BACK.items():
                    for bs in streams:
                        for fs in SC_FORW:
                            variants = [dict(script=[(None, bs), (None, fs)])]
                            for name, betas, v0r0, v0r1, v1r1, v1r0, u, acc_all in SC_THEORY:
                                v0 = [0.0] * len(a)
                                v0[-2] = v0r0
                                v1 = [0.0] * len(b)
                                v1[0] = v1r1
                                variants.append(dict(quantis=True, v0=v0, v1=v1, betas=betas, draws=(u,), accept_all=acc_all,
                                                     script=[(None, [3]), (None, [3]), (None, bs), (None, fs)],
                                                     energies=[[v0r1, 0.0], [v1r0, 0.0], None, None]))
                            for var in variants:
                                base = dict(lm1=True, sc0=sc0, old0=a, old1=b, **var)
                                probe = Case(maxlen0=BIG_LIMIT, maxlen1=BIG_LIMIT, **base)
                                new0, new1 = expected_new_paths(probe)
                                n0 = None if new0 is None else len(new0)
                                n1 = None if new1 is None else len(new1)
                                lims = {(BIG_LIMIT, BIG_LIMIT)}
                                if n0 is not None:
                                    lims |= {(n0, BIG_LIMIT)}
                                    if n1 is not None:
                                        lims |= {(n0 + 1, n1 + 1), (n0 + 1, n1)}
                                else:
                                    lims |= {(8, BIG_LIMIT), (BIG_LIMIT, 4)}
                                for ml0, ml1 in sorted(lims):
                                    if min(ml0, ml1) < 2 or max(ml0, ml1) > BIG_LIMIT:
                                        continue
                                    c = Case(maxlen0=ml0, maxlen1=ml1, direct=(ml0 + ml1 + len(bs)) % 3 == 0, **base)
                                    cases.append(c)
                                    mv = "quantis" if c.quantis else "retis"
                                    exp = expected_by_limits(c, new0, new1)
                                    ctx.dist(f"{mv} finite lambda_-1, start_cond of [0-] {key}: backward run ends {ends}")
                                    ctx.dist(f"{mv} finite lambda_-1, start_cond of [0-] {key}: statement demands {exp}")
                                    stats[(mv, exp)] = stats.get((mv, exp), 0) + 1
        # the one-step crossing conditions fail / the old [0-] path ended on the left
        for a, b, s0, s1 in (((3, 1, 3), (1, 3, 1), [1], [3]), ((3, 1, 3), (1, 3, 1), [3], [1]), ((3, 1, -1), (1, 3, 1), [3], [3]),
                             ((-1, 1, -1), (1, 3, 1), [3], [3]), ((3, 1, LM1), (1, 3, 1), [3], [3])):
            for bs in ([1, -1], [1, 3]):
                cases.append(Case(quantis=True, lm1=True, sc0=sc0, maxlen0=9, old0=a, old1=b, v0=[0.0] * len(a), v1=[0.0] * len(b),
                                  script=[(None, s0), (None, s1), (None, bs), (None, [3, 1])],
                                  energies=[[0.0, 0.0], [0.0, 0.0], None, None], draws=(0.5,)))
                cases.append(Case(lm1=True, sc0=sc0, maxlen0=9, old0=a, old1=b, script=[(None, bs), (None, [3, 1])]))
                ctx.dist(f"finite lambda_-1, start_cond of [0-] {key}: one-step conditions fail / old [0-] path ends on the left", 2)
    ctx.cov["start_cond_family"] = {"cases": len(cases), "statement_demands": {f"{mv} {exp}": n for (mv, exp), n in sorted(stats.items())}}
    return cases, stats


def gen_wf(ctx, rng, n):
    """'wf' in the moves: high-acceptance swap; the draw on a grid around the ratio."""
    from infretis.core.tis import compute_weight
    cases = []
    old1s = [(1, 3, 1), (1, 3, 4, 3, 1), (1, 3, LN, 6), (L0, 3, L0, 3, 1), (1, 4, 3, 4, 3, 1), (1, 3, 4, 6), (1, LN, 3, LN, 1)]
    fss = [[3, 1], [3, 4, 3, 1], [3, 4, 6], [4, 3, 4, 3, 4, 1], [3, LN, 6], [4, 3, 3, 4, 1], [LN, 6]]
    for moves in (("sh", "wf"), ("wf", "wf"), ("wf", "sh"), ("sh", "ss")):
        for cap in (None, 4, LN):
            for b in old1s:
                for fs in fss:
                    for lm1 in (False, True):
                        a = (3, 1, 3)
                        # dry run with u = 0 to learn the ratio from the implementation's own weights
                        base = dict(lm1=lm1, moves=moves, cap=cap, maxlen0=12, old0=a, old1=b, script=[(None, [1, 3]), (None, fs)])
                        cases.append(("probe", base))
    return cases


def expand_wf(ctx, probes, TapeEngine, shim):
    from infretis.core.tis import compute_weight
    cases = []
    for _, base in probes:
        c = Case(draws=(0.0,), **base)
        _, raw, _ = run_impl(c, TapeEngine, shim)
        if raw["error"] or raw["rgen"].used == 0:
            cases.append(Case(draws=(0.5,), **base))
            ctx.dist("wf (no draw used)")
            continue
        p1, old1 = raw["paths"][1], raw["old1"]
        iw = [list(raw["e0"]["interfaces"]), list(raw["e1"]["interfaces"])]
        if base["cap"] is not None:
            iw[0][2] = iw[1][2] = base["cap"]
        mv = base["moves"]
        c1o, c2o = compute_weight(p1, iw[0], mv[0]), compute_weight(old1, iw[1], mv[1])
        c1n, c2n = compute_weight(old1, iw[0], mv[0]), compute_weight(p1, iw[1], mv[1])
        ratio = Fraction(1) if (c1o == 0 or c2o == 0) else Fraction(c1n) * Fraction(c2n) / (Fraction(c1o) * Fraction(c2o))
        grid = {0.0, 0.25, 0.5, 0.75, 0.999}
        r = float(ratio)
        for d in (-1e-9, 1e-9, -0.01, 0.01):
            if 0.0 <= r + d < 1.0:
                grid.add(r + d)
        if Fraction(r) == ratio and 0.0 <= r < 1.0:
            grid.add(r)            # exact hit only when the float IS the ratio
        for u in sorted(grid):
            cases.append(Case(draws=(u,), **base))
            ctx.dist("wf high-acceptance")
    return cases


def gen_quantis(ctx, rng, maxL, n_pairs):
    import numpy as np
    cases = []
    dy = [0.0, 0.5, -0.5, 1.0, -1.25, 2.0, 0.125]
    betas_l = [(1.0, 1.0), (0.5, 2.0), (2.0, 0.25)]
    one0 = [[3], [L0], [1], [6]]            # one step from old[0+][0] in engine 0
    one1 = [[3], [L0], [1], [4]]            # one step from old[0-][-2] in engine 1
    for lm1 in (False, True):
        mps = [p for p in minus_paths(maxL, lm1)]
        pps = plus_paths(maxL)
        pairs = [(a, b) for a in mps for b in pps]
        strict = [(a, b) for a, b in pairs if a[-2] < L0 and b[0] < L0 and a[-1] > LM1]
        pairs = rng.sample(strict, min(n_pairs - n_pairs // 5, len(strict))) + rng.sample(pairs, min(n_pairs // 5, len(pairs)))
        left = LM1 if lm1 else float("-inf")
        for a, b in pairs:
            s0, s1 = rng.choice(one0), rng.choice(one1)
            if rng.random() < 0.7:
                s0, s1 = [3], [3]
            bs, fs = rng.choice(BACK_STREAMS), rng.choice(FORW_STREAMS)
            nb = stop_len(b[0], bs, left, L0, 99) + 1
            nf = stop_len(s1[0], fs, L0, LN, 99) + 1
            ml0 = rng.choice(limits_for(nb, nf, rng))
            ml1 = ml0 if rng.random() < 0.8 else rng.choice(limits_for(nb, nf, rng))
            v0 = [rng.choice(dy) for _ in a]
            v1 = [rng.choice(dy) for _ in b]
            if rng.random() < 0.05:
                v0[-2] = None
            if rng.random() < 0.05:
                v1[0] = None
            en = [[rng.choice(dy), rng.choice(dy)], [rng.choice(dy), rng.choice(dy)], None, None]
            if rng.random() < 0.03:
                en[rng.randrange(2)] = None
            betas = rng.choice(betas_l)
            acc_all = rng.random() < 0.15
            # threshold grid: E as numpy computes it
            grid = [0.0, 0.3, 0.9999999]
            if v0[-2] is not None and v1[0] is not None and en[0] and en[1]:
                x = (v0[-2] - en[0][0]) * betas[0] - (en[1][0] - v1[0]) * betas[1]
                E = float(min(1.0, np.exp(x)))
                grid += [E] + [E + d for d in (-1e-12, 1e-12, -0.05, 0.05) if 0.0 <= E + d < 1.0]
            for u in sorted(set(g for g in grid if 0.0 <= g <= 1.0)):
                cases.append(Case(quantis=True, lm1=lm1, maxlen0=ml0, maxlen1=ml1, old0=a, old1=b, v0=v0, v1=v1,
                                  script=[(None, s0), (None, s1), (None, bs), (None, fs)], energies=en, draws=(u,),
                                  betas=betas, accept_all=acc_all, direct=rng.random() < 0.1))
                ctx.dist(f"quantis lm1={int(lm1)}")
    # degenerate / dishonest engines
    for a in [(3,), (1, 3), (3, 1, 3)]:
        for b in [(), (1,), (1, 3, 1), (3, 3, 1)]:
            cases.append(Case(quantis=True, maxlen0=8, old0=a, old1=b, v0=[0.0] * len(a), v1=[0.0] * len(b),
                              script=[(None, [3]), (None, [3]), (None, [1, 3]), (None, [3, 1])],
                              energies=[[0.0, 0.0], [0.0, 0.0], None, None], draws=(0.5,), direct=True))
            ctx.dist("quantis degenerate")
    for firsts in [(3, None, None, None), (None, 3, None, None), (None, None, 3, None), (None, None, None, 1), (None, 1, None, None), (-1, None, None, None)]:
        for lm1 in (False, True):
            cases.append(Case(quantis=True, lm1=lm1, maxlen0=9, old0=(3, 1, 3), old1=(1, 3, 1), v0=[0.0] * 3, v1=[0.0] * 3,
                              script=[(firsts[0], [3]), (firsts[1], [3]), (firsts[2], [1, 3]), (firsts[3], [3, 1])],
                              energies=[[0.0, 0.0], [0.0, 0.0], None, None], draws=(0.0,)))
            ctx.dist("quantis dishonest first frame")
    return cases


# --------------------------------------------------------------------------- reversible engines: double swap


def _walls(x):
    return 8 if x <= -4 else (-8 if x >= 9 else 0)


def _well(x):
    return 1 if x < 2 else (-1 if x > 2 else 0)


def _soft(x):
    return 2 if x < 0 else (-1 if x > 3 else 0)


def _lm1well(x):
    return 3 if x <= -3 else (-2 if x >= 8 else 0)


def _steep(x):
    return 4 if x <= -2 else (-3 if x >= 6 else (1 if x < 2 else 0))


# kick tables of the integer velocity-Verlet engine: each one is a different dynamics
FORCES = {"free+walls": _walls, "well": _well, "soft": _soft, "lm1well": _lm1well, "steep": _steep}
ONE_ENGINE_FORCES = ["free+walls", "well", "soft", "lm1well"]


def double_swap_cases(ctx, rng, n):
    """Initial conditions for ONE deterministic reversible dynamics used by both engine objects: a force
    table and a state; the [0-] and [0+] paths are cut from the trajectory through the state."""
    out = []
    for name in ONE_ENGINE_FORCES:
        for x in range(-2, 9):
            for v in range(-3, 4):
                out.append((name, FORCES[name], (x, v)))
    rng.shuffle(out)
    return out[:n]


def double_swap2_cases(ctx, rng, n):
    """TWO different dynamics: an ordered pair of different force tables (F0 for the [0-] engine, F1 for
    the [0+] engine) and one state per ensemble; the [0-] path is cut from the F0-trajectory through
    the first state, the [0+] path from the F1-trajectory through the second."""
    names = sorted(FORCES)
    states = [(x, v) for x in range(-2, 9) for v in range(-3, 4)]
    out = []
    for _ in range(n):
        n0 = rng.choice(names)
        n1 = rng.choice([m for m in names if m != n0])
        out.append((n0, n1, rng.choice(states), rng.choice(states)))
    return out


def verlet_line(F, s, nsteps):
    """states T^-nsteps(s) .. T^nsteps(s) of the velocity-Verlet dynamics with kick table F"""
    def T(s):
        return vv_step(F, s)

    R = vv_reverse
    forw = [s]
    for _ in range(nsteps):
        forw.append(T(forw[-1]))
    back = [s]
    for _ in range(nsteps):
        back.append(R(T(R(back[-1]))))
    return list(reversed(back[1:])) + forw


def cut_minus(xs, left, lm1, maxlen):
    """indices (i, j): xs[i..j] is a valid [0-] path (first frame beyond an interface, interior inside
    [left, L0], second last frame strictly left of L0, last frame strictly right of it), 3 <= length < maxlen"""
    for j in range(2, len(xs)):
        if xs[j] > L0 and xs[j - 1] < L0 and left <= xs[j - 1]:
            i = j - 1
            while i >= 0 and left <= xs[i] <= L0:
                i -= 1
            if i < 0 or j - i + 1 < 3 or j - i + 1 >= maxlen:
                continue
            if not (xs[i] > L0 or (xs[i] < left and lm1)):
                continue
            return i, j
    return None


def cut_plus(xs, left, maxlen):
    """indices (a, k): xs[a..k] is a valid [0+] path (first frame strictly left of L0 and not beyond
    lambda_-1, interior inside [L0, LN] starting strictly right of L0, last frame outside), 3 <= length < maxlen"""
    for a in range(0, len(xs) - 2):
        if xs[a] < L0 and left <= xs[a] and xs[a + 1] > L0:
            k = a + 1
            while k < len(xs) and L0 <= xs[k] <= LN:
                k += 1
            if k >= len(xs) or k - a + 1 < 3 or k - a + 1 >= maxlen:
                continue
            return a, k
    return None


def trajectory_error(world, eng0, eng1, quantis, n0, n1):
    """validity of the new paths in their ensembles, as dynamics: apart from the shared shooting points
    (retis: the last frame of the new [0-] path and the first of the new [0+] path) consecutive frames
    of the new [0-] path are one step of the [0-] engine's dynamics apart, those of the new [0+] path one
    step of the [0+] engine's."""
    def phys(eng, s):
        st = world["states"][tuple(s.config)]
        return eng.R(st) if s.vel_rev else st

    seg0 = n0.phasepoints if quantis else n0.phasepoints[:-1]
    seg1 = n1.phasepoints if quantis else n1.phasepoints[1:]
    for name, seg, eng, path in (("[0-]", seg0, eng0, n0), ("[0+]", seg1, eng1, n1)):
        for k in range(len(seg) - 1):
            a, b = phys(eng, seg[k]), phys(eng, seg[k + 1])
            if eng.T(a) != b:
                return (f"the new {name} path {orders_of(path)} is not a trajectory of the {name} engine's dynamics: after state (x, v)={a} "
                        f"(order {seg[k].order[0]}) that engine's step gives {eng.T(a)}, the path continues with {b} (order {seg[k + 1].order[0]})")
    return None


def run_double_swap(ctx, VerletEngine, ds_log, quantis, lm1, names, starts, maxlen, accept_all=True):
    """Build a valid [0-]/[0+] pair with the engines' own dynamics, then swap twice with the REAL function.
    names = (force table of the [0-] engine, force table of the [0+] engine); starts = (state, None): one
    dynamics, both paths cut from the trajectory through the state (they share the two crossing frames);
    starts = (state0, state1) with two different tables: the [0-] path from the F0-trajectory through
    state0, the [0+] path from the F1-trajectory through state1.
    Oracle per swap: engine identities of the calls and frames, the new paths are trajectories of their
    own ensemble's dynamics; after two swaps: both original order sequences are back.
    ds_log: list collecting [request, implementation answer, description, oracle failed?] of every retis
    swap for the comparison with the extracted model.
    maxlen: one limit for both ensembles, or a pair (maxlength of [0-], maxlength of [0+]).
    Returns (list of (kind, message) of the statement's clauses that fail, evaluated?)."""
    import infretis.core.tis as tis
    ml0, ml1 = (maxlen, maxlen) if isinstance(maxlen, int) else (int(maxlen[0]), int(maxlen[1]))
    mlmax = max(ml0, ml1)
    from infretis.classes.path import Path
    from infretis.classes.system import System
    world = {"states": {}, "ncalls": 0, "streams": [], "calls": []}
    F0, F1 = FORCES[names[0]], FORCES[names[1]]
    two = starts[1] is not None
    vf0 = (lambda x: 0.25 * x) if quantis else (lambda x: 0.0)
    vf1 = ((lambda x: 0.5 * x + 1.0) if two else vf0) if quantis else (lambda x: 0.0)
    betas = (1.0, 0.5 if two else 1.0)
    eng0 = VerletEngine(world, F0, vf0, beta=betas[0], eid=0)
    eng1 = VerletEngine(world, F1, vf1, beta=betas[1], eid=1)
    e0, e1 = ensembles(lm1, ("sh", "sh"), ml0, ml1, None, accept_all, quantis)
    rgen = ScriptRng([0.0] * 8)
    e0["rgen"] = rgen
    e1["rgen"] = ScriptRng(())
    left = LM1 if lm1 else float("-inf")
    line0 = verlet_line(F0, starts[0], 3 * mlmax)
    xs0 = [s[0] for s in line0]
    if two:
        line1 = verlet_line(F1, starts[1], 3 * mlmax)
        xs1 = [s[0] for s in line1]
        c0, c1 = cut_minus(xs0, left, lm1, ml0), cut_plus(xs1, left, ml1)
        if not c0 or not c1:
            return [], False
        st0, st1 = line0[c0[0]:c0[1] + 1], line1[c1[0]:c1[1] + 1]
    else:
        # one trajectory: [0-] = i..j, [0+] = j-1..k
        found = None
        for j in range(2, len(xs0) - 2):
            if xs0[j] > L0 and xs0[j - 1] < L0 and left <= xs0[j - 1]:
                i = j - 1
                while i >= 0 and left <= xs0[i] <= L0:
                    i -= 1
                if i < 0 or j - i + 1 < 3:
                    continue
                if not (xs0[i] > L0 or xs0[i] < left):
                    continue
                if xs0[i] < left and not lm1:
                    continue
                k = j
                while k < len(xs0) and L0 <= xs0[k] <= LN:
                    k += 1
                if k >= len(xs0) or k - (j - 1) + 1 < 3:
                    continue
                if j - i + 1 >= ml0 or k - j + 2 >= ml1:
                    continue
                found = (i, j, k)
                break
        if not found:
            return [], False
        i, j, k = found
        st0, st1 = line0[i:j + 1], line0[j - 1:k + 1]

    def build(name_, states, vf, ml):
        p = Path(maxlen=ml)
        for n_, s in enumerate(states):
            sy = System()
            sy.order = [float(s[0])]
            sy.config = (name_, n_)
            sy.vel_rev = False
            sy.vpot = vf(s[0])
            sy.ekin = 0.0
            world["states"][(name_, n_)] = s
            p.phasepoints.append(sy)
        p.status = "ACC"
        p.weight = 1.0
        return p

    old0 = build("old0", st0, vf0, ml0)
    old1 = build("old1", st1, vf1, ml1)
    hist = [(orders_of(old0), orders_of(old1))]
    cur0, cur1 = old0, old1
    fn = tis.quantis_swap_zero if quantis else tis.retis_swap_zero
    who = (f"reversible engines F0={names[0]} for [0-] / F1={names[1]} for [0+], states {starts[0]} / {starts[1]}" if two
           else f"reversible engine {names[0]}, start {starts[0]}")
    who += f", lm1={lm1}, quantis={quantis}, limits maxlength[0-]={ml0}, maxlength[0+]={ml1}"
    errs = []
    log0 = len(ds_log) if ds_log is not None else 0

    def done(evaluated):
        if errs and ds_log is not None:
            for entry in ds_log[log0:]:
                entry[3] = True
        return errs, evaluated

    for step in range(2):
        picked = {-1: {"ens": e0, "traj": cur0}, 0: {"ens": e1, "traj": cur1}}
        ncalls0, used0 = len(world["calls"]), rgen.used
        enc_old = (enc_path(cur0), enc_path(cur1))
        acc, (n0, n1), status = fn(picked, {-1: [eng0], 0: [eng1]})
        calls = world["calls"][ncalls0:]
        if not quantis and ds_log is not None:
            produced = [[(o, tag_of(cfg), rv) for o, cfg, rv in st] for st in world["streams"][ncalls0:]]
            ds_log.append([enc_request(False, (enc_ens(e0), enc_ens(e1)), betas, enc_old, produced, (), {}, None),
                           enc_answer(acc, status, rgen.used - used0, (n0, n1), calls, None),
                           {"names": list(names), "starts": [starts[0], starts[1]], "lm1": lm1, "maxlen": maxlen, "swap": step + 1}, False])
        if acc:
            err = trajectory_error(world, eng0, eng1, quantis, n0, n1)
            if err:
                errs.append(("not a trajectory", f"{who}: swap {step + 1} of {hist[-1]}: {err}"))
            g0, g1 = orders_of(n0), orders_of(n1)
            # each new path below ITS OWN limit and complete, for every pair of limits
            if not (len(g0) < ml0 and len(g1) < ml1):
                errs.append(("not below its own limit", f"{who}: swap {step + 1} of {hist[-1]} accepted paths of {len(g0)} / {len(g1)} frames: {g0} / {g1}"))
            if not (g0[0] < left or g0[0] > L0):
                errs.append(("incomplete path", f"{who}: swap {step + 1} of {hist[-1]} accepted an incomplete new [0-] path {g0} (first frame inside the interfaces)"))
            if not (g1[-1] < L0 or g1[-1] > LN):
                errs.append(("incomplete path", f"{who}: swap {step + 1} of {hist[-1]} accepted an incomplete new [0+] path {g1} (last frame inside [{L0}, {LN}])"))
        err = engines_oracle(quantis, acc, n0, n1, calls)
        if err:
            errs.append(("wrong engine", f"{who}: swap {step + 1} of {hist[-1]}: {err}"))
        if not acc:
            if step == 0:
                return done(bool(errs))     # first swap rejected (e.g. too long): nothing more to check
            errs.append(("swap back rejected", f"{who}: first swap accepted, the swap back was rejected with {status}; paths {hist[0]} -> {hist[-1]}"))
            return done(True)
        hist.append((orders_of(n0), orders_of(n1)))
        cur0, cur1 = n0, n1
    if hist[2] != hist[0]:
        errs.append(("not restored", f"{who}: swapping twice gave {hist[2]} instead of the original {hist[0]} (intermediate {hist[1]})"))
    if not errs:
        ctx.dist(f"double swap {'two engines ' if two else ''}{'quantis' if quantis else 'retis'} lm1={int(lm1)}{'' if ml0 == ml1 else ' unequal limits'}")
    return done(True)


# --------------------------------------------------------------------------- real file-writing engines in one worker directory
#
# Oracle only, real files (no model comparison): the zero swaps are run by two TurtleMDEngine OBJECTS (the
# double-well system of examples/turtlemd/double_well) that share one worker directory, exactly as a worker's
# [0-] and [0+] engines do.  The frames of the new paths are (file name, index) references: the statement is
# about the configurations those references resolve to, so the oracle reads them back.

RF_L0, RF_LN = -0.99, 1.0
RF_MAXLEN = 2000
RF_TOL = 1e-6
# engine parameters: "A" is the example's engine; "B" is a different level of theory (other timestep, other
# potential) used for [0+] in the scenarios with two distinguishable engines
RF_PARAMS = {"A": {"timestep": 0.025, "b": 2.0}, "B": {"timestep": 0.02, "b": 2.1}}
# (x, v) of the configuration the start paths are grown from (backward + forward with the ensemble's own engine)
RF_MINUS = [(-1.1, -0.2), (-1.05, 0.3), (-1.2, 0.0), (-1.02, -0.35)]
RF_PLUS = [(-0.9, 0.25), (-0.8, -0.3), (-0.9, 1.5), (-0.95, 0.4), (-0.7, 0.0)]      # (-0.9, 1.5) crosses the barrier: ends beyond lambda_N
RF_KINDS = ("frame data", "shared file", "junction", "rejected", "swap back rejected", "not restored", "raised")


def rf_engine(key, seed):
    """TurtleMDEngine built by infretis' own factory from the example's [engine] section.  The integrator is
    turtlemd's VelocityVerlet (deterministic, exactly time-reversible); TurtleMDEngine hands every integrator a
    `seed` argument that VelocityVerlet does not take, so the class is plugged in through a one-line adapter."""
    import contextlib
    import io
    import numpy as np
    from infretis.classes.engines.factory import create_engine
    from infretis.classes.orderparameter import create_orderparameters
    from turtlemd.integrators import VelocityVerlet
    p = RF_PARAMS[key]
    settings = {"class": "turtlemd", "engine": "turtlemd", "timestep": p["timestep"], "temperature": 0.07, "boltzmann": 1.0,
                "subcycles": 1, "integrator": {"class": "VelocityVerlet", "settings": {}},
                "potential": {"class": "DoubleWell", "settings": {"a": 1.0, "b": p["b"], "c": 0.0}},
                "particles": {"mass": [1.0], "name": ["Z"], "pos": [[-1.0]]}, "box": {"periodic": [False]}}
    with contextlib.redirect_stdout(io.StringIO()):         # the constructor prints a to-do note
        eng = create_engine({"engine": settings})
    eng.integrator = lambda timestep, seed=None, **kw: VelocityVerlet(timestep=timestep)
    eng.integrator_settings = {}
    eng.rgen = np.random.default_rng(seed)
    create_orderparameters({"engine": [eng]}, {"orderparameter": {"class": "Position", "index": [0, 0], "periodic": False}})
    return eng


def rf_ensembles(quantis, accept_all):
    """[0-] and [0+] dicts as REPEX_state.initiate_ensembles builds them (one shared tis_set, as in a simulation)"""
    from infretis.classes.repex import REPEX_state
    tis = {"lambda_minus_one": False, "maxlength": RF_MAXLEN, "allowmaxlength": False, "zero_momentum": False, "n_jumps": 4,
           "accept_all": accept_all, "quantis": quantis}
    fake = types.SimpleNamespace(config={"simulation": {"interfaces": [RF_L0, RF_LN], "tis_set": tis, "shooting_moves": ["sh", "sh"]}})
    REPEX_state.initiate_ensembles(fake)
    e0, e1 = dict(fake.ensembles[0]), dict(fake.ensembles[1])
    e0["rgen"] = ScriptRng([0.5] * 8)
    e1["rgen"] = ScriptRng(())
    return e0, e1


def rf_grow(engine, ens_set, state, wdir):
    """a path of the ensemble through the configuration `state` = (x, v): backward and forward run of the
    ensemble's own engine in its own directory, pasted as shoot does"""
    import os
    import numpy as np
    from infretis.classes.engines.engineparts import write_xyz_trajectory
    from infretis.classes.path import Path, paste_paths
    from infretis.classes.system import System
    os.makedirs(wdir)
    engine.exe_dir = wdir
    start = os.path.join(wdir, "start.xyz")
    write_xyz_trajectory(start, np.array([[state[0], 0.0, 0.0]]), np.array([[state[1], 0.0, 0.0]]), ["Z"], None, append=False)
    s = System()
    s.config = (start, 0)
    s.order = [state[0]]
    s.vel_rev = False
    back, forw = Path(maxlen=RF_MAXLEN), Path(maxlen=RF_MAXLEN)
    engine.propagate(back, ens_set, s.copy(), reverse=True)
    engine.propagate(forw, ens_set, s.copy(), reverse=False)
    p = paste_paths(back, forw, overlap=True, maxlen=RF_MAXLEN)
    p.status = "ACC"
    p.weight = 1.0
    return p


def rf_name(fname):
    """file name without directory and pid (messages and replays must not depend on them)"""
    import os
    return re.sub(rf"_{os.getpid()}_", "_<pid>_", os.path.basename(str(fname)))


def rf_clean(text):
    """a message (e.g. of an exception) without directories and pid"""
    import os
    return re.sub(rf"_{os.getpid()}_", "_<pid>_", re.sub(r"/[^\s'\"]*/", "", str(text)))


class RfReader:
    """reads the configuration a frame refers to with the engine's own reader (read_xyz_file / convert_snapshot,
    what TurtleMDEngine._read_configuration and _extract_frame use)"""

    def __init__(self):
        self.files = {}

    def frames(self, fname):
        import os
        from infretis.classes.engines.engineparts import convert_snapshot, read_xyz_file
        if fname not in self.files:
            if not os.path.isfile(fname):
                self.files[fname] = None
            else:
                self.files[fname] = [convert_snapshot(snap) for snap in read_xyz_file(fname)]
        return self.files[fname]

    def state(self, engine, pp):
        """(problem, x, physical v, order computed from the stored configuration) of a phase point"""
        fname, idx = pp.config
        fr = self.frames(fname)
        if fr is None:
            return f"refers to the file {rf_name(fname)}, which does not exist", None, None, None
        idx = 0 if idx is None else int(idx)
        if not 0 <= idx < len(fr):
            return f"refers to frame {idx} of {rf_name(fname)}, which holds {len(fr)} frame(s)", None, None, None
        box, xyz, vel, _ = fr[idx]
        probe = pp.copy()
        order = engine.calculate_order(probe, xyz=xyz, vel=vel, box=box if box is not None else engine.box.length)
        v = float(vel[0][0]) * (-1.0 if pp.vel_rev else 1.0)
        return None, float(xyz[0][0]), v, float(order[0])


class PropagateRecorder:
    """wraps EngineBase.propagate while active: per call, the files of the engine's directory that the call
    created or changed (size, mtime, content)"""

    def __init__(self):
        self.calls = []

    @staticmethod
    def listing(d):
        import hashlib
        import os
        out = {}
        for item in os.scandir(d):
            if item.is_file():
                st = item.stat()
                with open(item.path, "rb") as f:
                    out[item.name] = (st.st_size, st.st_mtime_ns, hashlib.sha1(f.read()).hexdigest())
        return out

    def __enter__(self):
        from infretis.classes.engines.enginebase import EngineBase
        self.cls = EngineBase
        self.orig = EngineBase.propagate
        rec = self

        def propagate(eng, path, ens_set, system, reverse=False):
            before = rec.listing(eng.exe_dir)
            try:
                return rec.orig(eng, path, ens_set, system, reverse=reverse)
            finally:
                after = rec.listing(eng.exe_dir)
                rec.calls.append({"engine": getattr(eng, "rf_label", "?"), "ens_name": ens_set["ens_name"], "reverse": bool(reverse),
                                  "written": sorted(n for n, v in after.items() if before.get(n) != v)})

        EngineBase.propagate = propagate
        return self

    def __exit__(self, *a):
        self.cls.propagate = self.orig
        return False


def rf_swap_oracle(scn, step, olds, news, engines, calls, same):
    """clauses (1)-(3) on one accepted swap.  olds / news: (path [0-], path [0+]).  Returns [(kind, message)]."""
    errs = []
    quantis = scn["move"] == "quantis"
    rd = RfReader()
    names = ("[0-]", "[0+]")
    # (1) every frame carries its own data
    for name, path, eng in zip(names, news, engines):
        bad = []
        for k, pp in enumerate(path.phasepoints):
            prob, x, v, o = rd.state(eng, pp)
            if prob:
                bad.append(f"frame {k} (order {float(pp.order[0]):.9f}) {prob}")
            elif abs(o - float(pp.order[0])) > RF_TOL:
                bad.append(f"frame {k} has order {float(pp.order[0]):.9f} but the configuration it refers to "
                           f"({rf_name(pp.config[0])}, {pp.config[1]}) has order {o:.9f}")
        if bad:
            errs.append(("frame data", f"swap {step}: {len(bad)} of {path.length} frames of the new {name} path do not refer to their own "
                                       f"configuration, e.g. {bad[0]}"))
    # (2) distinct propagate calls of the move never write the same file
    def who_call(n, c):
        return (f"propagate call {n + 1} (engine object of {c['engine']}, ens_name {c['ens_name']}, "
                f"{'backward' if c['reverse'] else 'forward'})")

    shared = [(i, j, sorted(set(calls[i]["written"]) & set(calls[j]["written"])))
              for i in range(len(calls)) for j in range(i + 1, len(calls))]
    shared = [t for t in shared if t[2]]
    if shared:
        i, j, both = shared[0]
        errs.append(("shared file", f"swap {step}: {who_call(i, calls[i])} and {who_call(j, calls[j])} of one move wrote the same file(s) "
                                    f"{[rf_name(n) for n in both]} in the shared worker directory"))
    # (3) junction, on the configurations
    old0, old1 = olds
    new0, new1 = news
    pairs = [("new [0+] frame 0", new1.phasepoints[0], engines[1], "old [0-] frame -2", old0.phasepoints[-2], engines[0]),
             ("new [0-] frame -2", new0.phasepoints[-2], engines[0], "old [0+] frame 0", old1.phasepoints[0], engines[1])]
    if same or not quantis:
        # retis: the shared points are copies of the old frames; quantis: the one-step frames, equal to the old
        # crossing frames when both ensembles have the same dynamics
        pairs += [("new [0+] frame 1", new1.phasepoints[1], engines[1], "old [0-] frame -1", old0.phasepoints[-1], engines[0]),
                  ("new [0-] frame -1", new0.phasepoints[-1], engines[0], "old [0+] frame 1", old1.phasepoints[1], engines[1])]
    for na, pa, ea, nb, pb, eb in pairs:
        proba, xa, va, _ = rd.state(ea, pa)
        probb, xb, vb, _ = rd.state(eb, pb)
        if proba or probb:
            errs.append(("junction", f"swap {step}: {na if proba else nb} {proba or probb}"))
        elif abs(xa - xb) > RF_TOL or abs(va - vb) > RF_TOL or abs(float(pa.order[0]) - float(pb.order[0])) > RF_TOL:
            errs.append(("junction", f"swap {step}: {na} (order {float(pa.order[0]):.9f}, stored configuration x={xa:.9f} v={va:.9f}) is not "
                                     f"{nb} (order {float(pb.order[0]):.9f}, stored configuration x={xb:.9f} v={vb:.9f})"))
    return errs


def run_real_files(scn):
    """One scenario: scn = {"move": retis|quantis, "engines": same|different, "minus": (x, v), "plus": (x, v)}.
    Start paths are grown by separate engine objects in their own directories; then the REAL zero swap is run
    twice by two fresh TurtleMDEngine objects sharing one worker directory per move.
    Returns ([(kind, message)], evaluated?, info)."""
    import os
    import infretis.core.tis as tis
    quantis = scn["move"] == "quantis"
    same = scn["engines"] == "same"
    k0, k1 = "A", ("A" if same else "B")
    who = f"{scn['move']} zero swap run by two real TurtleMDEngine objects sharing the worker directory"
    tail = (f" [scenario: engine of [0-] {RF_PARAMS[k0]}, engine of [0+] {RF_PARAMS[k1]}, start paths grown through (x, v) = "
            f"{tuple(scn['minus'])} / {tuple(scn['plus'])}]")
    tmp = common.scratch_dir("infv_c11rf_")
    errs = []
    info = {}
    try:
        e0, e1 = rf_ensembles(quantis, accept_all=not same)
        old0 = rf_grow(rf_engine(k0, 11), e0, scn["minus"], os.path.join(tmp, "grow0"))
        old1 = rf_grow(rf_engine(k1, 12), e1, scn["plus"], os.path.join(tmp, "grow1"))
        o0, o1 = orders_of(old0), orders_of(old1)
        info["lengths"] = [len(o0), len(o1)]
        ok = (3 <= len(o0) < RF_MAXLEN and 3 <= len(o1) < RF_MAXLEN and o0[0] > RF_L0 and o0[-1] > RF_L0 and o0[-2] < RF_L0
              and all(o <= RF_L0 for o in o0[1:-1]) and o1[0] < RF_L0 < o1[1] and all(RF_L0 <= o <= RF_LN for o in o1[1:-1])
              and (o1[-1] < RF_L0 or o1[-1] > RF_LN))
        if not ok:
            info["setup"] = "start paths are not a valid [0-]/[0+] pair"
            return [], False, info
        eng0, eng1 = rf_engine(k0, 1), rf_engine(k1, 2)
        eng0.rf_label, eng1.rf_label = "[0-]", "[0+]"
        fn = tis.quantis_swap_zero if quantis else tis.retis_swap_zero
        hist = [(old0, old1)]
        for step in (1, 2):
            wdir = os.path.join(tmp, f"worker{step}")
            os.makedirs(wdir)
            eng0.exe_dir = eng1.exe_dir = wdir
            cur0, cur1 = hist[-1]
            picked = {-1: {"ens": e0, "traj": cur0}, 0: {"ens": e1, "traj": cur1}}
            with PropagateRecorder() as rec:
                try:
                    acc, paths, status = fn(picked, {-1: [eng0], 0: [eng1]})
                except Exception as e:
                    errs.append(("raised", f"{who}: swap {step} raised {type(e).__name__}: {rf_clean(e)}"[:600] + tail))
                    return errs, True, info
            bad = answer_domain_error(acc, paths, status)
            if bad:
                errs.append(("raised", f"{who}: swap {step}: answer outside the move's answer domain: {bad}{tail}"))
                return errs, True, info
            info[f"swap{step}"] = f"{status} {paths[0].length}/{paths[1].length}"
            if not acc:
                if step == 1 and quantis and not same and status in ("QS0", "QS1"):
                    # two levels of theory: the other engine's step from the shooting point need not cross lambda_0
                    return errs, False, info
                if step == 1:
                    errs.append(("rejected", f"{who}: the swap of the valid pair (lengths {len(o0)} / {len(o1)}, limit {RF_MAXLEN}) was rejected "
                                             f"with status {status}{tail}"))
                else:
                    errs.append(("swap back rejected", f"{who}: first swap accepted, the swap back was rejected with status {status}{tail}"))
                return errs, True, info
            new0, new1 = paths
            errs += [(k, f"{who}: {m}{tail}") for k, m in rf_swap_oracle(scn, step, hist[-1], (new0, new1), (eng0, eng1), rec.calls, same)]
            hist.append((new0, new1))
        # (4) two swaps restore both order sequences
        for name, a, b in (("[0-]", hist[0][0], hist[2][0]), ("[0+]", hist[0][1], hist[2][1])):
            oa, ob = orders_of(a), orders_of(b)
            if len(oa) != len(ob):
                errs.append(("not restored", f"{who}: swapping twice did not restore the {name} path: {len(oa)} frames -> {len(ob)} frames, "
                                             f"first orders {[round(float(x), 6) for x in oa[:3]]} -> {[round(float(x), 6) for x in ob[:3]]}{tail}"))
            else:
                d, k = max((abs(float(x) - float(y)), k) for k, (x, y) in enumerate(zip(oa, ob)))
                if d > RF_TOL:
                    errs.append(("not restored", f"{who}: swapping twice did not restore the {name} path within {RF_TOL}: frame {k} "
                                                 f"{float(oa[k]):.9f} -> {float(ob[k]):.9f} (largest difference {d:.3g} over {len(oa)} frames){tail}"))
        return errs, True, info
    finally:
        common.rmtree(tmp)


def rf_scenarios(quick):
    pairs = ([(RF_MINUS[i % len(RF_MINUS)], b) for i, b in enumerate(RF_PLUS)] if quick
             else [(a, b) for a in RF_MINUS for b in RF_PLUS])
    return [{"move": mv, "engines": en, "minus": list(a), "plus": list(b)}
            for mv in ("retis", "quantis") for en in ("same", "different") for a, b in pairs]


def real_files_stage(ctx):
    """the family of zero swaps with real file-writing engines (oracle only)"""
    import logging
    import time
    for lg in ("infretis.core.tis", "infretis.classes.path", "infretis.classes.engines.enginebase", "infretis.classes.engines.turtlemdengine"):
        logging.getLogger(lg).setLevel(logging.ERROR)
    t0 = time.time()
    scns = rf_scenarios(ctx.tier == "quick")
    kinds = set()
    nev = nfail = 0
    skipped = []
    for scn in scns:
        try:
            errs, evaluated, info = run_real_files(scn)
        except Exception as e:                  # the set-up itself (engine factory, growing the start paths) broke
            ctx.violation(f"real-file zero swaps: scenario could not be set up ({type(e).__name__}: {rf_clean(e)})"[:400],
                          {"kind": "real_files", "scenario": scn}, False)
            return
        if not evaluated:
            skipped.append({"scenario": scn, "info": info})
            continue
        nev += 1
        ctx.count(("rf", repr(scn)), nontrivial=True)
        ctx.dist(f"real files double swap {scn['move']} {scn['engines']} engines")
        if errs:
            nfail += 1
        elif nev <= 2:
            ctx.sample({"real_files": scn, "result": info})
        for kind, msg in errs:                  # one replay per clause of the statement that fails
            if kind not in kinds:
                kinds.add(kind)
                ctx.violation(f"C11 statement fails on the implementation: {msg}", {"kind": "real_files", "scenario": scn}, True)
    ctx.cov["real_file_swaps"] = {"scenarios": len(scns), "evaluated": nev, "failures": nfail, "not_evaluated": skipped,
                                  "wall_s": round(time.time() - t0, 1)}
    if nev < (3 * len(scns)) // 4:
        ctx.violation(f"real-file zero swaps: only {nev} of {len(scns)} scenarios could be evaluated (generator broken)",
                      {"kind": "real_files_coverage", "not_evaluated": skipped[:4]}, False)


# Observation (NOT a finding, not a violation: outside C11's quantifier, see start_clause_sides)
OBS_START_L = ("start condition of [0-] 'L' ALONE (finite lambda_-1; outside C11's quantifier, which ranges over path pairs, interface positions, "
               "length limits, energies and draws, not over start conditions; infretis itself only builds [0-] with 'R' or ['L', 'R']): "
               "retis_swap_zero and quantis_swap_zero accept a new [0-] path that starts on the right of lambda_0 (their guard only tests for a "
               "forbidden 'L'); e.g. interfaces (0, 1, 2) / (2, 2, 5), old paths -1 1 3 / 0 3 1, backward run 0 3 -> new [0-] path 3 0 3; "
               "theorem C11_start_cond_L_only_refuted documents it.  The start-side clause of the oracle is not applied to these cases; the model "
               "lock-step and every other clause are")


def observed_start_L(case, raw):
    """start condition of [0-] "L" alone, accepted, new [0-] path starts on the right of lambda_0"""
    if allowed_starts(case.lm1, case.sc0) != {"L"} or raw["error"] or raw["bad_answer"] or not raw["accept"]:
        return False
    g0 = orders_of(raw["paths"][0])
    return bool(g0) and g0[0] > L0


def case_size(c):
    return (len(c.old0) + len(c.old1) + sum(len(r) for _, r in c.script if r is not None), int(c.quantis), len(c.moves) and int("wf" in c.moves))


# --------------------------------------------------------------------------- run


def run(ctx):
    import time
    phases = ctx.cov["phase_wall_s"] = {}
    tph = [time.time()]

    def phase(name):
        now = time.time()
        phases[name] = round(phases.get(name, 0.0) + now - tph[0], 1)
        tph[0] = now

    common.proof_stage(ctx, "C11", ["extract/c11.vo"])
    runner = common.runner_stage(ctx, "c11")
    phase("proofs + runner build (incl. waiting for the build lock)")
    if runner is None:
        return
    import logging
    import numpy
    import infretis.core.tis as tis
    logging.getLogger("infretis.core.tis").setLevel(logging.ERROR)
    logging.getLogger("infretis.classes.path").setLevel(logging.ERROR)
    TapeEngine, VerletEngine = make_engine_classes()
    shim = NpShim(numpy)
    quick = ctx.tier == "quick"
    rng = ctx.rng
    saved_np = tis.np
    tis.np = shim
    try:
        probe_variant(TapeEngine, shim)
        ctx.cov["variant"] = variant_report()
        cases = []
        cases += gen_limits(ctx, rng)
        sc_cases, sc_stats = gen_start_cond(ctx, rng)
        cases += sc_cases
        for mv in ("retis", "quantis"):
            if sc_stats.get((mv, "0-L"), 0) < 50 or sc_stats.get((mv, "ACC"), 0) < 50:
                ctx.violation(f"start-condition family: fewer than 50 {mv} cases in which the statement demands 0-L / ACC (generator broken)",
                              {"kind": "start_cond_coverage", "stats": {f"{m} {e}": n for (m, e), n in sc_stats.items()}}, False)
        cases += gen_retis_grid(ctx, rng)
        cases += gen_retis(ctx, rng, 5 if quick else 6, 1 if quick else 2, 12000 if quick else 150000)
        cases += expand_wf(ctx, gen_wf(ctx, rng, 0), TapeEngine, shim)
        cases += gen_quantis(ctx, rng, 5 if quick else 6, 1500 if quick else 12000)

        reqs, metas = [], []
        n_obs_start_l = {False: 0, True: 0}
        for c in cases:
            ans, raw, req = run_impl(c, TapeEngine, shim)
            err = oracle(c, raw)
            if observed_start_L(c, raw):
                n_obs_start_l[c.quantis] += 1
            reqs.append(req)
            metas.append((ans, err, c))
            var = "quantis" if c.quantis else "retis"
            if not raw["error"]:
                ctx.dist(f"{var} status {raw['status']}")
            else:
                ctx.dist(f"{var} status <{raw['error']}>")
        if n_obs_start_l[False] or n_obs_start_l[True]:
            ctx.cov["observations"] = [f"{OBS_START_L} (seen in {n_obs_start_l[False]} retis and {n_obs_start_l[True]} quantis cases of this run)"]
        phase("scripted cases on the implementation + oracle")
        outs = runner.run(reqs)
        phase("extracted model on the scripted cases")
        corr_fail = 0
        oracle_fail, corr_bad = [], []
        for req, mo, (io, err, c) in zip(reqs, outs, metas):
            ctx.count(req, nontrivial=True)
            if err:
                oracle_fail.append((case_size(c), req, mo, io, err, c))
            elif mo != io:
                corr_fail += 1
                corr_bad.append((case_size(c), req, mo, io, c))
        # smallest failing inputs first (the enumeration doubles as the shrinker)
        # ... accepted swaps before rejected ones (the statement is mostly about accepted swaps)
        oracle_fail.sort(key=lambda t: (not t[3].startswith("OUT 1 "),) + t[:2])
        corr_bad.sort(key=lambda t: t[:2])
        ctx.cov["oracle_failures"] = len(oracle_fail)
        seen_msgs = set()
        per_move = {False: 0, True: 0}
        for _, req, mo, io, err, c in oracle_fail:
            kind = re.sub(r"[-\d.,\[\] ]+", " ", err)[:90]        # the message without its numbers: one replay per kind of failure
            if kind in seen_msgs or per_move[c.quantis] >= 3:      # ... at most three kinds per move (retis / quantis)
                continue
            seen_msgs.add(kind)
            per_move[c.quantis] += 1
            ctx.violation(f"C11 statement fails on the implementation: {err}",
                          {"kind": "lockstep", "case": c.desc(), "impl": io, "model": mo, "request": req}, True)
        for _, req, mo, io, c in corr_bad[:2]:
            tail = ("the property oracle did find failing inputs, see the other replays" if oracle_fail
                    else f"property oracle found no failing input among {len(reqs)} cases")
            ctx.violation(f"correspondence model/implementation broken for a {'quantis' if c.quantis else 'retis'} zero swap "
                          f"({corr_fail} of {len(reqs)} cases differ; {tail})",
                          {"kind": "lockstep", "correspondence": "c11 runner vs infretis.core.tis", "case": c.desc(),
                           "impl": io, "model": mo, "request": req}, False)
        for k in (0, len(reqs) // 3, len(reqs) // 2, len(reqs) - 1):
            ctx.sample({"request": reqs[k], "model": outs[k], "impl": metas[k][0]})

        # double swap with reversible engines, on the real functions: one dynamics for both engine
        # objects, and two different dynamics (one per ensemble)
        nds = nds2 = nds_fail = 0
        ds_log = []
        ds_kinds = set()
        jobs = []
        for name, F, s0 in double_swap_cases(ctx, rng, 300 if quick else 2000):
            jobs.append(((name, name), (s0, None)))
        for n0, n1, sa, sb in double_swap2_cases(ctx, rng, 1500 if quick else 10000):
            jobs.append(((n0, n1), (sa, sb)))
        for names, starts in jobs:
            for quantis in (False, True):
                for lm1 in (False, True):
                    # one limit for both ensembles, and unequal limits in BOTH orders (maxlength[0-], maxlength[0+])
                    for maxlen in (40, 12, (9, 14), (14, 9)) + (() if quantis else ((12, 40), (40, 12))):
                        errs, evaluated = run_double_swap(ctx, VerletEngine, ds_log, quantis, lm1, names, starts, maxlen)
                        if evaluated:
                            nds += 1
                            nds2 += starts[1] is not None
                            ctx.count(("ds", names, starts, quantis, lm1, maxlen), nontrivial=True)
                        if errs:
                            nds_fail += 1
                        for kind, err in errs:          # one replay per clause of the statement that fails
                            if kind not in ds_kinds:
                                ds_kinds.add(kind)
                                ctx.violation(f"C11 statement fails on the implementation: {err}",
                                              {"kind": "double_swap", "forces": list(names), "starts": [starts[0], starts[1]],
                                               "quantis": quantis, "lm1": lm1, "maxlen": maxlen}, True)
        ctx.cov["double_swaps_evaluated"] = nds
        ctx.cov["double_swaps_two_engines_evaluated"] = nds2
        ctx.cov["double_swap_failures"] = nds_fail
        if nds - nds2 < 50 or nds2 < 200:
            ctx.violation("double-swap oracle evaluated on fewer than 50 one-engine / 200 two-engine cases (generator broken)",
                          {"evaluated": nds, "two_engines": nds2}, False)
        phase("double swaps with reversible engines")
        # every retis swap of the double swaps against the extracted model (paths, statuses, calls incl. engine identities)
        ds_outs = runner.run([e[0] for e in ds_log])
        phase("extracted model on the double swaps")
        ds_bad = [(r, mo, io, d) for (r, io, d, failed), mo in zip(ds_log, ds_outs) if mo != io and not failed]
        for e in ds_log:
            ctx.count(e[0], nontrivial=True)
        for r, mo, io, d in ds_bad[:2]:
            tail = ("the property oracle did find failing inputs, see the other replays" if (oracle_fail or nds_fail)
                    else f"property oracle found no failing input among {len(ds_log)} swaps")
            ctx.violation(f"correspondence model/implementation broken for a retis zero swap driven by the reversible engines "
                          f"({len(ds_bad)} of {len(ds_log)} swaps differ; {tail})",
                          {"kind": "ds_lockstep", "correspondence": "c11 runner vs infretis.core.tis", "setup": d,
                           "impl": io, "model": mo, "request": r}, False)
        if ds_log:
            ctx.sample({"request": ds_log[len(ds_log) // 2][0], "model": ds_outs[len(ds_log) // 2], "impl": ds_log[len(ds_log) // 2][1]})
        corr_ds = {"compared": len(ds_log), "disagreements": len(ds_bad)}
    finally:
        tis.np = saved_np
        tis.ENGINES = {}

    # zero swaps run by two real file-writing engine objects in one shared worker directory (oracle only)
    real_files_stage(ctx)
    phase("real-file swaps")

    ctx.cov["rule"] = ("lock-step: [0-] paths over alphabet {-1,0,1,2,3} and [0+] paths over {1,2,3,5,6} (interfaces lambda_-1=0, lambda_0=2, lambda_N=5), "
                       "lengths 3..%d, all/sampled pairs (see pair_sampling) x seeded choice of backward/forward stream pattern and length limit "
                       "(limits chosen around the resulting lengths: exact hits included; 20%% unequal limits, either order); a full grid of 8x8 stream patterns x all limits x "
                       "lambda_minus_one on/off on representative pairs; limit grid: for 2+2 (retis) and 2+1 (quantis) old pairs x lambda_minus_one x 8x8 stream patterns "
                       "every ordered pair (maxlength[0-], maxlength[0+]) from {n-1, n, n+1, n+2 for the needed lengths n of the two new paths (3 frames = minimum included)} + {15}, "
                       "outcome fixed by the statement for EVERY ordered pair, maxlength[0-] < = > maxlength[0+] alike (each path against its own limit: ACC / BTX / FTX and the exact complete paths); "
                       "start-condition family: finite lambda_-1 = 0 for [0-] x start_cond of [0-] in {'R', 'L', ['L','R']} x {retis, QuanTIS with 5 energy/beta/draw settings over one and two levels of theory} x "
                       "backward runs from old[0+][0] ending left of lambda_-1 (4) / right of lambda_0 (3) / never (2) x 4 forward patterns x 2 old [0-] x 3 old [0+] paths x limits "
                       "{(15,15), (n0,15), (n0+1,n1+1), (n0+1,n1)}: outcome fixed by the statement (ACC / BTX / FTX / 0-L; the start-side clause applies to 'R' and ['L','R'], the 'L'-alone cases run the lock-step and every other clause), see start_cond_family and observations; "
                       "degenerate inputs (empty/short paths, missing streams, dishonest first frames); "
                       "wf/ss moves with interface_cap absent/4/5 and the draw on a grid around the ratio; quantis with dyadic energies, three beta pairs, "
                       "draws on a grid around min(1,E), accept_all on/off.  A case is distinct by its request line; all exercise a modelled branch. "
                       "Every case runs with two distinguishable engine objects (identity logged per call and per frame, compared with the model's c_eng and "
                       "checked by the oracle: frames beyond the shared points come from the ensemble's own engine).  "
                       "double swap: the real functions run twice with deterministic reversible integer engines (velocity Verlet, reversal v -> -v): "
                       "(a) one dynamics for both engine objects (4 kick tables), initial pairs cut from the engine's own trajectory; (b) two different "
                       "dynamics, F0 for the [0-] engine and F1 != F0 for the [0+] engine (ordered pairs of 5 kick tables), the [0-] path cut from an "
                       "F0-trajectory and the [0+] path from an F1-trajectory (seeded states); each with retis/quantis, lambda_minus_one on/off, "
                       "maxlength 40/12 and unequal limits in both orders (9/14, 14/9; retis also 12/40, 40/12); oracle per swap, for every pair of limits: accepted paths complete and below their own limits, engine identities, new paths are trajectories of their own ensemble's dynamics; after two "
                       "swaps both order sequences restored; every retis swap also compared with the extracted model.  "
                       "real files (oracle only): retis/quantis x (same parameters | two levels of theory) x %s start-path pairs grown through fixed (x, v), "
                       "each a double swap by two real TurtleMDEngine objects sharing one worker directory per move; clauses: frames carry their own data "
                       "(file exists, configuration read back has the stored order), no file written by two propagate calls of a move, junction on the "
                       "configurations, swap back accepted and both order sequences restored within 1e-6 (see real_file_swaps)."
                       % (5 if quick else 6, "5 (every [0+] start, [0-] starts cycled)" if quick else "all 4x5"))
    ctx.cov["correspondence"] = {"compared": len(reqs) + corr_ds["compared"], "disagreements": corr_fail + corr_ds["disagreements"],
                                 "variant": variant_report(),
                                 "scripted lock-step": {"compared": len(reqs), "disagreements": corr_fail},
                                 "swaps of the reversible-engine double swaps": corr_ds}
    ctx.cov["trusted_base"] += ["extraction: ExtrOcamlBasic only; ocaml/util.ml + ocaml/c11_driver.ml",
                                "py/checks/c11.py: TapeEngine/VerletEngine (subclasses of plugins.engines.ScriptedEngine, real add_to_path; engine identity = eid attribute of the object, written into every frame's config name and call log), ScriptRng, np.exp shim, encoders",
                                "numpy.exp (value handed to the model as an exact rational)",
                                "real-file family: turtlemd (VelocityVerlet, DoubleWell), infretis' xyz reader/writer used to write the start configuration and to read frames back, "
                                "PropagateRecorder (wrapper around EngineBase.propagate, directory listings), rf_grow (start paths by two propagate calls + paste_paths)"]
    ctx.assumptions += ["orders, interfaces, weights are integer-valued floats; energies/betas dyadic (float arithmetic exact)",
                        "System reduced to (order[0], config tag, vel_rev, vpot); Path attributes generated/path_number/weights not compared",
                        "-inf represented in the model by an integer below every order value of the case",
                        "start-condition family: the ensemble dicts are those of initiate_ensembles with lambda_minus_one = 0 and the start_cond entry of [0-] replaced; "
                        "'valid old [0-] path' there means: starts on a side that start condition allows",
                        "validity, limit and double-swap oracles are evaluated for valid old paths and honest engines, each new path against its own ensemble's limit, "
                        "for every pair of limits (no input class is exempt); they do not depend on the variant probe, which only selects the model variant of the lock-step",
                        "real-file family: oracle only, no model comparison; velocity Verlet dynamics (deterministic, time-reversible up to the 9 decimals of the xyz files, tolerance 1e-6); "
                        "one fresh worker directory per move shared by the two engine objects; start paths are trajectories of their own ensemble's engine",
                        "two-engine double swap: the old [0-] path is a trajectory of the [0-] engine and the old [0+] path one of the [0+] engine (as in a simulation, where each path was generated in its own ensemble); both engines share phase space, configurations, order parameter and velocity reversal"]


def replay(doc):
    import json
    import logging
    import numpy
    import infretis.core.tis as tis
    print(json.dumps(doc, indent=1, default=str)[:6000])
    rp = doc["replay"]
    logging.getLogger("infretis.core.tis").setLevel(logging.ERROR)
    TapeEngine, VerletEngine = make_engine_classes()
    probe_variant(TapeEngine, NpShim(numpy))
    print("variant of the tree under test:", json.dumps(variant_report(), indent=1))
    if rp.get("kind") == "lockstep":
        d = dict(rp["case"])
        d["script"] = [tuple(s) for s in d["script"]]
        c = Case(**d)
        shim = NpShim(numpy)
        saved = tis.np
        tis.np = shim
        try:
            ans, raw, req = run_impl(c, TapeEngine, shim)
        finally:
            tis.np = saved
        print("implementation now answers:", ans)
        print("oracle:", oracle(c, raw))
        r = common.Runner("c11")
        print("model now answers:        ", r.run([req])[0])
        return 0
    if rp.get("kind") == "double_swap":
        ctx = common.Ctx("C11", "quick", 0)
        if "forces" in rp:
            names, starts = tuple(rp["forces"]), tuple(tuple(s) if s is not None else None for s in rp["starts"])
        else:                       # replays written before the two-engine scenarios
            names, starts = (rp["force"], rp["force"]), (tuple(rp["start"]), None)
        ml = rp["maxlen"] if isinstance(rp["maxlen"], int) else tuple(rp["maxlen"])
        print("oracle:", run_double_swap(ctx, VerletEngine, None, rp["quantis"], rp["lm1"], names, starts, ml))
        return 0
    if rp.get("kind") == "real_files":
        for lg in ("infretis.core.tis", "infretis.classes.path", "infretis.classes.engines.enginebase", "infretis.classes.engines.turtlemdengine"):
            logging.getLogger(lg).setLevel(logging.ERROR)
        errs, evaluated, info = run_real_files(rp["scenario"])
        print("evaluated:", evaluated, json.dumps(info))
        print("oracle:", "no clause fails" if not errs else "")
        for kind, msg in errs:
            print(f"  [{kind}] {msg}")
        return 0
    if rp.get("kind") == "ds_lockstep":
        d = rp["setup"]
        log = []
        ctx = common.Ctx("C11", "quick", 0)
        starts = tuple(tuple(s) if s is not None else None for s in d["starts"])
        ml = d["maxlen"] if isinstance(d["maxlen"], int) else tuple(d["maxlen"])
        print("oracle:", run_double_swap(ctx, VerletEngine, log, False, d["lm1"], tuple(d["names"]), starts, ml))
        r = common.Runner("c11")
        for req, io, dd, _ in log:
            print(f"swap {dd['swap']}: implementation now answers:", io)
            print(f"swap {dd['swap']}: model now answers:         ", r.run([req])[0])
        return 0
    return 0
