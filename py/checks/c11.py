"""C11 — zero swaps exchange the crossing frames and are reversible.

Theorems: coq/theorems/C11.v (model coq/model/SwapM.v on top of PathM / EngineM / WeightM).
Tie: scripted-oracle lock-step of the REAL infretis.core.tis.select_shoot / retis_swap_zero /
quantis_swap_zero (scripted engines replaying prescribed frame streams through the real
add_to_path, scripted random numbers, np.exp observed) against the extracted model, plus the
property's own statement evaluated on the implementation's results (junction identity,
validity, thresholds, early 0-L reject without propagation, double-swap identity with a
deterministic time-reversible plug-in engine).
"""
import importlib.util  # noqa: F401
import itertools
import types
from fractions import Fraction

import common

META = {
    "id": "C11",
    "level": "proof",
    "technique": "Coq theorems over a literal model of retis_swap_zero / quantis_swap_zero (stop-rule invariants, abstract reversible dynamics) + scripted-oracle lock-step of the extracted model vs the real functions",
    "text": "Unbounded theorems (any paths, interface values, length limits, engine frame streams, draws, energies) about an executable model of the two zero-swap moves over the current add_to_path stop rule: junction identity as frame identities and as order values (C11_swap_junction_frames, C11_swap_junction), full shape of an accepted swap and the converse sufficient conditions (C11_swap_accepted_shape, C11_swap_accepted_if), validity of both new paths (C11_swap_valid), lambda_-1 early rejection with no engine call and no draw (C11_lambda_m1_test, C11_lambda_m1_reject), QuanTIS energy rule u <= min(1,E) with the exponent's signs and the frames the four energies are read from (C11_quantis_accept_iff, C11_quantis_exponent), QuanTIS junction (C11_quantis_junction), and for an abstract deterministic time-reversible engine (state space X, step T, reversal R with R.R = id, R.T.R.T = id, ord.R = ord) that the swap back is accepted and restores both order sequences (C11_swap_twice_id, C11_swap_twice_restores). The model is tied to /repo by running the extracted model and the real select_shoot/retis_swap_zero/quantis_swap_zero on the same old paths, settings, engine streams, draws and energies (all valid [0-]/[0+] pairs over a small integer alphabet, limits incl. exact hits, lambda_minus_one on/off, wf high-acceptance swap, quantis with draws around the Metropolis threshold), and by evaluating the property's statement on the implementation's outputs, including a double swap of the real functions with a deterministic reversible integer engine.",
    "note": "Trusted: Coq kernel; extraction (ExtrOcamlBasic) + OCaml driver; this harness (scripted engines built on plugins.engines.ScriptedEngine and the real add_to_path, scripted rgen, np.exp shim, canonicalisation). No axioms (every Print Assumptions is closed). exp is not modelled: its value E is computed by numpy exactly as the code does and handed to the model as the exact rational of that float; the exponent is compared exactly (dyadic energies/betas). -inf is represented in the model by an integer below every order value of the case. The order-value form of the junction assumes that an engine's first frame carries the order parameter of the phase point it was started from (propagate contract, C12); validity and reversibility theorems assume maxlength([0-]) <= maxlength([0+]) (one shared tis_set in infretis) and ordered interfaces. The swap never reads propagate's success flag, so it is insensitive to the add_to_path repair (C11_stop_rule_irrelevant). The QuanTIS double swap is checked on the implementation only (no Coq theorem); reversibility of real MD engines is an assumption of the statement itself. quantis_swap_zero has no lambda_-1 early exit: check_config rejects quantis together with lambda_minus_one.",
    "design_ref": "4/C11",
}
LEVEL = "proof"

# interfaces: lambda_-1 = 0, lambda_0 = 2, lambda_N = 5  (mid of [0-] = 1, integer)
LM1, L0, LN = 0, 2, 5


# --------------------------------------------------------------------------- harness objects


class Tape:
    """The prescribed engine output: the n-th propagate call (whichever engine) continues with
    script[n] = (first_order or None, [orders...]); energies[n] = per-frame vpot or None."""

    def __init__(self, script, energies=None):
        self.script = script
        self.energies = energies
        self.ncalls = 0
        self.calls = []


class Exhausted(RuntimeError):
    pass


def make_engine_classes():
    from plugins.engines import ScriptedEngine

    class TapeEngine(ScriptedEngine):
        def _propagate_from(self, *a, **k):  # abstract in EngineBase; propagate is overridden
            raise NotImplementedError

        def __init__(self, tape, beta=1.0):
            super().__init__([], beta=beta)
            self.tape = tape

        def propagate(self, path, ens_set, system, reverse=False):
            t = self.tape
            n = t.ncalls
            t.ncalls += 1
            init = (system.order[0], system.config, bool(system.vel_rev))
            system.set_pos((f"init{n}", 0))
            system.vel_rev = reverse
            left, _, right = ens_set["interfaces"]
            first, rest = t.script[n] if n < len(t.script) else (None, None)
            if rest is None:
                t.calls.append((init, reverse, left, right, path.maxlen, 0))
                raise Exhausted("no stream")
            ener = t.energies[n] if t.energies and n < len(t.energies) else None
            orders = [system.order[0] if first is None else first] + list(rest)
            for k, o in enumerate(orders):
                snapshot = {"order": [float(o)], "config": (f"traj{n}", k), "vel_rev": reverse}
                if ener is not None and k < len(ener):
                    snapshot["vpot"] = ener[k]
                    snapshot["ekin"] = 0.0
                phase_point = self.snapshot_to_system(system, snapshot)
                status, success, stop, _ = self.add_to_path(path, phase_point, left, right)
                if stop:
                    t.calls.append((init, reverse, left, right, path.maxlen, k + 1))
                    return success, status
            t.calls.append((init, reverse, left, right, path.maxlen, len(orders)))
            raise Exhausted("stream ended before the stop rule fired")

    class VerletEngine(ScriptedEngine):
        """Deterministic time-reversible integer dynamics (position Verlet on the integers):
        state s = (x, p) = (position, previous position), T(x, p) = (2x - p + F(x), x),
        velocity reversal R(x, p) = (x, 2x - p + F(x)); R.T.R.T = id and R.R = id exactly.
        order = x.  Configurations live in a dict keyed by the frame's config tag."""

        def _propagate_from(self, *a, **k):
            raise NotImplementedError

        def __init__(self, world, force, vfun, beta=1.0):
            super().__init__([], beta=beta)
            self.world = world          # shared: {"states": {config: (x, p)}, "ncalls": int, "streams": [...]}
            self.force = force
            self.vfun = vfun

        def T(self, s):
            x, p = s
            return (2 * x - p + self.force(x), x)

        def R(self, s):
            x, p = s
            return (x, 2 * x - p + self.force(x))

        def dump_config(self, config, deffnm="conf"):
            new = f"dump:{deffnm}:{config[0]}:{config[1]}"
            self.world["states"][(new, 0)] = self.world["states"][tuple(config)]
            return new

        def propagate(self, path, ens_set, system, reverse=False):
            w = self.world
            n = w["ncalls"]
            w["ncalls"] += 1
            s = w["states"][tuple(system.config)]
            if reverse != system.vel_rev:
                s = self.R(s)
            init = (system.order[0], system.config, bool(system.vel_rev))
            system.set_pos((f"init{n}", 0))
            system.vel_rev = reverse
            left, _, right = ens_set["interfaces"]
            k = 0
            rec = []
            while True:
                cfg = (f"traj{n}", k)
                w["states"][cfg] = s
                snapshot = {"order": [float(s[0])], "config": cfg, "vel_rev": reverse,
                            "vpot": self.vfun(s[0]), "ekin": 0.0}
                rec.append((s[0], self.vfun(s[0])))
                phase_point = self.snapshot_to_system(system, snapshot)
                status, success, stop, _ = self.add_to_path(path, phase_point, left, right)
                if stop:
                    w["streams"].append(rec)
                    w["calls"].append((init, reverse, left, right, path.maxlen, k + 1))
                    return success, status
                s = self.T(s)
                k += 1
                if k > 10000:
                    raise Exhausted("runaway")

    return TapeEngine, VerletEngine


class ScriptRng:
    def __init__(self, draws):
        self.draws = list(draws)
        self.used = 0

    def random(self):
        if self.used >= len(self.draws):
            raise IndexError("no draw left")
        u = self.draws[self.used]
        self.used += 1
        return u


class NpShim:
    """numpy stand-in for infretis.core.tis.np: records the argument of exp."""

    def __init__(self, real):
        self._real = real
        self.exp_args = []

    def exp(self, x):
        self.exp_args.append(x)
        return self._real.exp(x)

    def __getattr__(self, k):
        return getattr(self._real, k)


def mk_path(orders, name, maxlen, vpots=None, revs=None):
    from infretis.classes.path import Path
    from infretis.classes.system import System
    p = Path(maxlen=maxlen)
    for i, o in enumerate(orders):
        s = System()
        s.order = [float(o)]
        s.config = (name, i)
        s.vel_rev = bool(revs[i]) if revs else False
        s.vpot = None if vpots is None else vpots[i]
        s.ekin = None if vpots is None else 0.0
        p.phasepoints.append(s)
    p.status = "ACC"
    p.weight = 1.0
    return p


def ensembles(lm1, moves, maxlen0, maxlen1, cap=None, accept_all=False, quantis=False):
    """[0-] and [0+] dicts exactly as REPEX_state.initiate_ensembles builds them (interfaces,
    start_cond), with one tis_set per ensemble so that the two maxlength reads can differ."""
    from infretis.classes.repex import REPEX_state
    tis = {"lambda_minus_one": (LM1 if lm1 else False), "maxlength": maxlen0, "accept_all": accept_all,
           "quantis": quantis}
    if cap is not None:
        tis["interface_cap"] = cap
    fake = types.SimpleNamespace(config={"simulation": {"interfaces": [L0, LN], "tis_set": tis,
                                                        "shooting_moves": list(moves)}})
    REPEX_state.initiate_ensembles(fake)
    e0, e1 = dict(fake.ensembles[0]), dict(fake.ensembles[1])
    e1["tis_set"] = dict(tis, maxlength=maxlen1)
    return e0, e1


# --------------------------------------------------------------------------- encoding


def tag_of(config):
    name, idx = config
    idx = int(idx)
    if name == "old0":
        return 100 + idx
    if name == "old1":
        return 200 + idx
    if name.startswith("traj"):
        return 1000 * (int(name[4:]) + 1) + idx
    if name.startswith("dump:"):
        parts = name.split(":")
        inner = tag_of((":".join(parts[2:-1]), int(parts[-1])))
        return {"second": 100000, "second_last": 200000}[parts[1]] + inner
    if name.startswith("init"):
        return 900000 + int(name[4:])
    raise ValueError(f"unknown config {config}")


def zint(x):
    if x == float("-inf"):
        return "ninf"
    f = Fraction(x)
    assert f.denominator == 1, x
    return str(f.numerator)


def enc_frame(o, cfg, rev):
    return f"{zint(o)}:{tag_of(cfg)}:{int(bool(rev))}"


def enc_path(p):
    fr = [enc_frame(s.order[0], s.config, s.vel_rev) for s in p.phasepoints]
    st = p.status if p.status else "EMPTY"
    return f"{','.join(fr) if fr else '-'}|{p.maxlen}|{p.time_origin}|{st}|{zint(p.weight)}"


def enc_ens(e):
    i0, i1, i2 = e["interfaces"]
    sc = set(e["start_cond"])
    cap = e["tis_set"].get("interface_cap", None)
    return ",".join([zint(i0), zint(i1), zint(i2), str(int("L" in sc)), str(int("R" in sc)), e["mc_move"],
                     str(e["tis_set"]["maxlength"]), "N" if cap is None else zint(cap),
                     str(int(bool(e["tis_set"]["accept_all"])))])


def enc_call(c):
    (o, cfg, rv), reverse, left, right, ml, used = c
    return "/".join([enc_frame(o, cfg, rv), str(int(reverse)), zint(left), zint(right), str(ml), str(used)])


def enc_streams(produced):
    """produced: list of streams, each a list of (order, tag, rev)."""
    if not produced:
        return "-"
    return ";".join(",".join(f"{zint(o)}:{t}:{int(r)}" for o, t, r in s) if s else "_" for s in produced)


# --------------------------------------------------------------------------- one case


class Case:
    """Everything that defines one swap: settings, old paths, tape, draws, betas."""

    def __init__(self, **kw):
        self.quantis = kw.get("quantis", False)
        self.lm1 = kw.get("lm1", False)
        self.moves = kw.get("moves", ("sh", "sh"))
        self.maxlen0 = kw["maxlen0"]
        self.maxlen1 = kw.get("maxlen1", self.maxlen0)
        self.cap = kw.get("cap")
        self.accept_all = kw.get("accept_all", False)
        self.old0 = tuple(kw["old0"])
        self.old1 = tuple(kw["old1"])
        self.v0 = kw.get("v0")          # vpots of old0 frames (or None)
        self.v1 = kw.get("v1")
        self.script = kw["script"]      # list of (first or None, [orders])
        self.energies = kw.get("energies")
        self.draws = kw.get("draws", ())
        self.betas = kw.get("betas", (1.0, 1.0))
        self.direct = kw.get("direct", False)   # call the move function directly instead of select_shoot

    def desc(self):
        return {k: v for k, v in self.__dict__.items()}


def run_impl(case, TapeEngine, shim):
    """Run the real code on a case.  Returns (canonical answer, raw dict for the oracle, request line)."""
    import infretis.core.tis as tis
    e0, e1 = ensembles(case.lm1, case.moves, case.maxlen0, case.maxlen1, case.cap, case.accept_all, case.quantis)
    old0 = mk_path(case.old0, "old0", case.maxlen0, case.v0)
    old1 = mk_path(case.old1, "old1", case.maxlen1, case.v1)
    tape = Tape(case.script, case.energies)
    eng0, eng1 = TapeEngine(tape, case.betas[0]), TapeEngine(tape, case.betas[1])
    rgen = ScriptRng(case.draws)
    e0["rgen"] = rgen
    e1["rgen"] = ScriptRng(())
    picked = {-1: {"ens": e0, "traj": old0, "eng_idx": {"e0": 0}, "exe_dir": None},
              0: {"ens": e1, "traj": old1, "eng_idx": {"e1": 0}, "exe_dir": None}}
    # request line (built before the call: the code mutates nothing of this, but be safe)
    energies = {}
    for p in (old0, old1):
        for s in p.phasepoints:
            if s.vpot is not None:
                energies[tag_of(s.config)] = s.vpot
    for n, en in enumerate(case.energies or []):
        for k, v in enumerate(en or []):
            if v is not None:
                energies[1000 * (n + 1) + k] = v
    shim.exp_args.clear()
    tis.ENGINES = {"e0": [eng0], "e1": [eng1]}
    enc_old = (enc_path(old0), enc_path(old1))
    enc_e = (enc_ens(e0), enc_ens(e1))
    raw = {"old0": old0, "old1": old1, "e0": e0, "e1": e1, "tape": tape, "rgen": rgen}
    try:
        if case.direct:
            fn = tis.quantis_swap_zero if case.quantis else tis.retis_swap_zero
            acc, paths, status = fn(picked, {-1: [eng0], 0: [eng1]})
        else:
            acc, paths, status = tis.select_shoot(picked)
        raw.update(accept=acc, paths=paths, status=status, error=None)
    except Exhausted:
        raw["error"] = "exhausted"
    except (IndexError, AssertionError, TypeError) as e:
        raw["error"] = "raise"
        raw["exc"] = repr(e)
    finally:
        tis.ENGINES = {}
    # streams actually prescribed, as full frames for the model
    produced = []
    for n, (first, rest) in enumerate(case.script):
        if n < len(tape.calls):
            (o, _, _), reverse = tape.calls[n][0], tape.calls[n][1]
        else:
            o, reverse = (first if first is not None else 0), False
        if rest is None:
            produced.append([])
            continue
        ords = [o if first is None else first] + list(rest)
        produced.append([(x, 1000 * (n + 1) + k, reverse) for k, x in enumerate(ords)])
    raw["produced"] = produced
    evalue = None
    exparg = None
    if shim.exp_args:
        exparg = Fraction(float(shim.exp_args[-1]))
        evalue = Fraction(float(shim._real.exp(shim.exp_args[-1])))
    raw["exparg"], raw["evalue"] = exparg, evalue
    req = " ".join([
        "swap", str(int(case.quantis)), enc_e[0], enc_e[1], common.qstr(case.betas[0]), common.qstr(case.betas[1]),
        enc_old[0], enc_old[1], enc_streams(produced),
        ",".join(common.qstr(u) for u in case.draws) if case.draws else "-",
        ",".join(f"{k}={common.qstr(v)}" for k, v in sorted(energies.items())) if energies else "-",
        common.qstr(evalue) if evalue is not None else "1/1",
    ])
    if raw["error"]:
        ans = f"ERR {raw['error']}"
    else:
        p0, p1 = raw["paths"]
        calls = ";".join(enc_call(c) for c in tape.calls) if tape.calls else "-"
        ex = "N" if exparg is None else (f"{exparg.numerator}/{exparg.denominator}" if exparg.denominator != 1 else str(exparg.numerator))
        ans = " ".join(["OUT", str(int(bool(raw["accept"]))), raw["status"], str(rgen.used), enc_path(p0), enc_path(p1), calls, ex])
    return ans, raw, req


# --------------------------------------------------------------------------- the property's own statement


def orders_of(p):
    return [s.order[0] for s in p.phasepoints]


def valid_minus(orders, lm1):
    """valid [0-] path w.r.t. the code's operators: classified start/end, interior not beyond the
    interfaces (the stop rule of add_to_path did not fire)."""
    left = LM1 if lm1 else float("-inf")
    if len(orders) < 3:
        return False
    st = "L" if orders[0] <= left else ("R" if orders[0] >= L0 else "?")
    en = "L" if orders[-1] <= left else ("R" if orders[-1] >= L0 else "?")
    if en != "R" or st not in (("L", "R") if lm1 else ("R",)):
        return False
    return all(left <= o <= L0 for o in orders[1:-1])


def valid_plus(orders):
    if len(orders) < 3:
        return False
    if not orders[0] <= L0:
        return False
    return all(L0 <= o <= LN for o in orders[1:-1])


def oracle(case, raw):
    """C11 evaluated on the implementation's outputs.  Returns an error string or None."""
    if raw["error"]:
        return None
    acc, status = raw["accept"], raw["status"]
    p0, p1 = raw["paths"]
    old0, old1, tape = raw["old0"], raw["old1"], raw["tape"]
    o0, o1 = list(case.old0), list(case.old1)
    left = LM1 if case.lm1 else float("-inf")
    if bool(acc) != (status == "ACC"):
        return f"accept={acc} but status={status}"
    # early 0-L reject: no propagation, old paths returned
    if case.lm1 and not case.quantis and o0 and o0[-1] <= LM1:
        if status != "0-L" or acc or tape.ncalls != 0 or p0 is not old0 or p1 is not old1:
            return f"[0-] path ending on the left must be rejected as 0-L without propagation (status {status}, {tape.ncalls} propagate calls)"
        return None
    both_valid = valid_minus(o0, case.lm1) and valid_plus(o1)
    same_limits = case.maxlen0 == case.maxlen1
    if acc:
        n0, n1 = orders_of(p0), orders_of(p1)
        # junction
        if not case.quantis:
            if n0[-2:] != [float(x) for x in o1[:2]] and case.script[0][0] is None:
                return f"new [0-] path {n0} does not end with the first two frames {o1[:2]} of the old [0+] path"
            if n1[:2] != [float(x) for x in o0[-2:]] and case.script[1][0] is None:
                return f"new [0+] path {n1} does not start with the last two frames {o0[-2:]} of the old [0-] path"
            if tag_of(p0.phasepoints[-1].config) != 100000 + 200 + 1 or tag_of(p0.phasepoints[-2].config) != 1000:
                return "new [0-] path: last two frames are not (first frame of the backward run, dumped copy of old[0+][1])"
            if tag_of(p1.phasepoints[0].config) != 200000 + 100 + len(o0) - 2 or tag_of(p1.phasepoints[1].config) != 2000:
                return "new [0+] path: first two frames are not (dumped copy of old[0-][-2], first frame of the forward run)"
            if tape.calls[0][0][1] != ("old1", 0) or tape.calls[1][0][1] != ("old0", len(o0) - 1):
                return "propagation did not start from old[0+][0] / old[0-][-1]"
        else:
            honest = all(s[0] is None for s in case.script[:4])
            if honest and (n0[-2] != float(o1[0]) or n1[0] != float(o0[-2])):
                return f"quantis: junction frames wrong: new[0-][-2]={n0[-2]} vs old[0+][0]={o1[0]}, new[0+][0]={n1[0]} vs old[0-][-2]={o0[-2]}"
            if tag_of(p0.phasepoints[-1].config) != 1001 or tag_of(p1.phasepoints[1].config) != 2001:
                return "quantis: the one-step frames are not at the junction"
            if tape.calls[0][0][1] != ("old1", 0) or tape.calls[1][0][1] != ("old0", len(o0) - 2):
                return "quantis: one-step propagation did not start from old[0+][0] / old[0-][-2]"
        # validity
        ml0 = case.maxlen0
        ml1 = case.maxlen0 if case.quantis else case.maxlen1
        if not (3 <= len(n0) < ml0 and 3 <= len(n1) < ml1):
            return f"accepted paths with lengths {len(n0)}, {len(n1)} outside [3, limit) for limits {ml0}, {ml1}"
        s0, e0, _, _ = p0.check_interfaces(list(raw["e0"]["interfaces"]))
        if not case.lm1 and ("L" in (s0, e0)):
            return f"accepted [0-] path starts/ends on the left: {n0}"
        honest = all(s[0] is None for s in case.script)
        if both_valid and honest and (same_limits or case.quantis):
            if e0 != "R" or s0 not in (("L", "R") if case.lm1 else ("R",)):
                return f"accepted [0-] path {n0} has start/end {s0}/{e0}"
            if not all(left <= o <= L0 for o in n0[1:-1]):
                return f"accepted [0-] path {n0} leaves [{left},{L0}] in its interior"
            if not (n0[0] < left or n0[0] > L0):
                return f"accepted [0-] path {n0} does not start with a crossing frame"
            if p1.get_start_point(L0, LN) != "L":
                return f"accepted [0+] path {n1} does not start on the left"
            if not all(L0 <= o <= LN for o in n1[1:-1]):
                return f"accepted [0+] path {n1} leaves [{L0},{LN}] in its interior"
            if not (n1[-1] < L0 or n1[-1] > LN):
                return f"accepted [0+] path {n1} does not end with a crossing frame"
    # thresholds
    if case.quantis and raw["evalue"] is not None:
        en = case.energies
        exp_expected = (Fraction(case.betas[0]) * (Fraction(case.v0[-2]) - Fraction(en[0][0]))
                        - Fraction(case.betas[1]) * (Fraction(en[1][0]) - Fraction(case.v1[0])))
        if raw["exparg"] != exp_expected:
            return f"quantis exponent {raw['exparg']} != beta0*(V0(r0)-V0(r1)) - beta1*(V1(r0)-V1(r1)) = {exp_expected}"
        u = Fraction(case.draws[0])
        passes = case.accept_all or u <= min(Fraction(1), raw["evalue"])
        if passes == (status == "QEA"):
            return f"quantis energy rule: u={float(u)} E={float(raw['evalue'])} accept_all={case.accept_all} but status {status}"
    if not case.quantis and "wf" in case.moves and status in ("ACC", "HAS") and raw["rgen"].used == 1:
        from infretis.core.tis import compute_weight
        iw = [list(raw["e0"]["interfaces"]), list(raw["e1"]["interfaces"])]
        if case.cap is not None:
            iw[0][2] = iw[1][2] = case.cap
        c1o = Fraction(compute_weight(p1, iw[0], case.moves[0]))
        c2o = Fraction(compute_weight(old1, iw[1], case.moves[1]))
        c1n = Fraction(compute_weight(old1, iw[0], case.moves[0]))
        c2n = Fraction(compute_weight(p1, iw[1], case.moves[1]))
        ratio = Fraction(1) if (c1o == 0 or c2o == 0) else c1n * c2n / (c1o * c2o)
        u = Fraction(case.draws[0])
        if u != ratio and ((u < ratio) != (status == "ACC")):
            return f"high-acceptance swap: u={float(u)} ratio={ratio} but status {status}"
    return None


# --------------------------------------------------------------------------- generators


def minus_paths(maxL, lm1):
    """valid [0-] paths over the alphabet (plus, for lambda_-1, paths that start or end on the left)."""
    inner = [LM1, 1, L0] if lm1 else [-1, 1, L0]
    starts = [L0, 3] + ([LM1, -1] if lm1 else [])
    ends = [L0, 3] + ([LM1, -1] if lm1 else [])
    out = []
    for L in range(3, maxL + 1):
        for mid in itertools.product(inner, repeat=L - 2):
            for a in starts:
                for b in ends:
                    out.append((a,) + mid + (b,))
    return out


def plus_paths(maxL):
    inner = [L0, 3, LN]
    out = []
    for L in range(3, maxL + 1):
        for mid in itertools.product(inner, repeat=L - 2):
            for a in (1, L0):
                for b in (1, 6):
                    out.append((a,) + mid + (b,))
    return out


BACK_STREAMS = [[3], [1, 3], [1, 1, 3], [L0, 1, 3], [1, -1, 1, 3], [1, LM1, -1, LM1, 3], [1] * 14, [L0] * 14]
FORW_STREAMS = [[1], [3, 1], [3, 6], [L0, 3, 1], [LN, 6], [3, 4, 3, 1], [3] * 14, [LN] * 14]


def limits_for(nb, nf, rng):
    """length limits around the lengths the new paths would have (exact hits included)."""
    cands = {nb + 1, nb + 2, nb + 3, nf + 1, nf + 2, nf + 3, 12}
    return sorted({min(c, 13) for c in cands if c >= 2})


def stop_len(first, rest, left, right, ml):
    """frames consumed by the stop rule (python re-statement used only to choose limits)."""
    for k, o in enumerate([first] + list(rest)):
        if o < left or o > right or k + 1 == ml:
            return k + 1
    return len(rest) + 1


def gen_retis(ctx, rng, maxL, per_pair, n_cap):
    cases = []
    for lm1 in (False, True):
        mps, pps = minus_paths(maxL, lm1), plus_paths(maxL)
        pairs = [(a, b) for a in mps for b in pps]
        if len(pairs) > n_cap:
            # every [0-] path and every [0+] path still occurs: cover both marginals, then sample
            keep = [(a, pps[i % len(pps)]) for i, a in enumerate(mps)] + [(mps[i % len(mps)], b) for i, b in enumerate(pps)]
            keep += rng.sample(pairs, n_cap - len(keep)) if n_cap > len(keep) else []
            pairs = keep
            ctx.cov.setdefault("pair_sampling", {})[f"lm1={lm1}"] = f"{len(pairs)} of {len(mps) * len(pps)} pairs (all {len(mps)} [0-] and all {len(pps)} [0+] paths occur)"
        else:
            ctx.cov.setdefault("pair_sampling", {})[f"lm1={lm1}"] = f"all {len(pairs)} pairs"
        left = LM1 if lm1 else float("-inf")
        for a, b in pairs:
            for _ in range(per_pair):
                bs, fs = rng.choice(BACK_STREAMS), rng.choice(FORW_STREAMS)
                nb = stop_len(b[0], bs, left, L0, 99) + 1
                nf = stop_len(a[-1], fs, L0, LN, 99) + 1
                ml0 = rng.choice(limits_for(nb, nf, rng))
                ml1 = ml0 if rng.random() < 0.8 else rng.choice(limits_for(nb, nf, rng))
                cases.append(Case(lm1=lm1, maxlen0=ml0, maxlen1=ml1, old0=a, old1=b,
                                  script=[(None, bs), (None, fs)], direct=rng.random() < 0.1))
                ctx.dist(f"retis lm1={int(lm1)}")
    return cases


def gen_retis_grid(ctx, rng):
    """all stream patterns x all limits (exact hits) x lambda_-1 on a few representative pairs,
    plus degenerate inputs (short/empty paths, missing streams, dishonest first frames)."""
    cases = []
    reps0 = {False: [(3, 1, 3), (3, 1, L0), (L0, -1, 1, 3), (3, L0, 3), (3, 1, 6)],
             True: [(3, 1, 3), (-1, 1, 3), (3, 1, LM1), (3, 1, -1), (LM1, 1, L0), (3, 1, 6)]}
    reps1 = [(1, 3, 1), (L0, L0, 6), (1, LN, 3, 1), (1, 3, 6), (-1, 3, 1)]
    for lm1 in (False, True):
        left = LM1 if lm1 else float("-inf")
        for a in reps0[lm1]:
            for b in reps1:
                for bs in BACK_STREAMS:
                    for fs in FORW_STREAMS:
                        nb = stop_len(b[0], bs, left, L0, 99) + 1
                        nf = stop_len(a[-1], fs, L0, LN, 99) + 1
                        for ml in limits_for(nb, nf, rng):
                            cases.append(Case(lm1=lm1, maxlen0=ml, old0=a, old1=b, script=[(None, bs), (None, fs)]))
                            ctx.dist("retis grid")
                        cases.append(Case(lm1=lm1, maxlen0=nb + 2, maxlen1=nf + 1, old0=a, old1=b, script=[(None, bs), (None, fs)]))
                        cases.append(Case(lm1=lm1, maxlen0=nb + 3, maxlen1=nb, old0=a, old1=b, script=[(None, bs), (None, fs)]))
                        ctx.dist("retis grid unequal limits", 2)
    # degenerate
    for lm1 in (False, True):
        for a in [(), (3,), (1, 3), (3, 1), (3, 1, 1)]:
            for b in [(), (1,), (1, 3), (3, 3, 1)]:
                for ml in (1, 2, 3, 6):
                    cases.append(Case(lm1=lm1, maxlen0=ml, old0=a, old1=b, script=[(None, [1, 3]), (None, [3, 1])], direct=True))
                    ctx.dist("retis degenerate")
        cases.append(Case(lm1=lm1, maxlen0=8, old0=(3, 1, 3), old1=(1, 3, 1), script=[(None, [1, 1])], direct=True))
        cases.append(Case(lm1=lm1, maxlen0=8, old0=(3, 1, 3), old1=(1, 3, 1), script=[(None, [1, 3])], direct=True))
        cases.append(Case(lm1=lm1, maxlen0=8, old0=(3, 1, 3), old1=(1, 3, 1), script=[(4, [1, 3]), (1, [3, 1])]))
        cases.append(Case(lm1=lm1, maxlen0=8, old0=(3, 1, 3), old1=(1, 3, 1), script=[(1, [1, 3]), (6, [3, 1])]))
        ctx.dist("retis degenerate", 4)
    return cases


def gen_wf(ctx, rng, n):
    """'wf' in the moves: high-acceptance swap; the draw on a grid around the ratio."""
    from infretis.core.tis import compute_weight
    cases = []
    old1s = [(1, 3, 1), (1, 3, 4, 3, 1), (1, 3, LN, 6), (L0, 3, L0, 3, 1), (1, 4, 3, 4, 3, 1), (1, 3, 4, 6), (1, LN, 3, LN, 1)]
    fss = [[3, 1], [3, 4, 3, 1], [3, 4, 6], [4, 3, 4, 3, 4, 1], [3, LN, 6], [4, 3, 3, 4, 1], [LN, 6]]
    for moves in (("sh", "wf"), ("wf", "wf"), ("wf", "sh"), ("sh", "ss")):
        for cap in (None, 4, LN):
            for b in old1s:
                for fs in fss:
                    for lm1 in (False, True):
                        a = (3, 1, 3)
                        # dry run with u = 0 to learn the ratio from the implementation's own weights
                        base = dict(lm1=lm1, moves=moves, cap=cap, maxlen0=12, old0=a, old1=b, script=[(None, [1, 3]), (None, fs)])
                        cases.append(("probe", base))
    return cases


def expand_wf(ctx, probes, TapeEngine, shim):
    from infretis.core.tis import compute_weight
    cases = []
    for _, base in probes:
        c = Case(draws=(0.0,), **base)
        _, raw, _ = run_impl(c, TapeEngine, shim)
        if raw["error"] or raw["rgen"].used == 0:
            cases.append(Case(draws=(0.5,), **base))
            ctx.dist("wf (no draw used)")
            continue
        p1, old1 = raw["paths"][1], raw["old1"]
        iw = [list(raw["e0"]["interfaces"]), list(raw["e1"]["interfaces"])]
        if base["cap"] is not None:
            iw[0][2] = iw[1][2] = base["cap"]
        mv = base["moves"]
        c1o, c2o = compute_weight(p1, iw[0], mv[0]), compute_weight(old1, iw[1], mv[1])
        c1n, c2n = compute_weight(old1, iw[0], mv[0]), compute_weight(p1, iw[1], mv[1])
        ratio = Fraction(1) if (c1o == 0 or c2o == 0) else Fraction(c1n) * Fraction(c2n) / (Fraction(c1o) * Fraction(c2o))
        grid = {0.0, 0.25, 0.5, 0.75, 0.999}
        r = float(ratio)
        for d in (-1e-9, 1e-9, -0.01, 0.01):
            if 0.0 <= r + d < 1.0:
                grid.add(r + d)
        if Fraction(r) == ratio and 0.0 <= r < 1.0:
            grid.add(r)            # exact hit only when the float IS the ratio
        for u in sorted(grid):
            cases.append(Case(draws=(u,), **base))
            ctx.dist("wf high-acceptance")
    return cases


def gen_quantis(ctx, rng, maxL, n_pairs):
    import numpy as np
    cases = []
    dy = [0.0, 0.5, -0.5, 1.0, -1.25, 2.0, 0.125]
    betas_l = [(1.0, 1.0), (0.5, 2.0), (2.0, 0.25)]
    one0 = [[3], [L0], [1], [6]]            # one step from old[0+][0] in engine 0
    one1 = [[3], [L0], [1], [4]]            # one step from old[0-][-2] in engine 1
    for lm1 in (False, True):
        mps = [p for p in minus_paths(maxL, lm1)]
        pps = plus_paths(maxL)
        pairs = [(a, b) for a in mps for b in pps]
        strict = [(a, b) for a, b in pairs if a[-2] < L0 and b[0] < L0 and a[-1] > LM1]
        pairs = rng.sample(strict, min(n_pairs - n_pairs // 5, len(strict))) + rng.sample(pairs, min(n_pairs // 5, len(pairs)))
        left = LM1 if lm1 else float("-inf")
        for a, b in pairs:
            s0, s1 = rng.choice(one0), rng.choice(one1)
            if rng.random() < 0.7:
                s0, s1 = [3], [3]
            bs, fs = rng.choice(BACK_STREAMS), rng.choice(FORW_STREAMS)
            nb = stop_len(b[0], bs, left, L0, 99) + 1
            nf = stop_len(s1[0], fs, L0, LN, 99) + 1
            ml0 = rng.choice(limits_for(nb, nf, rng))
            ml1 = ml0 if rng.random() < 0.8 else rng.choice(limits_for(nb, nf, rng))
            v0 = [rng.choice(dy) for _ in a]
            v1 = [rng.choice(dy) for _ in b]
            if rng.random() < 0.05:
                v0[-2] = None
            if rng.random() < 0.05:
                v1[0] = None
            en = [[rng.choice(dy), rng.choice(dy)], [rng.choice(dy), rng.choice(dy)], None, None]
            if rng.random() < 0.03:
                en[rng.randrange(2)] = None
            betas = rng.choice(betas_l)
            acc_all = rng.random() < 0.15
            # threshold grid: E as numpy computes it
            grid = [0.0, 0.3, 0.9999999]
            if v0[-2] is not None and v1[0] is not None and en[0] and en[1]:
                x = (v0[-2] - en[0][0]) * betas[0] - (en[1][0] - v1[0]) * betas[1]
                E = float(min(1.0, np.exp(x)))
                grid += [E] + [E + d for d in (-1e-12, 1e-12, -0.05, 0.05) if 0.0 <= E + d < 1.0]
            for u in sorted(set(g for g in grid if 0.0 <= g <= 1.0)):
                cases.append(Case(quantis=True, lm1=lm1, maxlen0=ml0, maxlen1=ml1, old0=a, old1=b, v0=v0, v1=v1,
                                  script=[(None, s0), (None, s1), (None, bs), (None, fs)], energies=en, draws=(u,),
                                  betas=betas, accept_all=acc_all, direct=rng.random() < 0.1))
                ctx.dist(f"quantis lm1={int(lm1)}")
    # degenerate / dishonest engines
    for a in [(3,), (1, 3), (3, 1, 3)]:
        for b in [(), (1,), (1, 3, 1), (3, 3, 1)]:
            cases.append(Case(quantis=True, maxlen0=8, old0=a, old1=b, v0=[0.0] * len(a), v1=[0.0] * len(b),
                              script=[(None, [3]), (None, [3]), (None, [1, 3]), (None, [3, 1])],
                              energies=[[0.0, 0.0], [0.0, 0.0], None, None], draws=(0.5,), direct=True))
            ctx.dist("quantis degenerate")
    for firsts in [(3, None, None, None), (None, 3, None, None), (None, None, 3, None), (None, None, None, 1), (None, 1, None, None), (-1, None, None, None)]:
        for lm1 in (False, True):
            cases.append(Case(quantis=True, lm1=lm1, maxlen0=9, old0=(3, 1, 3), old1=(1, 3, 1), v0=[0.0] * 3, v1=[0.0] * 3,
                              script=[(firsts[0], [3]), (firsts[1], [3]), (firsts[2], [1, 3]), (firsts[3], [3, 1])],
                              energies=[[0.0, 0.0], [0.0, 0.0], None, None], draws=(0.0,)))
            ctx.dist("quantis dishonest first frame")
    return cases


# --------------------------------------------------------------------------- reversible engine: double swap


def double_swap_cases(ctx, rng, n):
    """Initial conditions for the deterministic reversible engine: a force table, [0-] and [0+]
    paths generated BY the dynamics (so that they are valid trajectories), limits above the lengths."""
    out = []
    forces = [
        ("free+walls", lambda x: (8 if x <= -4 else (-8 if x >= 9 else 0))),
        ("well", lambda x: (1 if x < 2 else (-1 if x > 2 else 0))),
        ("soft", lambda x: (2 if x < 0 else (-1 if x > 3 else 0))),
        ("lm1well", lambda x: (3 if x <= -3 else (-2 if x >= 8 else 0))),
    ]
    for name, F in forces:
        for x in range(-2, 9):
            for p in range(x - 3, x + 4):
                out.append((name, F, (x, p)))
    rng.shuffle(out)
    return out[:n]


def run_double_swap(ctx, VerletEngine, runner_reqs, quantis, lm1, name, F, s0, maxlen, accept_all=True):
    """From state s0 (which must be a crossing point of lambda_0) build a valid [0-]/[0+] pair with
    the engine itself, then swap twice with the REAL function.  Returns (error or None, evaluated?)."""
    import infretis.core.tis as tis
    from infretis.classes.path import Path
    world = {"states": {}, "ncalls": 0, "streams": [], "calls": []}
    vf = (lambda x: 0.25 * x) if quantis else (lambda x: 0.0)
    eng0 = VerletEngine(world, F, vf)
    eng1 = VerletEngine(world, F, vf)
    e0, e1 = ensembles(lm1, ("sh", "sh"), maxlen, maxlen, None, accept_all, quantis)
    e0["rgen"] = ScriptRng([0.0] * 8)
    e1["rgen"] = ScriptRng(())

    def T(s):
        return eng0.T(s)

    def R(s):
        return eng0.R(s)

    def Tinv(s):
        return R(T(R(s)))

    left = LM1 if lm1 else float("-inf")
    # s0 = (x, p): need p... build a trajectory through s0 and cut a [0-] and a [0+] path from it
    traj = [s0]
    for _ in range(3 * maxlen):
        traj.append(T(traj[-1]))
    back = [s0]
    for _ in range(3 * maxlen):
        back.append(Tinv(back[-1]))
    full = list(reversed(back[1:])) + traj
    xs = [s[0] for s in full]
    # find i < j < k: xs[i] > L0 (or < left), xs[i+1..j-1] in [left, L0], xs[j] > L0 ... = [0-] path i..j ;
    # [0+] path = j-1 .. k with xs[j..k-1] in [L0, LN], xs[k] outside
    found = None
    for j in range(2, len(xs) - 2):
        if xs[j] > L0 and xs[j - 1] < L0 and left <= xs[j - 1]:
            i = j - 1
            while i >= 0 and left <= xs[i] <= L0:
                i -= 1
            if i < 0 or j - i + 1 < 3:
                continue
            if not (xs[i] > L0 or xs[i] < left):
                continue
            if xs[i] < left and not lm1:
                continue
            k = j
            while k < len(xs) and L0 <= xs[k] <= LN:
                k += 1
            if k >= len(xs) or k - (j - 1) + 1 < 3:
                continue
            if j - i + 1 >= maxlen or k - j + 2 >= maxlen:
                continue
            found = (i, j, k)
            break
    if not found:
        return None, False
    i, j, k = found

    def build(name_, states):
        p = Path(maxlen=maxlen)
        from infretis.classes.system import System
        for n_, s in enumerate(states):
            sy = System()
            sy.order = [float(s[0])]
            sy.config = (name_, n_)
            sy.vel_rev = False
            sy.vpot = vf(s[0])
            sy.ekin = 0.0
            world["states"][(name_, n_)] = s
            p.phasepoints.append(sy)
        p.status = "ACC"
        p.weight = 1.0
        return p

    old0 = build("old0", full[i:j + 1])
    old1 = build("old1", full[j - 1:k + 1])
    hist = [(orders_of(old0), orders_of(old1))]
    cur0, cur1 = old0, old1
    fn = tis.quantis_swap_zero if quantis else tis.retis_swap_zero
    for step in range(2):
        picked = {-1: {"ens": e0, "traj": cur0}, 0: {"ens": e1, "traj": cur1}}
        acc, (n0, n1), status = fn(picked, {-1: [eng0], 0: [eng1]})
        if not acc:
            if step == 0:
                return None, False          # first swap rejected (e.g. too long): nothing to check
            return (f"reversible engine {name}, start {s0}, lm1={lm1}, quantis={quantis}: first swap accepted, the swap back was rejected with {status}; "
                    f"paths {hist[0]} -> {hist[-1]}"), True
        hist.append((orders_of(n0), orders_of(n1)))
        cur0, cur1 = n0, n1
    if hist[2] != hist[0]:
        return (f"reversible engine {name}, start {s0}, lm1={lm1}, quantis={quantis}: swapping twice gave {hist[2]} instead of the original {hist[0]} "
                f"(intermediate {hist[1]})"), True
    ctx.dist(f"double swap {'quantis' if quantis else 'retis'} lm1={int(lm1)}")
    return None, True


def case_size(c):
    return (len(c.old0) + len(c.old1) + sum(len(r) for _, r in c.script if r is not None), int(c.quantis), len(c.moves) and int("wf" in c.moves))


# --------------------------------------------------------------------------- run


def run(ctx):
    common.proof_stage(ctx, "C11", ["extract/c11.vo"])
    runner = common.runner_stage(ctx, "c11")
    if runner is None:
        return
    import logging
    import numpy
    import infretis.core.tis as tis
    logging.getLogger("infretis.core.tis").setLevel(logging.ERROR)
    logging.getLogger("infretis.classes.path").setLevel(logging.ERROR)
    TapeEngine, VerletEngine = make_engine_classes()
    shim = NpShim(numpy)
    quick = ctx.tier == "quick"
    rng = ctx.rng
    saved_np = tis.np
    tis.np = shim
    try:
        cases = []
        cases += gen_retis_grid(ctx, rng)
        cases += gen_retis(ctx, rng, 5 if quick else 6, 1 if quick else 2, 12000 if quick else 150000)
        cases += expand_wf(ctx, gen_wf(ctx, rng, 0), TapeEngine, shim)
        cases += gen_quantis(ctx, rng, 5 if quick else 6, 1500 if quick else 12000)

        reqs, metas = [], []
        for c in cases:
            ans, raw, req = run_impl(c, TapeEngine, shim)
            err = oracle(c, raw)
            reqs.append(req)
            metas.append((ans, err, c))
            var = "quantis" if c.quantis else "retis"
            if not raw["error"]:
                ctx.dist(f"{var} status {raw['status']}")
            else:
                ctx.dist(f"{var} status <{raw['error']}>")
        outs = runner.run(reqs)
        corr_fail = 0
        oracle_fail, corr_bad = [], []
        for req, mo, (io, err, c) in zip(reqs, outs, metas):
            ctx.count(req, nontrivial=True)
            if err:
                oracle_fail.append((case_size(c), req, mo, io, err, c))
            elif mo != io:
                corr_fail += 1
                corr_bad.append((case_size(c), req, mo, io, c))
        # smallest failing inputs first (the enumeration doubles as the shrinker)
        oracle_fail.sort(key=lambda t: t[:2])
        corr_bad.sort(key=lambda t: t[:2])
        ctx.cov["oracle_failures"] = len(oracle_fail)
        seen_msgs = set()
        for _, req, mo, io, err, c in oracle_fail:
            kind = err.split(":")[0][:60]
            if kind in seen_msgs or len(seen_msgs) >= 4:
                continue
            seen_msgs.add(kind)
            ctx.violation(f"C11 statement fails on the implementation: {err}",
                          {"kind": "lockstep", "case": c.desc(), "impl": io, "model": mo, "request": req}, True)
        for _, req, mo, io, c in corr_bad[:2]:
            tail = ("the property oracle did find failing inputs, see the other replays" if oracle_fail
                    else f"property oracle found no failing input among {len(reqs)} cases")
            ctx.violation(f"correspondence model/implementation broken for a {'quantis' if c.quantis else 'retis'} zero swap "
                          f"({corr_fail} of {len(reqs)} cases differ; {tail})",
                          {"kind": "lockstep", "correspondence": "c11 runner vs infretis.core.tis", "case": c.desc(),
                           "impl": io, "model": mo, "request": req}, False)
        for k in (0, len(reqs) // 3, len(reqs) // 2, len(reqs) - 1):
            ctx.sample({"request": reqs[k], "model": outs[k], "impl": metas[k][0]})

        # double swap with the reversible engine, on the real functions
        nds = nds_fail = 0
        inits = double_swap_cases(ctx, rng, 300 if quick else 2000)
        for name, F, s0 in inits:
            for quantis in (False, True):
                for lm1 in (False, True):
                    for maxlen in (40, 12):
                        err, evaluated = run_double_swap(ctx, VerletEngine, None, quantis, lm1, name, F, s0, maxlen)
                        if evaluated:
                            nds += 1
                            ctx.count(("ds", name, s0, quantis, lm1, maxlen), nontrivial=True)
                        if err:
                            nds_fail += 1
                            if nds_fail <= 3:
                                ctx.violation(f"C11 statement fails on the implementation: {err}",
                                              {"kind": "double_swap", "force": name, "start": s0, "quantis": quantis, "lm1": lm1, "maxlen": maxlen}, True)
        ctx.cov["double_swaps_evaluated"] = nds
        ctx.cov["double_swap_failures"] = nds_fail
        if nds < 50:
            ctx.violation("double-swap oracle evaluated on fewer than 50 cases (generator broken)", {"evaluated": nds}, False)
    finally:
        tis.np = saved_np
        tis.ENGINES = {}

    ctx.cov["rule"] = ("lock-step: [0-] paths over alphabet {-1,0,1,2,3} and [0+] paths over {1,2,3,5,6} (interfaces lambda_-1=0, lambda_0=2, lambda_N=5), "
                       "lengths 3..%d, all/sampled pairs (see pair_sampling) x seeded choice of backward/forward stream pattern and length limit "
                       "(limits chosen around the resulting lengths: exact hits included; 20%% unequal limits); a full grid of 8x8 stream patterns x all limits x "
                       "lambda_minus_one on/off on representative pairs; degenerate inputs (empty/short paths, missing streams, dishonest first frames); "
                       "wf/ss moves with interface_cap absent/4/5 and the draw on a grid around the ratio; quantis with dyadic energies, three beta pairs, "
                       "draws on a grid around min(1,E), accept_all on/off.  A case is distinct by its request line; all exercise a modelled branch. "
                       "double swap: the real functions run twice with a deterministic reversible integer engine (position Verlet, 4 force tables), "
                       "initial pairs cut from the engine's own trajectories." % (5 if quick else 6))
    ctx.cov["correspondence"] = {"compared": len(reqs), "disagreements": corr_fail}
    ctx.cov["trusted_base"] += ["extraction: ExtrOcamlBasic only; ocaml/util.ml + ocaml/c11_driver.ml",
                                "py/checks/c11.py: TapeEngine/VerletEngine (subclasses of plugins.engines.ScriptedEngine, real add_to_path), ScriptRng, np.exp shim, encoders",
                                "numpy.exp (value handed to the model as an exact rational)"]
    ctx.assumptions += ["orders, interfaces, weights are integer-valued floats; energies/betas dyadic (float arithmetic exact)",
                        "System reduced to (order[0], config tag, vel_rev, vpot); Path attributes generated/path_number/weights not compared",
                        "-inf represented in the model by an integer below every order value of the case",
                        "validity and double-swap oracles are evaluated for valid old paths and equal length limits (one shared tis_set in infretis)"]


def replay(doc):
    import json
    import logging
    import numpy
    import infretis.core.tis as tis
    print(json.dumps(doc, indent=1, default=str)[:6000])
    rp = doc["replay"]
    logging.getLogger("infretis.core.tis").setLevel(logging.ERROR)
    TapeEngine, VerletEngine = make_engine_classes()
    if rp.get("kind") == "lockstep":
        d = dict(rp["case"])
        d["script"] = [tuple(s) for s in d["script"]]
        c = Case(**d)
        shim = NpShim(numpy)
        saved = tis.np
        tis.np = shim
        try:
            ans, raw, req = run_impl(c, TapeEngine, shim)
        finally:
            tis.np = saved
        print("implementation now answers:", ans)
        print("oracle:", oracle(c, raw))
        r = common.Runner("c11")
        print("model now answers:        ", r.run([req])[0])
        return 0
    if rp.get("kind") == "double_swap":
        ctx = common.Ctx("C11", "quick", 0)
        for name, F, s0 in double_swap_cases(ctx, __import__("random").Random(0), 10 ** 9):
            if name == rp["force"] and list(s0) == list(rp["start"]):
                print("oracle:", run_double_swap(ctx, VerletEngine, None, rp["quantis"], rp["lm1"], name, F, s0, rp["maxlen"]))
        return 0
    return 0
