"""C13 — on-the-fly trajectory readers never return a torn frame.

Theorems: coq/theorems/C13.v (models coq/model/ReadersM.v, proofs coq/proofs/ReadersP.v).
Tie: functional lock-step of the real ReadAndProcessOnTheFly + xyz_reader + lammpstrj_reader
(infretis/classes/engines/engineparts.py) against the extracted model on generated trajectory
files truncated at EVERY byte cut (each followed by a second poll of the same reader object on
the complete file), on all pairs of cuts of the smallest files and on seeded random longer
sequences of cuts; and of the real GromacsRunner.get_gromacs_frames / read_remaining_trr /
read_trr_header / get_data (gromacs.py), driven without a gmx binary by a scripted writer
(a stand-in process object and a `sleep` that grows the file), against the TRR state machine;
and of the same loop against EVERY interleaving of the writer with the loop's observations
(check_poll / getsize): the file grows and GROMACS exits (code 0) between any two of them, the
reachable (program point, local variables, bytes on disk) states are explored exhaustively and
every run is compared with the observation-level model (trr_step) for every final size.
Oracle: the literal statement — frames returned == frames completely on disk, each once, in
order, with exactly the written values, nothing raised — evaluated on the implementation.
"""
import importlib.util  # noqa: F401
import collections
import io
import itertools
import os
import struct
import sys

import numpy as np

import common

META = {
    "id": "C13",
    "level": "proof",
    "technique": "Coq theorems over byte/line-level executable models of xyz_reader, lammpstrj_reader, ReadAndProcessOnTheFly and the TRR polling loop (every byte cut, every non-decreasing poll sequence, unbounded) + an observation-level state machine of the TRR loop (one transition per check_poll/getsize, GROMACS may write and exit between any two) with the no-complete-frame-lost theorem for every interleaving + exhaustive every-cut lock-step of the extracted model vs the real readers and the real GROMACS TRR loop, and exhaustive exploration of the writer/reader interleavings of the real loop on small TRR files",
    "text": "Unbounded theorems, closed under the global context: for every list of well-formed frames (any atom count, any whitespace-free number tokens, LAMMPS ids in any order, 2- or 3-column box lines) and EVERY byte cut of the file, the xyz and LAMMPS readers raise nothing, return exactly the frames wholly inside the cut with exactly the written tokens and advance the position by exactly their bytes (C13_xyz_no_torn, C13_lammps_no_torn); for every non-decreasing sequence of cuts polled with one reader object each poll returns exactly the frames completed since the previous poll, so the concatenation is every complete frame once, in order, and all frames once the writer is done (…_incremental, …_complete_after_writer); the LAMMPS value is characterised independently of the reader (row of atom id at index id-1, box rows = tokens of lines 5..7); for the GROMACS TRR loop, on sizes: every header/data read starts at a block boundary, has the block's length and ends inside the bytes on disk when issued, frames are handed out 0,1,2,… once each, and after GROMACS exits all frames have been handed out and all bytes consumed (C13_trr_never_reads_past_size, C13_trr_quiescent_complete, instantiated with TRR_HEAD_SIZE and the header sizes extracted from gromacs.py). Writer against EVERY observation point of the TRR loop: get_gromacs_frames learns about the world only through check_poll() and os.path.getsize(); the model trr_step has one transition per such observation (program points: outer poll, header getsize, data getsize, the poll and the SECOND getsize of the 'GROMACS has ended' guard inside the wait-for-data loop, the two getsize of the final read) and a schedule gives the bytes on disk at every observation made while GROMACS runs, the index of the observation that first sees it ended with code 0 (any index, hence any program point — in particular between the getsize that says 'data not ready' and the check_poll that follows) and the final size. For every schedule whose observations never exceed the final size the generator returns and hands out exactly the frames completely inside the final size, each once, in order, every read lying inside the bytes on disk when issued (C13_trr_every_interleaving; C13_trr_complete_frames_exist: such a frame count exists for every final size); with the constants of gromacs.py and GROMACS having written everything, no complete frame is lost for any interleaving (C13_trr_no_complete_frame_lost). The loop that decides 'ended and incomplete' with the size read BEFORE check_poll() — no second getsize — is refuted: it returns with two complete frames lost (C13_trr_stale_size_refuted). FRAMES OF DIFFERENT SIZES: the frames of one TRR file need not carry the same blocks (velocities / forces written every nstvout / nstfout steps, positions every nstxout steps); in the model a layout is a list of (header size, data size), the pending frame carries the data size announced by ITS OWN header (as the code does: self.data_size is recomputed for every header) and all TRR theorems quantify the data size per frame (lay_ok fixes the header size only) - C13_trr_guard_uses_own_frame_size: the loop with its two data-size guards parametrised by the size they use (trr_sched_g) is, with the frame's own size, the loop of C13_trr_every_interleaving; the size computed once while data_size == 0 (cached_size) is refuted twice: a small frame first lets get_data run on a frame that is only partly on disk (C13_trr_cached_data_size_torn_refuted), a large frame first makes the loop return without the last, complete frame (C13_trr_cached_data_size_lost_refuted). The behaviour before the repair of lead L1 is refuted by vm_compute witnesses (C13_*_old_reader_*). The models are tied to /repo on every run by running the extracted model and the real code on the same files at every single byte cut (+ second poll on the whole file), all pairs of cuts of the smallest files and random longer poll sequences, comparing frames, file position and raised/not raised; for TRR additionally by driving the real get_gromacs_frames with a scripted process object and file against every interleaving over a set of byte positions (all thresholds the loop compares with, +-1/+-2, and mid-header / mid-data positions) of 2-, 3- and 4-frame files in both precisions — exhaustive over the position before each observation, the observation at which GROMACS is seen ended, and the final size, with states of identical (line, locals, attributes, offset, bytes on disk) merged — comparing the sequence of check_poll/getsize calls, every read and every yield with trr_step; the literal statement is evaluated on the implementation's results (frames handed out == frames completely on disk at the end, written values, nothing raised) and a failing schedule is reported as replay. Both TRR families (byte cuts and interleavings) also run on files whose frames have DIFFERENT data sizes: every pattern of positions only / + velocities / + forces over 2, 3 and 4 frames (quick tier: every third 4-frame pattern; the byte-cut family in both precisions with alternating byte order, the interleaving family with precision and byte order alternating from pattern to pattern; thorough: every pattern in both precisions, the byte-cut family in both byte orders too) plus layouts with vir/pres/box in some frames only, atom counts chosen so that the first frame(s) reach TRR_HEAD_SIZE and the later frames are read while the file still grows; cuts / positions = every threshold the loop compares the size with, every block boundary, and the offsets at which a guard using ANOTHER frame's data size would fire, -1/0 (+-2 for byte cuts), the middle of every header and block, + seeded random cuts; an exception of the loop (struct.error, EOFError route into reopen_file, ...) is a finding with its input.",
    "note": "Trusted: Coq kernel; extraction (ExtrOcamlBasic) + ocaml/c13_driver.ml; this harness (generators, canonicalisation as float64 bytes, the ground truth = float() of the tokens the generator wrote and their byte offsets). Modelled, not verified: readline()/tell()/seek() of Python text files on ASCII content without carriage returns (readline = split after every newline, tell = byte offset), str.split() on ASCII white space, int()/float() on plain decimal tokens (float()/numpy string conversion is an uninterpreted decidable token predicate in the theorems; the runner instantiates it with a decimal-literal automaton), os.path.getsize and BufferedReader.read on a growing file. The theorems assume one atom count per file (the LAMMPS reader reads N only in the first frame of a poll) and, for TRR, one header size per file not larger than TRR_HEAD_SIZE; the TRR data size is arbitrary PER FRAME (no uniform-size assumption: the generated non-uniform files keep the atom count and vary the blocks). TRR is covered at the level of sizes and offsets (which block is read when, with how many bytes on disk); the decoding of a complete block by struct.unpack is exercised by the harness (both byte orders, both precisions, all block subsets) but not modelled in Coq. The real gmx program is replaced by a scripted writer: a stand-in for the Popen object whose poll() turns non-None once the script is exhausted and a replacement of gromacs.sleep that appends the next chunk; start()/stop()/reopen_file (inode change) are not exercised. Observation: because the first header is only read once TRR_HEAD_SIZE (1000) bytes are on disk, frames of a file shorter than that are handed out only after GROMACS exits — late, never torn. In the interleaving family the file is an in-memory append-only object (read/tell/seek), poll() and getsize() are answered from the schedule and gromacs.sleep is a no-op, so the runs are deterministic (no clock, no thread); merging of equivalent states reads the generator frame's line number and local variables through sys._getframe (a state the harness cannot see — none exists today: the loop's state is its locals, the runner's attributes and the file offset — would make the exploration incomplete, not unsound). A non-zero return code makes check_poll raise (a failed run, by design) and is not scheduled. Observation (outside the property, which is about partial writes of an output that gets completed): if gmx exits with code 0 leaving a PARTIAL last frame, the wait-for-data guard stops cleanly, but when the exit is noticed by the outer check_poll, read_remaining_trr reads into the partial frame and raises struct.error (read_struct_buff only turns an empty read into the handled EOFError); such schedules are counted (trr_schedules_outside_property) and not judged.",
    "design_ref": "4/C13",
}
LEVEL = "proof"

EXN = {ZeroDivisionError: "Z", ValueError: "V", IndexError: "I"}
MAXV = 3   # violations reported per family


# --------------------------------------------------------------------------- generators

def numtok(rng, style):
    """One whitespace-free number token; its float() is the written value."""
    if style == 6:
        style = rng.randrange(6)
    k = rng.randrange(-4000, 4001)
    v = k / 8.0
    if style == 0:
        return str(rng.randrange(-99, 100))
    if style == 1:
        return "%.3f" % v
    if style == 2:
        return "%.10f" % (v / 64.0)
    if style == 3:
        return "%.4e" % v
    if style == 4:
        return "%+.2E" % (v * 1024.0)
    return rng.choice([".5", "5.", "-0", "+7", "1e3", "-.25E-2", "0", "-12.", "3.0e+00", "00.125"])


SEPS = [" ", "  ", "\t", "      "]
NSTYLES = 7
XYZ_COUNT = 4
XYZ_COMMENT = 4


def key_arr(a):
    a = np.asarray(a)
    return (a.shape, a.dtype.str, a.tobytes())


def gen_xyz(rng, N, nfr, cstyle, mstyle, nstyle, sep):
    out = b""
    truth = []
    for j in range(nfr):
        lines = [{0: f"{N}", 1: f"{N:8d}", 2: f" {N} ", 3: f"\t{N}  atoms"}[cstyle],
                 {0: f" i = {j}, time = {j * 0.5:.3f}, E = {-1.5 * j:.10f}", 1: "", 2: "comment 1 2 3 4", 3: "   "}[mstyle]]
        rows = []
        for _a in range(N):
            toks = [numtok(rng, nstyle) for _ in range(3)]
            lines.append(rng.choice(["", " ", "   "]) + sep.join([rng.choice(["H", "O", "Ar", "C1"])] + toks) + rng.choice(["", " "]))
            rows.append([float(t) for t in toks])
        out += "".join(ln + "\n" for ln in lines).encode()
        arr = np.array(rows, dtype=np.float64) if rows else np.array([], dtype=np.float64)
        truth.append((len(out), key_arr(arr)))
    return out, truth


def gen_lmp(rng, N, nfr, perm, nstyle, sep, boxcols, cstyle=0):
    """perm: None = random order per frame, 'id' = sorted, or an explicit tuple of ids."""
    out = b""
    truth = []
    for j in range(nfr):
        lines = ["ITEM: TIMESTEP", str(j * 10), "ITEM: NUMBER OF ATOMS",
                 {0: f"{N}", 1: f"   {N}", 2: f"{N} "}[cstyle],
                 "ITEM: BOX BOUNDS pp pp pp" if boxcols == 2 else "ITEM: BOX BOUNDS xy xz yz pp pp pp"]
        box = np.zeros((3, 3), dtype=np.float64)
        for r in range(3):
            nc = boxcols if boxcols in (2, 3) else rng.choice([2, 3])
            toks = [numtok(rng, nstyle) for _ in range(nc)]
            lines.append(sep.join(toks))
            box[r, :nc] = [float(t) for t in toks]
        lines.append("ITEM: ATOMS id type x y z vx vy vz id")
        if perm is None:
            order = list(range(1, N + 1))
            rng.shuffle(order)
        elif perm == "id":
            order = list(range(1, N + 1))
        else:
            order = list(perm)
        coords = np.zeros((N, 6), dtype=np.float64)
        for aid in order:
            toks = [numtok(rng, nstyle) for _ in range(6)]
            lines.append(sep.join([str(aid), str(rng.randrange(1, 4))] + toks + [str(aid)]))
            coords[aid - 1, :] = [float(t) for t in toks]
        out += "".join(ln + "\n" for ln in lines).encode()
        truth.append((len(out), (key_arr(box), key_arr(coords))))
    return out, truth


def every_cut_seqs(L):
    return [(c, L) for c in range(L + 1)]


def random_seqs(rng, L, n):
    out = []
    for _ in range(n):
        k = rng.randrange(2, 8)
        cuts = sorted(rng.randrange(0, L + 1) for _ in range(k))
        if rng.random() < 0.5:
            # repeat a cut: polling twice without growth
            cuts.insert(rng.randrange(len(cuts)), cuts[rng.randrange(len(cuts))])
            cuts.sort()
        out.append(tuple(cuts + [L]))
    return out


# --------------------------------------------------------------------------- implementation side (text readers)

def canon_impl(kind, r):
    if kind == "xyz":
        return [key_arr(a) for a in r]
    if isinstance(r, list) and not r:
        return []
    traj, box = r
    if len(traj) != len(box):
        return [("length-mismatch", len(traj), len(box))]
    return [(key_arr(b), key_arr(t)) for t, b in zip(traj, box)]


def impl_polls(P, kind, data, cuts, path):
    fn = P.xyz_reader if kind == "xyz" else P.lammpstrj_reader
    reader = P.ReadAndProcessOnTheFly(path, fn)
    out = []
    for c in cuts:
        with open(path, "wb") as f:
            f.write(data[:c])
        try:
            r = reader.read_and_process_content()
            e = "N"
        except Exception as ex:  # noqa: BLE001
            e = EXN.get(type(ex)) or next((v for k, v in EXN.items() if isinstance(ex, k)), None) or ("X:" + type(ex).__name__)
            r = None
        frames = canon_impl(kind, r) if e == "N" else []
        try:
            pos = int(reader.current_position)
        except Exception:  # noqa: BLE001
            pos = -1
        out.append((e, pos, frames))
    return out


def expected_polls(truth, cuts):
    """The literal statement: poll i returns the frames complete at cut i and not before."""
    out = []
    prev = 0
    for c in cuts:
        out.append([k for (end, k) in truth if prev < end <= c])
        prev = max(prev, c)
    return out


def show_key(k):
    if isinstance(k, tuple) and len(k) == 3 and isinstance(k[2], bytes):
        return np.frombuffer(k[2], dtype=np.dtype(k[1])).reshape(k[0]).tolist()
    if isinstance(k, tuple):
        return [show_key(x) for x in k]
    return k


def parse_model_frame(kind, s):
    if kind == "xyz":
        if s == "@":
            return key_arr(np.array([], dtype=np.float64))
        return key_arr(np.array([[float(t) for t in row.split(",")] for row in s.split("/")], dtype=np.float64))
    b, c = s.split("#")
    box = np.zeros((3, 3), dtype=np.float64)
    for i, row in enumerate(b.split("/")):
        if row:
            for j, t in enumerate(row.split(",")):
                box[i, j] = float(t)
    rows = c.split("/") if c else []
    coords = np.zeros((len(rows), 6), dtype=np.float64)
    for i, row in enumerate(rows):
        if row != "~":
            coords[i, :] = [float(t) for t in row.split(",")]
    return (key_arr(box), key_arr(coords))


def run_text_family(ctx, runner, P, kind, family, files, path, with_oracle, stats):
    """files: list of dict(data, truth, N, desc, seqs).  Returns nothing; reports through ctx."""
    reqs = []
    impl_all = []
    n_or_fail = 0
    for F in files:
        data, truth = F["data"], F["truth"]
        res = []
        for seq in F["seqs"]:
            r = impl_polls(P, kind, data, seq, path)
            res.append(r)
            ctx.count((family, kind, F["desc"], seq), nontrivial=True)
            stats["polls"] += len(seq)
            if with_oracle:
                exp = expected_polls(truth, seq)
                bad = None
                for i, ((e, _pos, frames), want) in enumerate(zip(r, exp)):
                    if e != "N":
                        bad = f"poll {i} (cut {seq[i]}) raised {e} on a partially written file"
                        break
                    if frames != want:
                        bad = (f"poll {i} (cut {seq[i]} of {len(data)} bytes) returned {len(frames)} frame(s), "
                               f"{len(want)} are completely on disk and not yet handed out"
                               + ("" if len(frames) != len(want) else " — values differ from the written ones"))
                        break
                if bad:
                    n_or_fail += 1
                    if n_or_fail <= MAXV:
                        ctx.violation(
                            f"C13 statement fails on the implementation ({kind} reader, {family}): {bad}",
                            {"kind": kind, "family": family, "case": F["desc"], "file_hex": data.hex(),
                             "file_text": data.decode("ascii", "replace"), "cuts": list(seq),
                             "truth": [[end, show_key(k)] for end, k in truth],
                             "observed": [[e, pos, [show_key(k) for k in fr]] for e, pos, fr in r],
                             "expected_frames_per_poll": [[show_key(k) for k in w] for w in exp]}, True)
        impl_all.append(res)
        seqs = ";".join(",".join(map(str, s)) for s in F["seqs"]) or "-"
        reqs.append(f"polls {kind} 1 {data.hex() or '-'} {seqs}")
        reqs.append(f"wf {kind} {F['N']} {data.hex() or '-'}")
    outs = runner.run(reqs)
    n_dis = 0
    for fi, F in enumerate(files):
        ans, wf = outs[2 * fi], outs[2 * fi + 1]
        stats["files"] += 1
        if wf == "1":
            stats["in_domain_files"] += 1
        elif with_oracle:
            stats["generator_outside_domain"] += 1
        if ans.startswith("ERR"):
            n_dis += 1
            if n_dis <= MAXV:
                ctx.violation(f"model runner failed on a {kind} case: {ans}", {"request": reqs[2 * fi][:300], "case": F["desc"]}, False)
            continue
        tbl_s, _, ans_s = ans.partition("|")
        table = [parse_model_frame(kind, s) for s in tbl_s.split(";")] if tbl_s else []
        seq_ans = ans_s.split(" ") if ans_s else []
        for si, seq in enumerate(F["seqs"]):
            mo = []
            for p in seq_ans[si].split("/"):
                e, pos, idx = p.split(",")
                mo.append((e, int(pos), [table[int(i)] for i in idx.split(".")] if idx != "-" else []))
            io_ = impl_all[fi][si]
            same = len(mo) == len(io_) and all(
                me == ie and mp == ip and (me != "N" or mf == if_) for (me, mp, mf), (ie, ip, if_) in zip(mo, io_))
            stats["compared"] += 1
            if not same:
                n_dis += 1
                if n_dis <= MAXV:
                    ctx.violation(
                        f"correspondence model/implementation broken for the {kind} reader ({family}); "
                        + ("the property oracle found a failing input, see the other replay" if n_or_fail else
                           "the property oracle found no failing input in this family"),
                        {"correspondence": f"c13 runner vs engineparts.{'xyz_reader' if kind == 'xyz' else 'lammpstrj_reader'}",
                         "kind": kind, "family": family, "case": F["desc"], "file_hex": F["data"].hex(),
                         "file_text": F["data"].decode("ascii", "replace"), "cuts": list(seq),
                         "impl": [[e, pos, [show_key(k) for k in fr]] for e, pos, fr in io_],
                         "model": [[e, pos, [show_key(k) for k in fr]] for e, pos, fr in mo]}, False)
    stats["disagreements"] += n_dis
    stats["oracle_failures"] += n_or_fail
    return outs


# --------------------------------------------------------------------------- TRR

TRR_KEYS = ("box", "vir", "pres", "x", "v", "f")


LAYERS = {"x": ("box", "x"), "xv": ("box", "x", "v"), "xvf": ("box", "x", "v", "f")}


def layer_patterns(nf):
    """Every way nf frames can carry positions only / + velocities / + forces (nstxout, nstvout,
    nstfout need not be equal: velocities and forces are written with some of the frames only)."""
    return list(itertools.product(("x", "xv", "xvf"), repeat=nf))


def per_frame(blocks):
    return bool(blocks) and isinstance(blocks[0], (tuple, list))


def gen_trr(rng, endian, double, natoms, nfr, blocks):
    """Bytes of a TRR file as GROMACS writes it + per frame (header size, data size, header dict, data dict).
    `blocks`: the blocks every frame carries (tuple of names), or one such tuple PER FRAME (frames of
    different data sizes; each header announces its own frame's block sizes)."""
    real = "d" if double else "f"
    rs = 8 if double else 4
    out = b""
    frames = []
    for j in range(nfr):
        sz = {k: 0 for k in TRR_KEYS}
        for k in (blocks[j] if per_frame(blocks) else blocks):
            sz[k] = 9 * rs if k in ("box", "vir", "pres") else natoms * 3 * rs
        ints = [0, 0, sz["box"], sz["vir"], sz["pres"], 0, 0, sz["x"], sz["v"], sz["f"], natoms, j * 10, 0]
        t, lam = j * 0.5, 0.25
        hdr = (struct.pack(endian + "1i", 1993) + struct.pack(endian + "2i", 13, 12) + b"GMX_trn_file"
               + struct.pack(endian + "13i", *ints) + struct.pack(endian + "2" + real, t, lam))
        data = b""
        vals = {}
        for k in TRR_KEYS:
            if sz[k]:
                n = 9 if k in ("box", "vir", "pres") else natoms * 3
                # double-precision files carry values that single precision cannot hold (exact in binary64)
                v = [rng.randrange(-4000, 4001) / 8.0 + (rng.randrange(1, 1000) * 2.0 ** -40 if double else 0.0) for _ in range(n)]
                data += struct.pack(endian + str(n) + real, *v)
                vals[k] = np.array(v, dtype=np.float64).reshape((3, 3) if n == 9 and k in ("box", "vir", "pres") else (natoms, 3))
        out += hdr + data
        frames.append({"hs": len(hdr), "ds": len(data), "natoms": natoms, "step": j * 10, "time": t, "lambda": lam,
                       "endian": endian, "double": double, "sizes": sz, "vals": vals, "end": len(out),
                       "blocks": [k for k in TRR_KEYS if sz[k]]})
    return out, frames


class FakeProc:
    """Stands for the subprocess.Popen object of the running gmx program."""
    stdin = stdout = stderr = None
    returncode = 0
    pid = -1

    def __init__(self, log):
        self.done = False
        self.log = log

    def poll(self):
        if self.done:
            self.log["finish_at_obs"] = self.log.get("finish_at_obs", len(self.log["sizes"]))
            self.log.setdefault("finish_at_ev", len(self.log["events"]))
            if "br_at_finish" not in self.log:
                self.log["br_at_finish"] = self.log["runner"].bytes_read
                self.log["hs_at_finish"] = self.log["runner"].header_size
            return 0
        return None

    def wait(self, timeout=None):
        return 0


class RecFile:
    """The open TRR file, recording every raw read (offset, requested, obtained, bytes on disk)."""

    def __init__(self, path, log):
        self.f = open(path, "rb")
        self.path = path
        self.log = log

    def read(self, n=-1):
        pos = self.f.tell()
        b = self.f.read(n)
        disk = os.path.getsize(self.path)
        if n < 0 or len(b) != n or pos + n > disk:
            self.log["bad_reads"].append((pos, n, len(b), disk))
        self.log["nreads"] += 1
        return b

    def tell(self):
        return self.f.tell()

    def seek(self, *a):
        return self.f.seek(*a)

    def fileno(self):
        return self.f.fileno()

    def close(self):
        self.f.close()

    @property
    def closed(self):
        return self.f.closed


class OsProxy:
    def __init__(self, log):
        self._log = log

        class _P:
            def __getattr__(s, n):
                return getattr(os.path, n)

            def getsize(s, p):
                v = os.path.getsize(p)
                log["sizes"].append(v)
                return v
        self.path = _P()

    def __getattr__(self, n):
        return getattr(os, n)


def drive_trr(G, path, data, script):
    """Run the real get_gromacs_frames while a scripted writer grows the file to script[0],
    script[1], ... bytes (one step per sleep() of the loop); GROMACS 'exits' at the first
    sleep after the last step."""
    log = {"sizes": [], "events": [], "bad_reads": [], "nreads": 0, "sleeps": 0}
    step = {"i": 0}
    with open(path, "wb") as f:
        f.write(data[:script[0]])
    proc = FakeProc(log)
    runner = G.GromacsRunner([], path, path + ".edr", os.path.dirname(path))
    log["runner"] = runner
    runner.running = proc
    runner.fileh = RecFile(path, log)
    runner.ino = os.fstat(runner.fileh.fileno()).st_ino
    runner.bytes_read = 0
    runner.stop_read = False

    def fake_sleep(_t):
        log["sleeps"] += 1
        if log["sleeps"] > 5000:
            raise RuntimeError("harness: the polling loop does not terminate")
        if step["i"] + 1 < len(script):
            a, b = script[step["i"]], script[step["i"] + 1]
            step["i"] += 1
            with open(path, "ab") as f:
                f.write(data[a:b])
        else:
            proc.done = True

    real_header, real_data = G.read_trr_header, G.get_data

    def rec_header(fh):
        at = fh.tell()
        h, n = real_header(fh)
        log["events"].append(f"H:{at}:{n}:{log['sizes'][-1]}")
        return h, n

    def rec_data(fh, header):
        at = fh.tell()
        d, n = real_data(fh, header)
        got = fh.tell() - at
        log["events"].append(f"D:{at}:{n}:{log['sizes'][-1]}" + ("" if got == n else f"!consumed{got}"))
        return d, n

    saved = (G.sleep, G.os, G.read_trr_header, G.get_data)
    G.sleep, G.os, G.read_trr_header, G.get_data = fake_sleep, OsProxy(log), rec_header, rec_data
    yielded = []
    exn = None
    try:
        for d in runner.get_gromacs_frames():
            log["events"].append(f"Y:{len(yielded)}")
            yielded.append(d)
    except Exception as ex:  # noqa: BLE001
        exn = type(ex).__name__ + ": " + str(ex)[:80]
    finally:
        G.sleep, G.os, G.read_trr_header, G.get_data = saved
        log["final_tell"] = runner.fileh.tell() if not runner.fileh.closed else -1
        runner.fileh.close()
        runner.running = None   # nothing to stop in __del__
    del log["runner"]
    return yielded, exn, log


def trr_data_equal(d, fr):
    if set(d.keys()) != set(fr["vals"].keys()):
        return False
    for k, v in fr["vals"].items():
        a = np.asarray(d[k])
        if a.shape != v.shape or a.astype(np.float64).tobytes() != v.tobytes():
            return False
    return True


def trr_script_request(head, frames, log, total):
    lay = ",".join(f"{fr['hs']}:{fr['ds']}" for fr in frames)
    k = log.get("finish_at_obs", len(log["sizes"]))
    running = log["sizes"][:k]
    return f"trr {head} {lay} {','.join(map(str, running)) or '-'} {total}"


SPECIAL_LAYOUTS = [
    (("box", "vir", "pres", "x", "v", "f"), ("x",)),
    (("x",), ("box", "vir", "pres", "x", "v", "f"), ("x", "v")),
    (("box", "x", "f"), ("box", "x"), ("box", "x", "f"), ("box", "x")),
    (("box", "x"), ("box", "x"), ("box", "x"), ("box", "x", "v", "f")),
]


def nonuniform_plans(quick, sched=False):
    """(endian, double, atoms, frames, per-frame block sets) of the TRR files whose frames have
    different data sizes."""
    out = []
    n = 0
    for nf in (2, 3, 4):
        pats = [p for p in layer_patterns(nf) if len(set(p)) > 1]
        for pi, pat in enumerate(pats):
            if quick and nf == 4 and pi % 3 != (1 if sched else 0):
                continue
            bl = tuple(LAYERS[x] for x in pat)
            for db in (False, True):
                if quick and sched and db != bool(n % 2):
                    continue            # interleavings, quick tier: the precision alternates with the pattern
                ens = ("<>"[(n // 2 + db) % 2],) if (quick or sched) else ("<", ">")
                for en in ens:
                    # x block of 600 / 360 / 240 bytes for 2 / 3 / 4 frames
                    na = {2: 50, 3: 30, 4: 20}[nf] // (2 if db else 1)
                    out.append((en, db, na, nf, bl))
            n += 1
    for si, bl in enumerate(SPECIAL_LAYOUTS):
        for db in (False, True):
            out.append(("<>"[(si + db) % 2], db, 24 if db else 48, len(bl), bl))
    return out


def layout_marks(frames, head, width, mids=True):
    total = frames[-1]["end"]
    P = {0, total}
    dss = sorted({fr["ds"] for fr in frames})
    marks = [head]
    for fr in frames:
        start = fr["end"] - fr["ds"] - fr["hs"]
        d0 = start + fr["hs"]
        marks += [d0, fr["end"]]
        if mids:
            P.add(start + fr["hs"] // 2)
        off = d0
        for k in TRR_KEYS:
            if fr["sizes"][k]:
                if mids:
                    P.add(off + fr["sizes"][k] // 2)
                off += fr["sizes"][k]
                marks.append(off)
        marks += [d0 + d for d in dss]      # the guard `size >= bytes_read + data_size` with another frame's size
    for t in marks:
        for dlt in range(-width, width + 1):
            if 0 <= t + dlt <= total:
                P.add(t + dlt)
    return sorted(P)


def run_trr(ctx, runner, G, path, rng, tier, stats):
    head = int(G.TRR_HEAD_SIZE)
    quick = tier == "quick"
    # the constants the instantiated theorem was proved for are the ones the running code uses
    try:
        import re
        gen = open(os.path.join(common.COQ, "gen", "ParamsC13.v")).read()
        par = {k: int(v) for k, v in re.findall(r"Definition (\w+) : Z := (-?\d+)\.", gen)}
    except OSError:
        par = {}
    hs_single = gen_trr(rng, "<", False, 1, 1, ("x",))[1][0]["hs"]
    hs_double = gen_trr(rng, "<", True, 1, 1, ("x",))[1][0]["hs"]
    want = {"trr_head_size": head, "trr_header_bytes_single": hs_single, "trr_header_bytes_double": hs_double}
    if par != want:
        ctx.violation(f"coq/gen/ParamsC13.v {par} does not match the running gromacs.py / the TRR files of the harness {want}",
                      {"obligation": "C13_trr_gromacs_constants is about the constants in use"}, False)
    files = []
    combos = [("<", False), (">", False), ("<", True), (">", True)]
    block_sets = [("box", "x", "v"), ("x",), ("box",), ("box", "vir", "pres", "x", "v", "f"), ("x", "v"), ("v",), ("box", "f"), ("vir", "x")]
    plans = []
    # (natoms, nfr) grid: small files (< TRR_HEAD_SIZE, only the finish path) and large ones
    grid = [(1, 1), (1, 3), (3, 2), (12, 1), (12, 2), (12, 4), (5, 12), (2, 4)] if quick else \
        [(a, n) for a in (1, 2, 3, 5, 8, 12) for n in (1, 2, 3, 4)] + [(5, 12), (1, 12), (12, 8)]
    for gi, (na, nf) in enumerate(grid):
        for ci, (en, db) in enumerate(combos):
            if quick and (gi + ci) % 2:
                continue
            plans.append((en, db, na, nf, block_sets[(gi * 3 + ci) % len(block_sets)], "every"))
    # frames of DIFFERENT data sizes (velocities / forces written with some of the frames only:
    # nstvout, nstfout != nstxout): every pattern of positions only / + velocities / + forces over
    # 2, 3 and 4 frames (quick: every third 4-frame pattern), in both precisions, byte order
    # alternating (thorough: all four combinations); the atom count makes the first frame(s) reach
    # TRR_HEAD_SIZE so that the later, different frames are read while the file still grows
    for en, db, na, nf, bl in nonuniform_plans(quick):
        plans.append((en, db, na, nf, bl, "marks"))
    reqs, metas = [], []
    n_or_fail = 0
    max_every = 2600 if quick else 6000
    for (en, db, na, nf, bl, cutmode) in plans:
        data, frames = gen_trr(rng, en, db, na, nf, bl)
        total = len(data)
        desc = {"endian": en, "double": db, "natoms": na, "frames": nf, "blocks": [list(b) for b in bl] if per_frame(bl) else list(bl),
                "bytes": total, "frame_data_bytes": [fr["ds"] for fr in frames]}
        ctx.dist(f"trr:{'double' if db else 'single'}:{'big' if en == '>' else 'little'}-endian")
        ctx.dist("trr:frame data sizes " + ("differ" if len({fr["ds"] for fr in frames}) > 1 else "uniform"))
        # raw functions on every truncation of the first frame: exact header/data or an exception, never a torn value
        f0 = frames[0]
        raw_cuts = range(0, f0["end"] + 1) if cutmode == "every" else \
            sorted({m for m in layout_marks(frames, head, 2) if m <= f0["end"]} | set(range(0, f0["end"] + 1, 7)))
        for c in raw_cuts:
            bio = io.BytesIO(data[:c])
            verdict = None
            try:
                h, n = G.read_trr_header(bio)
                ok_h = (n == f0["hs"] and h["natoms"] == na and h["step"] == f0["step"] and h["time"] == f0["time"]
                        and h["lambda"] == f0["lambda"] and h["endian"] == en and h["double"] == db
                        and all(h[k + "_size"] == f0["sizes"][k] for k in TRR_KEYS))
                if c < f0["hs"] or not ok_h:
                    verdict = f"read_trr_header returned a header from {c} bytes (header has {f0['hs']}) or a wrong one"
                else:
                    try:
                        d, n2 = G.get_data(bio, h)
                        if c < f0["end"] or not trr_data_equal(d, f0) or n2 != f0["ds"]:
                            verdict = f"get_data returned data from {c} of {f0['end']} bytes, or wrong values"
                    except (EOFError, struct.error):
                        if c >= f0["end"]:
                            verdict = "get_data raised on a complete frame"
            except (EOFError, struct.error):
                if c >= f0["hs"]:
                    verdict = "read_trr_header raised on a complete header"
            except Exception as ex:  # noqa: BLE001
                verdict = f"unexpected {type(ex).__name__} from the TRR reading functions at cut {c}"
            stats["trr_raw"] += 1
            ctx.count(("trr_raw", en, db, na, nf, bl, c), nontrivial=True)
            if verdict:
                n_or_fail += 1
                if n_or_fail <= MAXV:
                    ctx.violation(f"C13 statement fails on the implementation (TRR functions): {verdict}",
                                  {"kind": "trr_raw", "case": desc, "file_hex": data[:f0['end']].hex(), "cut": c}, True)
        # the driven loop: every cut c (file has c bytes, then is completed), + random multi-step scripts
        if cutmode == "marks":
            # every byte position at which the loop's behaviour can change (+-2): frame starts, header
            # ends, every block boundary, frame ends, the offsets at which a guard using ANOTHER
            # frame's data size would let the read go ahead, TRR_HEAD_SIZE; one position inside every
            # header and block; + seeded random cuts
            marks = layout_marks(frames, head, 2)
            cuts = sorted(set(marks) | set(rng.sample(range(total + 1), min(total + 1, 40 if quick else 150))))
        else:
            marks = None
            cuts = range(total + 1) if total <= max_every else sorted(set(rng.sample(range(total + 1), max_every)) | {0, total})
        scripts = [(c, total) if c < total else (total,) for c in cuts]
        nrand = 40 if quick else 200
        for _ in range(nrand):
            k = rng.randrange(2, 9)
            scripts.append(tuple(sorted((rng.choice(marks) if marks and rng.random() < 0.7 else rng.randrange(0, total + 1))
                                        for _ in range(k)) + [total]))
        # frame-boundary +-1 scripts
        for fr in frames:
            for dlt in (-1, 0, 1):
                for base in (fr["end"], fr["end"] - fr["ds"]):
                    c = base + dlt
                    if 0 <= c <= total:
                        scripts.append((c, min(total, max(c, head + dlt)), total))
        for sc in scripts:
            yielded, exn, log = drive_trr(G, path, data, list(sc))
            stats["trr_runs"] += 1
            ctx.count(("trr", en, db, na, nf, bl, sc), nontrivial=True)
            bad = None
            if exn:
                bad = f"get_gromacs_frames raised {exn}"
            elif log["bad_reads"]:
                p, n, g, dsk = log["bad_reads"][0]
                bad = f"a read of {n} bytes at offset {p} was issued with {dsk} bytes on disk (got {g})"
            elif len(yielded) != len(frames):
                bad = f"{len(yielded)} frames handed out, {len(frames)} were written"
            else:
                for i, (d, fr) in enumerate(zip(yielded, frames)):
                    if not trr_data_equal(d, fr):
                        bad = f"frame {i} differs from the written values"
                        break
            if bad:
                n_or_fail += 1
                if n_or_fail <= MAXV:
                    ctx.violation(f"C13 statement fails on the implementation (GROMACS TRR loop): {bad}",
                                  {"kind": "trr", "case": desc, "file_hex": data.hex(), "script_sizes": list(sc),
                                   "events": log["events"][:60], "getsize_observations": log["sizes"][:60]}, True)
            k = log.get("finish_at_ev", len(log["events"]))
            impl_line = (f"{log.get('br_at_finish', '?')} {log.get('hs_at_finish', '?')} N 0|"
                         f"{','.join(log['events'][:k]) or '-'}|{log['final_tell']}|{','.join(log['events'][k:]) or '-'}")
            reqs.append(trr_script_request(head, frames, log, total))
            metas.append((impl_line, desc, sc, exn))
    outs = runner.run(reqs)
    n_dis = 0
    for req, mo, (io_, desc, sc, exn) in zip(reqs, outs, metas):
        stats["trr_compared"] += 1
        if mo != io_:
            n_dis += 1
            if n_dis <= MAXV:
                ctx.violation(
                    "correspondence model/implementation broken for the GROMACS TRR loop; "
                    + ("the property oracle found a failing input, see the other replay" if n_or_fail else
                       "the property oracle found no failing input"),
                    {"correspondence": "c13 runner (trr_run/trr_finish) vs GromacsRunner.get_gromacs_frames", "case": desc,
                     "script_sizes": list(sc), "request": req[:400], "impl": io_[:600], "model": mo[:600], "exception": exn}, False)
    stats["disagreements"] += n_dis
    stats["oracle_failures"] += n_or_fail
    if reqs:
        ctx.sample({"trr_request": reqs[len(reqs) // 2][:200], "model": outs[len(reqs) // 2][:300], "impl": metas[len(reqs) // 2][0][:300]})
    return head


# --------------------------------------------------------------------------- TRR: writer against every observation

class ReaderHangs(BaseException):
    """The loop keeps sleeping although GROMACS has ended."""


class SchedWorld:
    """The writer, seen from the reader.  `answers[k]` bytes are on disk at the k-th observation
    (check_poll or getsize) made while GROMACS is running; from observation number len(answers) on
    GROMACS has ended with return code 0 and `fin` bytes are on disk."""

    def __init__(self, data, answers, fin):
        self.data, self.answers, self.fin = data, answers, fin
        self.cur = 0
        self.obs = 0
        self.ended = False
        self.kinds = []
        self.sizes = []          # values returned by getsize
        self.events = []
        self.bad_reads = []
        self.pos_ok = 0          # file offset after the last block that was read successfully
        self.sleeps_after_end = 0
        self.frontier = None     # (kind, state key) at the first observation after the scripted ones
        self.key_fn = None

    def observe(self, kind):
        i = self.obs
        if i < len(self.answers):
            self.cur = self.answers[i]
        else:
            if i == len(self.answers) and self.key_fn is not None:
                self.frontier = (kind, self.key_fn())
            self.cur = self.fin
            self.ended = True
        self.obs += 1
        self.kinds.append(kind)


class GrowFile:
    """The open TRR file: only the first world.cur bytes exist (append-only writer)."""

    def __init__(self, world):
        self.w = world
        self.pos = 0
        self.closed = False

    def read(self, n=-1):
        w = self.w
        end = w.cur if n is None or n < 0 else min(self.pos + n, w.cur)
        b = w.data[self.pos:end] if end > self.pos else b""
        if n is None or n < 0 or len(b) != n:
            w.bad_reads.append((self.pos, n, len(b), w.cur))
        self.pos += len(b)
        return b

    def tell(self):
        return self.pos

    def seek(self, off, whence=0):
        self.pos = off if whence == 0 else (self.pos + off if whence == 1 else self.w.cur + off)
        return self.pos

    def fileno(self):
        raise OSError("scripted file: no descriptor")

    def close(self):
        self.closed = True


class SchedProc:
    """Stands for the subprocess.Popen object: poll() is an observation of the writer."""
    stdin = stdout = stderr = None
    pid = -1

    def __init__(self, world):
        self.w = world
        self.returncode = None

    def poll(self):
        self.w.observe("p")
        if self.w.ended:
            self.returncode = 0
        return self.returncode

    def wait(self, timeout=None):
        return 0


def canon_val(v):
    if v is None or isinstance(v, (bool, int, float, str, bytes)):
        return v
    if isinstance(v, np.ndarray):
        return ("nd", v.shape, v.dtype.str, v.tobytes())
    if isinstance(v, dict):
        return tuple(sorted((str(k), canon_val(x)) for k, x in v.items()))
    if isinstance(v, (list, tuple)):
        return tuple(canon_val(x) for x in v)
    return ("obj", type(v).__name__)


class SchedHarness:
    """Runs the REAL GromacsRunner.get_gromacs_frames against a SchedWorld: gromacs.os.path.getsize,
    the process object's poll(), gromacs.sleep (a no-op: no clock, no thread) and the file object are
    scripted; read_trr_header / get_data / read_remaining_trr are the real ones (wrapped to log)."""

    def __init__(self, G):
        self.G = G
        self.world = None
        self.code = G.GromacsRunner.get_gromacs_frames.__code__
        harness = self
        real_os = G.os

        class _Path:
            def __getattr__(s, n):
                return getattr(real_os.path, n)

            def getsize(s, p):
                w = harness.world
                w.observe("s")
                w.sizes.append(w.cur)
                return w.cur

        class _Os:
            path = _Path()

            def __getattr__(s, n):
                return getattr(real_os, n)

        self.saved = (G.sleep, G.os, G.read_trr_header, G.get_data)
        real_header, real_data = G.read_trr_header, G.get_data

        def rec_header(fh):
            w = harness.world
            at = fh.tell()
            h, n = real_header(fh)
            w.events.append(f"H:{at}:{n}:{w.sizes[-1] if w.sizes else '?'}")
            w.pos_ok = at + n
            return h, n

        def rec_data(fh, header):
            w = harness.world
            at = fh.tell()
            d, n = real_data(fh, header)
            got = fh.tell() - at
            w.events.append(f"D:{at}:{n}:{w.sizes[-1] if w.sizes else '?'}" + ("" if got == n else f"!consumed{got}"))
            w.pos_ok = at + got
            return d, n

        def fake_sleep(_t):
            w = harness.world
            if w.ended:
                w.sleeps_after_end += 1
                if w.sleeps_after_end > 40:
                    raise ReaderHangs()

        G.sleep, G.os, G.read_trr_header, G.get_data = fake_sleep, _Os(), rec_header, rec_data

    def restore(self):
        G = self.G
        G.sleep, G.os, G.read_trr_header, G.get_data = self.saved

    def state_key(self, runner):
        """Everything the future of the loop depends on: the line it is at, all its local variables,
        the runner's attributes and the file offset (the caller adds the bytes on disk)."""
        f = sys._getframe()
        while f is not None and f.f_code is not self.code:
            f = f.f_back
        if f is None:
            return ("outside get_gromacs_frames",)
        loc = tuple(sorted((k, canon_val(v)) for k, v in f.f_locals.items() if k != "self"))
        return (f.f_lineno, loc, runner.bytes_read, runner.header_size, runner.data_size, runner.stop_read,
                runner.fileh.tell())

    def run(self, data, answers, fin, want_key=False):
        G = self.G
        w = SchedWorld(data, answers, fin)
        self.world = w
        runner = G.GromacsRunner([], "/nonexistent/traj.trr", "/nonexistent/ener.edr", "/nonexistent")
        runner.running = SchedProc(w)
        runner.fileh = GrowFile(w)
        runner.ino = -1
        runner.bytes_read = 0
        runner.stop_read = False
        if want_key:
            w.key_fn = lambda: self.state_key(runner)
        yielded = []
        exn = None
        try:
            for d in runner.get_gromacs_frames():
                w.events.append(f"Y:{len(yielded)}")
                yielded.append(d)
        except ReaderHangs:
            exn = "the loop keeps waiting (40 sleeps) although GROMACS has ended"
        except Exception as ex:  # noqa: BLE001
            exn = type(ex).__name__ + ": " + str(ex)[:80]
        finally:
            runner.running = None   # nothing to stop in __del__
            runner.stop_read = True
        return yielded, exn, w


def sched_positions(frames, head, width):
    """Byte counts the writer can have reached at an observation: 0, every header end and frame end
    (the thresholds the loop compares with) -width..+width, TRR_HEAD_SIZE likewise, and one position
    inside every header and inside every data block (header complete / data incomplete)."""
    total = frames[-1]["end"]
    P = {0, total}
    marks = [head]
    for fr in frames:
        start = fr["end"] - fr["ds"] - fr["hs"]
        marks += [start + fr["hs"], fr["end"]]
        P.add(start + fr["hs"] // 2)
        if fr["ds"] > 1:
            P.add(fr["end"] - fr["ds"] // 2)
    for t in marks:
        for dlt in range(-width, width + 1):
            if 0 <= t + dlt <= total:
                P.add(t + dlt)
    return sorted(P)


def sched_positions_nonuniform(frames, head, quick):
    """Positions for files whose frames differ in size: for every threshold t the loop compares the
    size with (TRR_HEAD_SIZE, every header end, every frame end) and every offset t at which a guard
    using ANOTHER frame's data size would fire: t-1 and t (thorough: t+1 too); every block boundary
    inside a data block (a read ending there gets 0 bytes for the next block, one byte earlier a
    short block); the middle of every header and data block."""
    total = frames[-1]["end"]
    P = {0, total}
    dss = sorted({fr["ds"] for fr in frames})
    thr = [head]
    for fr in frames:
        start = fr["end"] - fr["ds"] - fr["hs"]
        d0 = start + fr["hs"]
        thr += [d0, fr["end"]] + [d0 + d for d in dss]
        P.add(start + fr["hs"] // 2)
        if fr["ds"] > 1:
            P.add(fr["end"] - fr["ds"] // 2)
        off = d0
        for k in TRR_KEYS:
            off += fr["sizes"][k]
            if fr["sizes"][k] and off < fr["end"]:
                P.add(off)
    for t in thr:
        for dlt in ((-1, 0) if quick else (-1, 0, 1)):
            if 0 <= t + dlt <= total:
                P.add(t + dlt)
    return sorted(P)


def sched_oracle(yielded, exn, w, frames, fin):
    """The literal statement on one finished run: None or what is wrong."""
    exp = [fr for fr in frames if fr["end"] <= fin]
    if exn:
        return f"get_gromacs_frames raised / did not return: {exn}"
    if w.bad_reads:
        p, n, g, dsk = w.bad_reads[0]
        return f"a read of {n} bytes at offset {p} was issued with {dsk} bytes on disk (got {g})"
    if len(yielded) != len(exp):
        return (f"{len(yielded)} frame(s) handed out, {len(exp)} are completely on disk "
                f"({fin} bytes written when GROMACS exited with code 0) — "
                + ("complete frames are never returned" if len(yielded) < len(exp) else "a frame that is not completely on disk was returned"))
    for i, (d, fr) in enumerate(zip(yielded, exp)):
        if not trr_data_equal(d, fr):
            return f"frame {i} differs from the written values"
    return None


# program points of the model -> kind of observation
PC_KIND = {"P": "p", "G": "p", "h": "s", "d": "s", "g": "s", "f": "s", "r": "s"}


def explore_schedules(H, data, frames, P):
    """Exhaustive exploration of the writer/reader interleavings over the position set P.

    A node is a list of answers given while GROMACS runs (one per observation: the bytes on disk;
    a check_poll observation only sees 'still running').  Its successors: the next observation is
    answered with any position >= the current one (getsize), or 'still running' (poll).  At every
    node GROMACS may instead have ended, with any final size >= the current one: a leaf, i.e. one
    complete run of the real generator.  Two nodes in which the loop is at the same line with the
    same local variables, attributes and file offset, and the same bytes on disk, have the same
    future: the second one is not expanded (this also closes the waiting cycles)."""
    seen = set()
    queue = collections.deque([()])     # breadth first: every state is reached by a shortest schedule
    leaves, early = [], []
    while queue:
        prefix = queue.popleft()
        cur = prefix[-1] if prefix else 0
        fins = [p for p in P if p >= cur]
        first = H.run(data, list(prefix), fins[-1], want_key=True)
        if first[2].frontier is None:
            early.append((prefix,) + first)
            continue
        kind, key = first[2].frontier
        if (key, cur) in seen:
            continue
        seen.add((key, cur))
        for fin in fins:
            y, exn, w = first if fin == fins[-1] else H.run(data, list(prefix), fin)
            leaves.append((prefix, fin, y, exn, w))
        if kind == "p":
            queue.append(prefix + (cur,))
        else:
            for s_ in fins:
                queue.append(prefix + (s_,))
    return leaves, early, len(seen)


def run_trr_sched(ctx, runner, G, rng, tier, stats):
    head = int(G.TRR_HEAD_SIZE)
    quick = tier == "quick"
    # (atoms, blocks): frame sizes below / around / above TRR_HEAD_SIZE, in both precisions
    shapes = [(1, ("x",)), (3, ("box", "x")), (12, ("box", "x", "v")), (24, ("x", "v")), (40, ("box", "x", "v")),
              (73, ("x",)), (76, ("x",)), (8, ("box", "vir", "pres", "x", "v", "f"))]
    if not quick:
        shapes += [(2, ("v",)), (5, ("box", "f")), (17, ("x", "v", "f")), (36, ("x",)), (60, ("box", "x")), (90, ("x", "v"))]
    plans = []
    for si, (na, bl) in enumerate(shapes):
        for nf in (2, 3, 4):
            for db in (False, True):
                en = "<>"[(si + nf + db) % 2]
                plans.append((en, db, na, nf, bl))
    n_uniform = len(plans)
    # frames of different data sizes: every pattern of positions only / + velocities / + forces
    # over 2, 3 and 4 frames (see nonuniform_plans); the positions additionally contain every block
    # boundary and the offsets at which a guard using another frame's data size would fire
    plans += nonuniform_plans(quick, sched=True)
    H = SchedHarness(G)
    reqs, metas = [], []
    n_or_fail = n_early = 0
    try:
        for (en, db, na, nf, bl) in plans:
            data, frames = gen_trr(rng, en, db, na, nf, bl)
            total = len(data)
            width = (2 if nf == 2 else 1) if quick else (3 if nf == 2 else 2)
            if per_frame(bl):
                P = sched_positions_nonuniform(frames, head, quick)
            else:
                P = sched_positions(frames, head, width)
            desc = {"endian": en, "double": db, "natoms": na, "frames": nf,
                    "blocks": [list(b) for b in bl] if per_frame(bl) else list(bl), "bytes": total,
                    "frame_bytes": frames[0]["end"], "header_bytes": frames[0]["hs"], "positions": len(P),
                    "frame_data_bytes": [fr["ds"] for fr in frames]}
            ctx.dist("trr_sched:frame data sizes " + ("differ" if len({fr["ds"] for fr in frames}) > 1 else "uniform"))
            leaves, early, nstates = explore_schedules(H, data, frames, P)
            stats["sched_states"] += nstates
            ctx.dist(f"trr_sched:{'double' if db else 'single'}:{nf} frames", len(leaves))
            ctx.dist("trr_sched:frame " + ("< " if frames[0]["end"] < head else ">= ") + "TRR_HEAD_SIZE", len(leaves))
            lay = ",".join(f"{fr['hs']}:{fr['ds']}" for fr in frames)
            bounds = {0} | {fr["end"] for fr in frames}
            for (prefix, y, exn, w) in early:
                n_early += 1
                if n_early <= MAXV:
                    ctx.violation(
                        "C13 statement fails on the implementation (GROMACS TRR loop): get_gromacs_frames "
                        + (f"raised {exn}" if exn else "returned") + " while GROMACS is still running and writing "
                        f"({len(y)} frame(s) handed out, {nf} are being written)",
                        {"kind": "trr_sched", "case": desc, "file_hex": data.hex(), "sizes_while_running": list(prefix),
                         "final_size": total, "observations": "".join(w.kinds), "events": w.events[:60]}, True)
            for (prefix, fin, y, exn, w) in leaves:
                stats["sched_runs"] += 1
                ctx.count(("trr_sched", en, db, na, nf, bl, prefix, fin), nontrivial=True)
                bad = sched_oracle(y, exn, w, frames, fin)
                reqs.append(f"trs 1 {head} {lay} {','.join(map(str, prefix)) or '-'} {fin}")
                metas.append((desc, data, frames, prefix, fin, len(y), exn, "".join(w.kinds), list(w.events), w.pos_ok, bad,
                              fin in bounds))
    finally:
        H.restore()
    outs = runner.run(reqs)
    n_dis = 0
    or_fail, dis = [], []
    for req, mo, (desc, data, frames, prefix, fin, ny, exn, kinds, events, pos_ok, bad, at_boundary) in zip(reqs, outs, metas):
        parts = mo.split("|")
        if mo.startswith("ERR") or len(parts) != 3:
            n_dis += 1
            if n_dis <= MAXV:
                ctx.violation(f"model runner failed on a TRR schedule: {mo[:200]}", {"request": req[:300], "case": desc}, False)
            continue
        pcs, fin_state, mev = parts
        if "G:" in mev:
            # GROMACS ended with code 0 INSIDE a frame and read_remaining_trr is reached: outside the
            # property (the output is never completed); the real function raises struct.error there
            stats["sched_outside"] += 1
            if at_boundary:
                n_dis += 1
                ctx.violation("the TRR model reads a partial frame although the final size is a frame boundary",
                              {"request": req[:300], "model": mo[:400], "case": desc}, False)
            continue
        stats["sched_compared"] += 1
        payload = {"kind": "trr_sched", "case": desc, "file_hex": data.hex(), "sizes_while_running": list(prefix),
                   "final_size": fin, "frames_completely_on_disk": sum(1 for fr in frames if fr["end"] <= fin),
                   "frames_handed_out": ny, "exception": exn,
                   "observations": kinds + "   (p = check_poll, s = getsize; the first " + str(len(prefix))
                                   + " see GROMACS running, the others see it ended with code 0)",
                   "events": events[:60], "model": mo[:600]}
        if bad:
            or_fail.append((bad, payload))
        m_kinds = "".join(PC_KIND.get(c, "") for c in pcs)
        fpc, fbr = fin_state.split(" ")[0], fin_state.split(" ")[1]
        impl_line = f"{kinds}|. {pos_ok}|{','.join(events) or '-'}"
        model_line = f"{m_kinds}|{fpc} {fbr}|{mev}"
        if impl_line != model_line or exn:
            dis.append((bool(bad), dict(payload, correspondence="c13 runner (trr_sched) vs GromacsRunner.get_gromacs_frames",
                                        request=req[:400], impl=impl_line[:600], model_canon=model_line[:600])))
    n_or_fail = len(or_fail)
    # the shortest failing schedules first
    or_fail.sort(key=lambda t: (len(t[1]["sizes_while_running"]), t[1]["case"]["bytes"]))
    for bad, payload in or_fail[:MAXV]:
        ctx.violation(f"C13 statement fails on the implementation (GROMACS TRR loop, writer/reader interleaving): {bad}", payload, True)
    n_dis += len(dis)
    dis.sort(key=lambda t: (not t[0], len(t[1]["sizes_while_running"])))
    for _hasbad, payload in dis[:MAXV]:
        ctx.violation(
            "correspondence model/implementation broken for the GROMACS TRR loop (observation-level model trr_step) on "
            f"{len(dis)} schedule(s); " + (f"the property oracle found {n_or_fail + n_early} failing schedule(s), see the other replays"
                                           if n_or_fail + n_early else "the property oracle found no failing input"),
            payload, False)
    stats["disagreements"] += n_dis
    stats["oracle_failures"] += n_or_fail + n_early
    if reqs:
        i = len(reqs) * 2 // 3
        ctx.sample({"trr_schedule_request": reqs[i][:200], "model": outs[i][:300], "impl_observations": metas[i][7], "impl_events": metas[i][8][:12]})
    return n_uniform


# --------------------------------------------------------------------------- the check

def malformed_files(rng):
    """Inputs outside the theorems' hypotheses (correspondence of the error branches only)."""
    out = []

    def add(kind, N, text, desc):
        data = text.encode()
        out.append((kind, {"data": data, "truth": [], "N": N, "desc": desc, "seqs": every_cut_seqs(len(data))}))
    add("xyz", 1, "1\nc\nH 1 2 abc\n1\nc\nH 1 2 3\n", "xyz non-numeric coordinate")
    add("xyz", 1, "1\nc\nH 1 2 3 4\n", "xyz five tokens on an atom line")
    add("xyz", 1, "x\nc\nH 1 2 3\n", "xyz non-integer atom count")
    add("xyz", 2, "2\nc\nH 1 2 3\n", "xyz fewer atom lines than announced")
    add("xyz", 0, "0\nc\n0\nc\n", "xyz zero atoms")
    add("xyz", 1, "\n1\nc\nH 1 2 3\n", "xyz blank first line")
    add("xyz", 1, "   \n1\nc\nH 1 2 3\n", "xyz first line of blanks")
    add("xyz", 1, "-2\nc\nH 1 2 3\n", "xyz atom count -2 (block size 0)")
    add("xyz", 1, "-1\nc\nH 1 2 3\n", "xyz atom count -1")
    hdr = "ITEM: TIMESTEP\n0\nITEM: NUMBER OF ATOMS\n{n}\nITEM: BOX BOUNDS pp pp pp\n0 1\n0 1\n0 1\nITEM: ATOMS id type x y z vx vy vz id\n"
    add("lmp", 1, hdr.format(n=1) + "2 1 1 2 3 4 5 6 2\n", "lammps atom id above N")
    add("lmp", 2, hdr.format(n=2) + "0 1 1 2 3 4 5 6 0\n1 1 6 5 4 3 2 1 1\n", "lammps atom id 0 (wraps to the last row)")
    add("lmp", 2, hdr.format(n=2) + "-2 1 1 2 3 4 5 6 -2\n1 1 6 5 4 3 2 1 1\n", "lammps atom id -2")
    add("lmp", 1, hdr.format(n=1) + "1 1 1 2 zz 4 5 6 1\n", "lammps non-numeric coordinate")
    add("lmp", 1, hdr.format(n="x") + "1 1 1 2 3 4 5 6 1\n", "lammps non-integer atom count")
    add("lmp", 1, hdr.format(n=-1) + "1 1 1 2 3 4 5 6 1\n", "lammps negative atom count")
    add("lmp", 1, hdr.format(n=1).replace("0 1\n0 1\n0 1\n", "0 1\n0 1 2 3\n0 1\n") + "1 1 1 2 3 4 5 6 1\n", "lammps four-column box line")
    add("lmp", 1, hdr.format(n=1).replace("0 1\n0 1\n0 1\n", "0 1\n0 q\n0 1\n") + "1 1 1 2 3 4 5 6 1\n", "lammps non-numeric box value")
    add("lmp", 1, hdr.format(n=1) + "1 1 1 2 3 4 5 6 7\n", "lammps first and last id differ")
    add("lmp", 1, hdr.format(n=1) + "1 1 1 2 3 4 5 1\n", "lammps eight tokens on an atom line")
    add("lmp", 1, hdr.format(n=1) + "1 1 1 2 3 4 5 6 7 1\n", "lammps ten tokens on an atom line")
    add("lmp", 1, "\n" + hdr.format(n=1) + "1 1 1 2 3 4 5 6 1\n", "lammps leading lone newline")
    add("lmp", 1, hdr.format(n=1) + "1 1 1 2 3 4 5 6 1\n\n" + hdr.format(n=1) + "1 1 1 2 3 4 5 6 1\n", "lammps blank line between frames")
    add("lmp", 2, hdr.format(n=2) + "1 1 1 2 3 4 5 6 1\n1 1 6 5 4 3 2 1 1\n", "lammps duplicate id (one row never written)")
    return out


def scratch():
    """Scratch directory, on tmpfs when there is one (the file is rewritten for every poll)."""
    import tempfile
    shm = "/dev/shm"
    if os.path.isdir(shm) and os.access(shm, os.W_OK):
        try:
            return tempfile.mkdtemp(prefix="infv_c13_", dir=shm)
        except OSError:
            pass
    return common.scratch_dir("infv_c13_")


def run(ctx):
    common.proof_stage(ctx, "C13", ["extract/c13.vo"])
    runner = common.runner_stage(ctx, "c13")
    if runner is None:
        return
    import infretis.classes.engines.engineparts as P
    import infretis.classes.engines.gromacs as G

    rng = ctx.rng
    quick = ctx.tier == "quick"
    tmp = scratch()
    path = os.path.join(tmp, "traj.dat")
    stats = {k: 0 for k in ("polls", "files", "in_domain_files", "generator_outside_domain", "compared", "disagreements",
                            "oracle_failures", "trr_raw", "trr_runs", "trr_compared",
                            "sched_runs", "sched_compared", "sched_outside", "sched_states")}
    try:
        # ---- a missing file is "nothing on disk yet"
        for kind, fn in (("xyz", P.xyz_reader), ("lmp", P.lammpstrj_reader)):
            rd = P.ReadAndProcessOnTheFly(os.path.join(tmp, "not_there"), fn)
            try:
                r = rd.read_and_process_content()
                if r != [] or rd.current_position != 0:
                    ctx.violation(f"C13: {kind} reader on a file that does not exist yet returned {r!r}", {"kind": kind, "case": "missing file"}, True)
            except Exception as ex:  # noqa: BLE001
                ctx.violation(f"C13: {kind} reader raised {type(ex).__name__} on a file that does not exist yet", {"kind": kind, "case": "missing file"}, True)
            ctx.count(("missing", kind), nontrivial=False)

        variants = 1 if quick else 6
        nrand = 8 if quick else 40

        # ---- xyz: every (atoms 1..12, frames 1..4), every byte cut (+ second poll on the whole file)
        xyz_files = []
        vi = 0
        for N in range(1, 13):
            for nfr in range(1, 5):
                for _v in range(variants):
                    cs, ms, ns, sp = vi % XYZ_COUNT, (vi // 2) % XYZ_COMMENT, vi % NSTYLES, SEPS[(vi // 3) % len(SEPS)]
                    vi += 1
                    data, truth = gen_xyz(rng, N, nfr, cs, ms, ns, sp)
                    L = len(data)
                    seqs = every_cut_seqs(L) + random_seqs(rng, L, nrand)
                    xyz_files.append({"data": data, "truth": truth, "N": N, "seqs": seqs,
                                      "desc": {"atoms": N, "frames": nfr, "count_style": cs, "comment_style": ms, "number_style": ns, "sep": sp}})
                    ctx.dist(f"xyz:atoms={N}")
                    ctx.dist(f"xyz:number_style={ns}")
        run_text_family(ctx, runner, P, "xyz", "every byte cut + whole file, random poll sequences", xyz_files, path, True, stats)

        # ---- lammps: same grid, ids in random order, 2-/3-/mixed-column box lines
        lmp_files = []
        vi = 0
        for N in range(1, 13):
            for nfr in range(1, 5):
                for _v in range(variants):
                    ns, sp, bc, cs = (vi + 1) % NSTYLES, SEPS[(vi // 2) % 2], (2, 3, 0)[vi % 3], vi % 3
                    perm = "id" if vi % 5 == 0 else None
                    vi += 1
                    data, truth = gen_lmp(rng, N, nfr, perm, ns, sp, bc, cs)
                    L = len(data)
                    seqs = every_cut_seqs(L) + random_seqs(rng, L, nrand)
                    lmp_files.append({"data": data, "truth": truth, "N": N, "seqs": seqs,
                                      "desc": {"atoms": N, "frames": nfr, "box_cols": bc or "mixed", "number_style": ns, "sep": sp,
                                               "ids": "sorted" if perm else "shuffled", "count_style": cs}})
                    ctx.dist(f"lammps:atoms={N}")
                    ctx.dist(f"lammps:box_cols={bc or 'mixed'}")
        run_text_family(ctx, runner, P, "lmp", "every byte cut + whole file, random poll sequences", lmp_files, path, True, stats)

        # ---- lammps: every id permutation of up to 4 (5) atoms, two frames with the same order
        perm_files = []
        for N in range(1, 5 if quick else 6):
            for perm in itertools.permutations(range(1, N + 1)):
                data, truth = gen_lmp(rng, N, 2, perm, 0, " ", 2)
                perm_files.append({"data": data, "truth": truth, "N": N, "seqs": every_cut_seqs(len(data)),
                                   "desc": {"atoms": N, "frames": 2, "ids": list(perm)}})
                ctx.dist("lammps:all-permutations")
        run_text_family(ctx, runner, P, "lmp", "all id permutations, every byte cut + whole file", perm_files, path, True, stats)

        # ---- all pairs of cuts (then the whole file) on the smallest files
        pair_files = []
        for kind, N, nfr in (("xyz", 1, 2), ("xyz", 2, 1), ("lmp", 1, 1)) + ((("lmp", 2, 2), ("xyz", 3, 2)) if not quick else ()):
            if kind == "xyz":
                data, truth = gen_xyz(rng, N, nfr, 1, 0, 1, " ")
            else:
                data, truth = gen_lmp(rng, N, nfr, None, 0, " ", 3)
            L = len(data)
            seqs = [(a, b, L) for a in range(L + 1) for b in range(a, L + 1)]
            pair_files.append((kind, {"data": data, "truth": truth, "N": N, "seqs": seqs, "desc": {"atoms": N, "frames": nfr, "pairs": len(seqs)}}))
            ctx.dist(f"{kind}:all-pairs-of-cuts", len(seqs))
        for kind in ("xyz", "lmp"):
            fs = [f for k, f in pair_files if k == kind]
            if fs:
                run_text_family(ctx, runner, P, kind, "all pairs of cuts then the whole file", fs, path, True, stats)

        # ---- inputs outside the hypotheses: only the tie (error branches of the model)
        mal = malformed_files(rng)
        for kind in ("xyz", "lmp"):
            fs = [f for k, f in mal if k == kind]
            run_text_family(ctx, runner, P, kind, "malformed files (outside the theorems' hypotheses; correspondence only)", fs, path, False, stats)
            ctx.dist(f"{kind}:malformed", len(fs))

        # ---- GROMACS TRR
        head = run_trr(ctx, runner, G, path, rng, ctx.tier, stats)
        n_sched_files = run_trr_sched(ctx, runner, G, rng, ctx.tier, stats)
    finally:
        common.rmtree(tmp)

    if xyz_files:
        F = xyz_files[0]
        ctx.sample({"xyz_file": F["data"].decode(), "frame_end_offsets": [e for e, _ in F["truth"]], "first_sequences": [list(s) for s in F["seqs"][:3]]})
        F = lmp_files[0]
        ctx.sample({"lammps_file": F["data"].decode(), "frame_end_offsets": [e for e, _ in F["truth"]]})
    if stats["generator_outside_domain"]:
        ctx.violation(f"{stats['generator_outside_domain']} generated well-formed files are rejected by the proved-sound well-formedness checker (generator or model drifted)",
                      {"obligation": "generated cases lie inside the theorems' domain"}, False)
    ctx.cov["rule"] = (
        "text readers: for atoms 1..12 x frames 1..4 (x %d format variants: 4 count-line styles, 4 comment styles, 7 number styles, 4 separators; LAMMPS: shuffled/sorted ids, 2-/3-/mixed-column box lines) "
        "EVERY byte cut c of the file, as a two-poll experiment with one reader object (file = first c bytes, then the whole file), + %d seeded random non-decreasing poll sequences per file; "
        "all id permutations of up to %d LAMMPS atoms (every cut); all pairs of cuts (then the whole file) of the smallest files; %d malformed files (tie only). "
        "TRR: both byte orders x both precisions x atoms/frames grid x 8 block subsets: the raw functions on every truncation of the first frame, the driven loop for every cut (file has c bytes, is then completed) "
        "+ random multi-step growth scripts + frame-boundary/TRR_HEAD_SIZE +-1 scripts. "
        "TRR writer/reader interleavings: %d files (8+ frame shapes with frame size below/around/above TRR_HEAD_SIZE x 2,3,4 frames x both precisions, byte order alternating); positions = 0, every header end, "
        "every frame end and TRR_HEAD_SIZE +-1(+-2 for two frames), the middle of every header and of every data block; EXHAUSTIVE over: the position reached before each getsize/check_poll observation "
        "(non-decreasing), the observation at which GROMACS is first seen ended (code 0; any observation of any program point, in particular between the 'data not ready' getsize and the check_poll that follows), "
        "and the final size (every position: frame boundaries = fewer frames written, inside a header, inside a data block); states with identical (line, locals, attributes, offset, bytes on disk) merged. "
        "Frames of different data sizes: %d byte-cut files and %d interleaving files (every x / x+v / x+v+f pattern over 2-4 frames, see META text). "
        "A case = one poll sequence / one growth script / one schedule (answers while running, final size); distinct by (file parameters, cuts); all are non-trivial (each runs the real reader)."
        % (variants, nrand, 4 if quick else 5, len(mal), n_sched_files, len(nonuniform_plans(quick)), len(nonuniform_plans(quick, sched=True))))
    ctx.cov["correspondence"] = {
        "text_poll_sequences_compared": stats["compared"], "text_polls_run": stats["polls"], "text_files": stats["files"],
        "files_inside_theorem_domain(proved-sound checker)": stats["in_domain_files"],
        "trr_loop_runs_compared": stats["trr_compared"], "trr_raw_truncations": stats["trr_raw"],
        "trr_schedules_run": stats["sched_runs"], "trr_schedules_compared_with_trr_step": stats["sched_compared"],
        "trr_schedules_outside_property(code-0 exit inside a frame reaching read_remaining_trr)": stats["sched_outside"],
        "trr_schedule_states_expanded": stats["sched_states"],
        "disagreements": stats["disagreements"], "oracle_failures": stats["oracle_failures"],
        "compared_fields": "per poll: exception class, current_position, returned frames (float64 bytes); TRR: header/data reads (offset, length, size observed), yields, bytes_read, final file offset; TRR schedules: additionally the sequence of check_poll/getsize calls (program points of trr_step)",
    }
    ctx.cov["trusted_base"] += [
        "extraction: ExtrOcamlBasic only; ocaml/util.ml + ocaml/c13_driver.ml (hex <-> ascii, frame interning)",
        "py/checks/c13.py: generators, ground truth (float() of the written tokens, frame end offsets), canonicalisation",
        "py/params_c13.py: TRR_HEAD_SIZE and TRR header sizes read from gromacs.py's AST",
        "scripted TRR writer: stand-in Popen object, gromacs.sleep / gromacs.os.path.getsize / read_trr_header / get_data wrapped (the real functions run inside the wrappers)",
        "TRR schedules: in-memory append-only file object (read/tell/seek), poll() and getsize() answered from the schedule, sleep a no-op (no clock, no thread: deterministic); state merging keyed on the generator frame's line number and locals read through sys._getframe",
    ]
    ctx.assumptions += [
        "ASCII files without carriage returns; Python text-mode tell() = byte offset",
        "float()/numpy conversion of plain decimal tokens = py_float_ok automaton accepts them; values compared as float64 bit patterns of float(token)",
        "one atom count per file; LAMMPS ids within 1..N (theorem) — other ids are exercised for the tie only",
        f"TRR: one header size per file, not larger than TRR_HEAD_SIZE={head} (data sizes may differ from frame to frame); getsize never exceeds what will eventually be written; inode changes (reopen_file) not exercised",
        "TRR schedules: the loop observes the writer only through check_poll() and os.path.getsize(); the file is append-only; a non-zero return code (check_poll raises, by design) and a code-0 exit inside a frame whose remainder reaches read_remaining_trr are outside the property",
    ]


# --------------------------------------------------------------------------- replay

def replay(doc):
    import json
    import infretis.classes.engines.engineparts as P
    import infretis.classes.engines.gromacs as G
    rp = doc.get("replay", {})
    print(json.dumps({k: v for k, v in doc.items() if k != "replay"}, indent=1))
    kind = rp.get("kind")
    tmp = scratch()
    path = os.path.join(tmp, "traj.dat")
    rc = 0
    try:
        if kind in ("xyz", "lmp") and "cuts" in rp:
            data = bytes.fromhex(rp["file_hex"])
            print("file:\n" + data.decode("ascii", "replace"))
            res = impl_polls(P, kind, data, rp["cuts"], path)
            truth = rp.get("truth")
            prev = 0
            for i, (c, (e, pos, frames)) in enumerate(zip(rp["cuts"], res)):
                got = [show_key(k) for k in frames]
                line = f"poll {i}: {c} bytes on disk -> exception={e} position={pos} frames={got}"
                if truth is not None and truth != []:
                    want = [fr for end, fr in truth if prev < end <= c]
                    ok = (e == "N" and got == want)
                    line += f"   expected {want}   {'ok' if ok else 'FAILS'}"
                    rc |= 0 if ok else 1
                prev = max(prev, c)
                print(line)
            if "model" in rp:
                print("model (stored):", rp["model"])
        elif kind == "trr":
            data = bytes.fromhex(rp["file_hex"])
            yielded, exn, log = drive_trr(G, path, data, rp["script_sizes"])
            print("script sizes:", rp["script_sizes"], "\nexception:", exn, "\nframes handed out:", len(yielded),
                  "\nbad reads:", log["bad_reads"][:5], "\nevents:", log["events"][:40])
            want = rp.get("case", {}).get("frames")
            rc = 1 if (exn or log["bad_reads"] or (want is not None and len(yielded) != want)) else 0
        elif kind == "trr_sched":
            data = bytes.fromhex(rp["file_hex"])
            case = rp.get("case", {})
            H = SchedHarness(G)
            try:
                y, exn, w = H.run(data, list(rp["sizes_while_running"]), rp["final_size"])
            finally:
                H.restore()
            want = rp.get("frames_completely_on_disk")
            print("file:", len(data), "bytes,", case.get("frames"), "frames of", case.get("frame_bytes"), "bytes (header", case.get("header_bytes"), ")")
            print("bytes on disk at the observations made while GROMACS runs:", rp["sizes_while_running"])
            print("then GROMACS has exited with code 0 and", rp["final_size"], "bytes are on disk")
            print("observations (p = check_poll, s = getsize):", "".join(w.kinds))
            print("events:", w.events[:60])
            print("exception:", exn, "\nframes handed out:", len(y), " frames completely on disk:", want, "\nbad reads:", w.bad_reads[:5])
            rc = 1 if (exn or w.bad_reads or (want is not None and len(y) != want)) else 0
            print("FAILS" if rc else "ok")
        elif kind == "trr_raw":
            data = bytes.fromhex(rp["file_hex"])
            c = rp["cut"]
            try:
                h, n = G.read_trr_header(io.BytesIO(data[:c]))
                print(f"read_trr_header on the first {c} bytes returned {n} bytes header {h}")
            except Exception as ex:  # noqa: BLE001
                print(f"read_trr_header on the first {c} bytes raised {type(ex).__name__}")
        else:
            print(json.dumps(rp, indent=1)[:3000])
    finally:
        common.rmtree(tmp)
    return rc
