"""Parameter extraction for C19 (codecs): coq/gen/ParamsC19.v.

Reads, from the Python AST of /repo's sources (never by importing them):
  * gromacs.py: _G96_FMT, _G96_BOX_FMT, _G96_BOX_FMT_3 (field width / precision / count and the
    position of the label), the slicing constants `_len`, `_pos` of read_gromos96_file,
    _GROMACS_MAGIC, _DIM, _TRR_VERSION, _HEAD_FMT, _HEAD_ITEMS, TRR_DATA_ITEMS, the shifts
    and masks of swap_integer, the key order of is_double;
  * engineparts.py: _XYZ_BIG_FMT, _XYZ_BIG_VEL_FMT, the `Box:` header format of
    write_xyz_trajectory.
Any shape it does not recognise raises (fail closed): the generated file then lacks the
definitions and the model no longer compiles, which the check reports as a broken obligation.
"""
import ast
import re
import string
import struct

import params_extract as pe

GRO = "infretis/classes/engines/gromacs.py"
PARTS = "infretis/classes/engines/engineparts.py"


def _const_eval(node, env):
    """Evaluate the tiny expression language used for the module constants."""
    if isinstance(node, ast.Constant):
        return node.value
    if isinstance(node, ast.Name):
        return env[node.id]
    if isinstance(node, ast.Tuple):
        return tuple(_const_eval(e, env) for e in node.elts)
    if isinstance(node, ast.BinOp) and isinstance(node.op, (ast.Add, ast.Mult, ast.Pow)):
        a, b = _const_eval(node.left, env), _const_eval(node.right, env)
        if isinstance(node.op, ast.Add):
            return a + b
        if isinstance(node.op, ast.Mult):
            return a * b
        return a ** b
    if (isinstance(node, ast.Call) and isinstance(node.func, ast.Attribute) and node.func.attr == "calcsize"
            and isinstance(node.func.value, ast.Name) and node.func.value.id == "struct" and len(node.args) == 1):
        return struct.calcsize(_const_eval(node.args[0], env))
    raise ValueError(f"unsupported constant expression: {ast.dump(node)[:80]}")


def module_constants(rel, names):
    tree = ast.parse(pe.src(rel))
    env = {}
    for node in tree.body:
        if isinstance(node, ast.Assign) and len(node.targets) == 1 and isinstance(node.targets[0], ast.Name):
            nm = node.targets[0].id
            if nm in names or nm.startswith("_") or nm.isupper():
                try:
                    env[nm] = _const_eval(node.value, env)
                except Exception:
                    if nm in names:
                        raise
    for n in names:
        if n not in env:
            raise ValueError(f"{n} not found in {rel}")
    return tree, env


def parse_fmt(fmt):
    """'{0:}{1:15.9f}...\\n' -> list of ('lit', text) | ('s', width) | ('f', width, prec) | ('raw',)."""
    out = []
    for lit, field, spec, conv in string.Formatter().parse(fmt):
        if lit:
            out.append(("lit", lit))
        if field is None:
            continue
        if conv is not None:
            raise ValueError("conversion in format")
        if spec == "":
            out.append(("raw",))
            continue
        m = re.fullmatch(r"(\d+)\.(\d+)f", spec)
        if m:
            out.append(("f", int(m.group(1)), int(m.group(2))))
            continue
        m = re.fullmatch(r"(\d+)s", spec)
        if m:
            out.append(("s", int(m.group(1))))
            continue
        raise ValueError(f"unsupported format spec {spec!r}")
    return out


def uniform_f(items):
    fs = [i for i in items if i[0] == "f"]
    if not fs or len({i[1:] for i in fs}) != 1:
        raise ValueError("float fields are not uniform")
    return fs[0][1], fs[0][2], len(fs)


def zlist(vals):
    return "[" + "; ".join(str(int(v)) for v in vals) + "]"


def local_int(func, name):
    for node in ast.walk(func):
        if (isinstance(node, ast.Assign) and len(node.targets) == 1 and isinstance(node.targets[0], ast.Name)
                and node.targets[0].id == name and isinstance(node.value, ast.Constant) and isinstance(node.value.value, int)):
            return node.value.value
    raise ValueError(f"local constant {name} not found in {func.name}")


def swap_terms(func):
    """swap_integer: OR of ((integer << s) & m) / ((integer >> s) & m) terms."""
    body = [n for n in func.body if not (isinstance(n, ast.Expr) and isinstance(n.value, ast.Constant))]
    if len(body) != 1 or not isinstance(body[0], ast.Return):
        raise ValueError("swap_integer: unexpected body")
    arg = func.args.args[0].arg
    terms = []

    def walk(e):
        if isinstance(e, ast.BinOp) and isinstance(e.op, ast.BitOr):
            walk(e.left)
            walk(e.right)
            return
        if not (isinstance(e, ast.BinOp) and isinstance(e.op, ast.BitAnd)):
            raise ValueError("swap_integer: term is not an AND")
        sh, mask = e.left, e.right
        if not (isinstance(mask, ast.Constant) and isinstance(mask.value, int)):
            raise ValueError("swap_integer: mask")
        if not (isinstance(sh, ast.BinOp) and isinstance(sh.op, (ast.LShift, ast.RShift)) and isinstance(sh.left, ast.Name)
                and sh.left.id == arg and isinstance(sh.right, ast.Constant) and isinstance(sh.right.value, int)):
            raise ValueError("swap_integer: shift")
        terms.append((isinstance(sh.op, ast.LShift), sh.right.value, mask.value))

    walk(body[0].value)
    return terms


def is_double_keys(func):
    for node in ast.walk(func):
        if (isinstance(node, ast.Assign) and isinstance(node.targets[0], ast.Name) and node.targets[0].id == "key_order"):
            return [e.value for e in node.value.elts]
    raise ValueError("is_double: key_order not found")


def box_header_fmt(func):
    """write_xyz_trajectory: f'Box: {" ".join([f"{i:9.4f}" for i in box])}' -> (9, 4)."""
    hits = []
    for node in ast.walk(func):
        if isinstance(node, ast.FormattedValue) and node.format_spec is not None:
            spec = "".join(v.value for v in node.format_spec.values if isinstance(v, ast.Constant))
            m = re.fullmatch(r"(\d+)\.(\d+)f", spec)
            if m:
                hits.append((int(m.group(1)), int(m.group(2))))
    if len(hits) != 1:
        raise ValueError(f"write_xyz_trajectory: expected one float format spec, found {hits}")
    return hits[0]


@pe.extractor("ParamsC19")
def params_c19():
    gtree, g = module_constants(GRO, ["_G96_FMT", "_G96_BOX_FMT", "_G96_BOX_FMT_3", "_GROMACS_MAGIC", "_DIM", "_TRR_VERSION",
                                      "_HEAD_FMT", "_HEAD_ITEMS", "TRR_DATA_ITEMS", "_SIZE_FLOAT", "_SIZE_DOUBLE"])
    ptree, p = module_constants(PARTS, ["_XYZ_BIG_FMT", "_XYZ_BIG_VEL_FMT"])
    L = ["(* GENERATED by py/params_c19.py from /repo sources -- do not edit. *)",
         "From Coq Require Import ZArith List.", "Import ListNotations.", "Open Scope Z_scope.", ""]

    # ---- g96 line format: label first (raw), then uniform float fields, newline last
    items = parse_fmt(g["_G96_FMT"])
    if items[0] != ("raw",) or items[-1] != ("lit", "\n") or any(i[0] not in ("f",) for i in items[1:-1]):
        raise ValueError("_G96_FMT: expected '{label}{f}{f}{f}\\n'")
    w, d, n = uniform_f(items)
    L += [f"Definition g96_w : nat := {w}%nat.", f"Definition g96_d : nat := {d}%nat.", f"Definition g96_nf : nat := {n}%nat."]
    for nm, key in (("g96_box9", "_G96_BOX_FMT"), ("g96_box3", "_G96_BOX_FMT_3")):
        it = parse_fmt(g[key])
        if it[-1] != ("lit", "\n") or any(i[0] != "f" for i in it[:-1]):
            raise ValueError(f"{key}: expected float fields then newline")
        bw, bd, bn = uniform_f(it)
        L += [f"Definition {nm}_w : nat := {bw}%nat.", f"Definition {nm}_d : nat := {bd}%nat.", f"Definition {nm}_n : nat := {bn}%nat."]
    rd = pe.find_func(gtree, "read_gromos96_file")
    L += [f"Definition g96_read_len : nat := {local_int(rd, '_len')}%nat.",
          f"Definition g96_read_pos : nat := {local_int(rd, '_pos')}%nat.", ""]

    # ---- xyz line format: '{:5s}' then ' {:15.9f}' fields
    for nm, key in (("xyz", "_XYZ_BIG_FMT"), ("xyzv", "_XYZ_BIG_VEL_FMT")):
        it = parse_fmt(p[key])
        if it[0][0] != "s":
            raise ValueError(f"{key}: expected a name field first")
        rest = it[1:]
        if len(rest) % 2 or any(rest[i] != ("lit", " ") or rest[i + 1][0] != "f" for i in range(0, len(rest), 2)):
            raise ValueError(f"{key}: expected ' {{:W.Df}}' fields")
        xw, xd, xn = uniform_f(it)
        L += [f"Definition {nm}_name_w : nat := {it[0][1]}%nat.", f"Definition {nm}_w : nat := {xw}%nat.",
              f"Definition {nm}_d : nat := {xd}%nat.", f"Definition {nm}_nf : nat := {xn}%nat."]
    bw, bd = box_header_fmt(pe.find_func(ptree, "write_xyz_trajectory"))
    L += [f"Definition xyz_box_w : nat := {bw}%nat.", f"Definition xyz_box_d : nat := {bd}%nat.", ""]

    # ---- TRR
    m = re.fullmatch(r"\{\}(\d+)i", g["_HEAD_FMT"])
    if not m:
        raise ValueError("_HEAD_FMT: expected '{}<n>i'")
    nints = int(m.group(1))
    items_h = list(g["_HEAD_ITEMS"])
    if items_h[nints:] != ["time", "lambda"]:
        raise ValueError("_HEAD_ITEMS: expected the integer fields followed by time, lambda")
    L += [f"Definition trr_magic : Z := {int(g['_GROMACS_MAGIC'])}.", f"Definition trr_dim : Z := {int(g['_DIM'])}.",
          f"Definition trr_version : list Z := {zlist(g['_TRR_VERSION'].encode('utf-8'))}.",
          f"Definition trr_nints : nat := {nints}%nat.",
          f"Definition trr_size_float : Z := {int(g['_SIZE_FLOAT'])}.", f"Definition trr_size_double : Z := {int(g['_SIZE_DOUBLE'])}."]
    for key in ("box_size", "vir_size", "pres_size", "x_size", "v_size", "f_size", "natoms"):
        L.append(f"Definition trr_i_{key} : nat := {items_h.index(key)}%nat.")
    L.append("Definition trr_data_items : list nat := [" + "; ".join(f"{items_h.index(k)}%nat" for k in g["TRR_DATA_ITEMS"]) + "].")
    dk = is_double_keys(pe.find_func(gtree, "is_double"))
    if dk[0] != "box_size":
        raise ValueError("is_double: box_size is expected to be the first key")
    L.append("Definition trr_double_keys : list nat := [" + "; ".join(f"{items_h.index(k)}%nat" for k in dk) + "].")
    terms = swap_terms(pe.find_func(gtree, "swap_integer"))
    L.append("(* swap_integer: (is left shift, shift, mask) per OR-ed term *)")
    L.append("Definition swap_terms : list (bool * Z * Z) := [" +
             "; ".join(f"({'true' if l else 'false'}, {s}, {mk})" for l, s, mk in terms) + "].")
    return "\n".join(L) + "\n"
