"""Parameter extraction for C07 (random streams): coq/gen/ParamsC07.v.

Walks the Python ASTs of /repo's move, path, engine and scheduler sources (never importing
them) and lists every in-process random draw site with a classification of its receiver:
  RJobStream        the job's own stream (`rgen` parameter / ens_set['rgen'] / self.rgen of an
                    engine, set by select_shoot from 'rgen-eng'; `rng=` keyword fed from it)
  RSchedulerStream  REPEX_state.rgen inside the scheduler's own code
  RGlobal           numpy.random.* / random.* module level functions, or a library call that
                    falls back to them (MaxwellBoltzmannDistribution / Langevin without rng=)
  RFresh            a generator created on the spot (default_rng(), RandomState(), ...)
  RUnknown          a draw method on a receiver that cannot be classified
theorems/C07.v proves by computation that every site is acceptable (site_ok).  Fails closed.
"""
import ast
import os

import params_extract as pe

DRAW_METHODS = {"random", "normal", "integers", "choice", "standard_normal", "uniform", "shuffle", "permutation",
                "rand", "randn", "randint", "random_sample", "exponential", "gauss", "randrange", "bytes", "multivariate_normal"}
FRESH = {"default_rng", "RandomState", "Generator", "PCG64", "MT19937", "SeedSequence"}
MOVE_FILES = ["infretis/core/tis.py", "infretis/core/core.py", "infretis/classes/path.py", "infretis/classes/system.py",
              "infretis/classes/orderparameter.py", "infretis/classes/formatter.py"]
SCHED_FILES = ["infretis/classes/repex.py", "infretis/scheduler.py", "infretis/setup.py", "infretis/asyncrunner.py"]
ENGINE_DIR = "infretis/classes/engines"


def classify(node, moves_code, rel):
    """node: ast.Call.  Returns (class, description) or None when it is not a draw site."""
    f = node.func
    if isinstance(f, ast.Attribute):
        recv = ast.unparse(f.value)
        if f.attr in DRAW_METHODS:
            low = recv.replace('"', "'")
            if low.startswith(("np.random", "numpy.random")) or low in ("random", "np.random", "numpy.random"):
                return "RGlobal", f"{recv}.{f.attr}"
            if low.endswith("rgen") or "['rgen']" in low or "rgen-eng" in low or low in ("rng", "self.rng"):
                if not moves_code and low == "self.rgen":
                    return "RSchedulerStream", f"{recv}.{f.attr}"
                return "RJobStream", f"{recv}.{f.attr}"
            # methods with common non-random meanings on other objects are ignored unless the
            # receiver looks like a generator
            if any(t in low for t in ("random", "rng", "generator")):
                return "RUnknown", f"{recv}.{f.attr}"
            return None
        if f.attr in FRESH and ("random" in ast.unparse(f.value)):
            if not moves_code:
                return "RSchedulerStream", ast.unparse(f)
            return "RFresh", ast.unparse(f)
        if f.attr == "seed" and ast.unparse(f.value).endswith("random"):
            return "RGlobal", ast.unparse(f)
    elif isinstance(f, ast.Name):
        if f.id in FRESH and f.id not in ("Generator",):
            if f.id == "SeedSequence":
                return None
            if not moves_code:
                return "RSchedulerStream", f.id
            return "RFresh", f.id
        if f.id == "MaxwellBoltzmannDistribution":
            kws = {k.arg: ast.unparse(k.value) for k in node.keywords if k.arg}
            if "rng" in kws and "rgen" in kws["rng"]:
                return "RJobStream", f"MaxwellBoltzmannDistribution(rng={kws['rng']})"
            return "RGlobal", "MaxwellBoltzmannDistribution without rng="
    return None


def scan(rel, moves_code):
    tree = ast.parse(pe.src(rel))
    out = []
    for node in ast.walk(tree):
        if isinstance(node, ast.Call):
            c = classify(node, moves_code, rel)
            if c:
                out.append((moves_code, c[0], f"{rel}:{node.lineno} {c[1]}"))
    # a stochastic ASE integrator must be given the job's stream
    if rel.endswith("ase_engine.py") and "Langevin" in pe.src(rel):
        ok = False
        for node in ast.walk(tree):
            if isinstance(node, ast.Assign) and len(node.targets) == 1 and isinstance(node.targets[0], ast.Subscript):
                t = node.targets[0]
                if isinstance(t.slice, ast.Constant) and t.slice.value == "rng" and "rgen" in ast.unparse(node.value):
                    ok = True
                    out.append((True, "RJobStream", f"{rel}:{node.lineno} Langevin integrator rng <- {ast.unparse(node.value)}"))
        if not ok:
            out.append((True, "RGlobal", f"{rel} Langevin integrator constructed without rng="))
    return out


@pe.extractor("ParamsC07")
def params_c07():
    sites = []
    for rel in MOVE_FILES:
        sites += scan(rel, True)
    edir = os.path.join(pe.common.REPO, ENGINE_DIR)
    for fn in sorted(os.listdir(edir)):
        if fn.endswith(".py"):
            sites += scan(f"{ENGINE_DIR}/{fn}", True)
    for rel in SCHED_FILES:
        sites += scan(rel, False)
    if not any(s[1] == "RJobStream" for s in sites):
        raise ValueError("no job-stream draw site found: the scanner no longer understands the sources")
    lines = ["(* generated by py/params_c07.py from /repo's sources; do not edit *)",
             "From Coq Require Import List Bool.", "Import ListNotations.", "From Inf Require Import model.RngM.", "",
             "Definition draw_sites : list (bool * recv) := ["]
    for i, (mv, cls, desc) in enumerate(sites):
        sep = ";" if i + 1 < len(sites) else ""
        lines.append(f"  ({'true' if mv else 'false'}, {cls}){sep}  (* {desc.replace('*)', '* )')} *)")
    lines.append("].")
    return "\n".join(lines) + "\n"
