"""Harness of the C12 check: runs the REAL engine classes of /repo against the fake MD
programs (py/plugins/fake_{lmp,cp2k,gmx}.py) or in-process (ASE, TurtleMD, the lattice plug-in),
under a controlled arrival schedule.

Everything a case needs is in a plain dict (JSON-able: it is the replay).  `run_case(case)`
is executed in a freshly forked child (sysharness.run_many) and returns a plain dict with what
the implementation did; `analytic(case)` computes, independently of the engine classes, the
trajectory the fake program writes; `model_inputs` / `model_request` build the request line
for the extracted Coq model (bin/c12).

Conventions.  `case["pos"]`, `case["vel"]` are the numbers in the configuration FILE of the
phase point handed to `propagate`; `case["vel_rev_in"]` is its `vel_rev` flag (the physical
velocity is -vel when set); `case["reverse"]` is the requested direction.

Synchronisation (mode "sync"): the module-level name `sleep` of the engine module is replaced
by `SyncSleep`; every engine sleep lets the fake program advance exactly one schedule entry
and returns when the fake has acknowledged it (or has exited and is a zombie), so file
contents and the program's life change ONLY inside engine sleeps and a run is a deterministic
function of the schedule.  Mode "async": nothing is replaced except the sleep length.

Byte-unit schedules (`case["unit"] = "bytes"`, CP2K only): the schedule amounts are cumulative byte
counts of <project>-pos-1.xyz / -vel-1.xyz instead of half frames, so a poll can see either file
ending at any byte (cp2k_frame_len / cp2k_where / frames_in below); everything else is unchanged.

Launcher scenarios (`case["launcher"]` = "fg" | "bg"): the engine is configured with an sh
wrapper script (written per case, LAUNCHER_SH) that runs the fake program as its child and
waits for it; the hand-shake then treats the launcher's exit as "the program has ended" (that
is what the engine's poll() sees).  After every propagation of an external engine all
processes started for it are looked up by the control-file path in their environment
(`program_procs`), given GRACE seconds to disappear, reported in obs["program_alive"] /
obs["still_writing"], and killed.
"""
from __future__ import annotations

import importlib.util  # noqa: F401
import json
import math
import os
import shutil
import sys
import time
from fractions import Fraction
from types import SimpleNamespace

HERE = os.path.dirname(os.path.abspath(__file__))
PLUG = os.path.join(HERE, "plugins")
PY = "/venv/bin/python "
FAKE = {"lammps": PY + os.path.join(PLUG, "fake_lmp.py"), "cp2k": PY + os.path.join(PLUG, "fake_cp2k.py"),
        "gromacs": PY + os.path.join(PLUG, "fake_gmx.py")}
EXTERNAL = ("lammps", "cp2k", "gromacs")
HANG_SLEEPS = 40        # sleeps after the program is gone before a run is declared hanging
GRACE = 3.0             # seconds a stopped program is given to disappear after propagate has ended
WATCH = 0.25            # seconds the exe directory is watched for writes after propagate has ended
LAUNCHERS = ("fg", "bg")

# TRR layout written by fake_gmx.py (double precision): see trr_sizes()
TRR_HEAD0 = 1000


class HarnessError(Exception):
    pass


class HangDetected(BaseException):
    """The engine keeps sleeping although the program has been gone for HANG_SLEEPS sleeps."""


# --------------------------------------------------------------------------- hand-shake


class SyncSleep:
    """Replacement of `time.sleep` inside an engine module."""

    def __init__(self, ctl_dir, launcher=False):
        self.dir = ctl_dir
        self.n = 0
        self.pid = None
        self.gone = False
        self.after_gone = 0
        # launcher mode: the engine's direct child is a launcher script and the fake program
        # is the launcher's child.  What the engine's poll() sees is the launcher, so "the
        # program has ended" means here: the launcher has ended (it waits for the program).
        self.launcher = launcher
        self.top = None

    def _top_gone(self):
        if self.top is None:
            self.top = [pid for pid, _ in children()]
        return all(proc_state(pid) in "ZX" for pid in self.top)

    def _read(self, name):
        try:
            with open(os.path.join(self.dir, name)) as f:
                return f.read().strip()
        except OSError:
            return None

    def _state(self):
        """'Z' zombie / 'X' gone / other = running."""
        if self.pid is None:
            p = self._read("pid")
            if not p:
                return "?"
            self.pid = int(p)
        try:
            with open(f"/proc/{self.pid}/stat") as f:
                s = f.read()
            return s[s.rindex(")") + 2]
        except (OSError, ValueError):
            return "X"

    def __call__(self, dt=0.0):
        self.n += 1
        if self.gone:
            self.after_gone += 1
            if self.after_gone > HANG_SLEEPS:
                raise HangDetected(f"engine still waiting {self.after_gone} sleeps after the program ended")
            return
        if self.launcher and self._top_gone():
            self.gone = True
            return
        tmp = os.path.join(self.dir, ".go")
        with open(tmp, "w") as f:
            f.write(str(self.n))
        os.replace(tmp, os.path.join(self.dir, "go"))
        t0 = time.time()
        while True:
            a = self._read("ack")
            st = self._state()
            if self.launcher:
                if st in "ZX" or a == "exit" or self._top_gone():
                    # the program is gone or on its way out: wait until the launcher's exit
                    # is observable by the engine
                    while not self._top_gone():
                        time.sleep(0.0003)
                        if time.time() - t0 > 120:
                            raise HarnessError("fake program ended but its launcher does not")
                    self.gone = True
                    return
                if a is not None and a.isdigit() and int(a) >= self.n:
                    return
                time.sleep(0.0003)
                if time.time() - t0 > 120:
                    raise HarnessError(f"fake program (behind a launcher) did not acknowledge step {self.n} (state {st})")
                continue
            if st in "ZX":
                self.gone = True
                return
            if a == "exit":
                # the fake is on its way out: wait until the exit is observable
                while self._state() not in "ZX":
                    time.sleep(0.0003)
                    if time.time() - t0 > 120:
                        raise HarnessError("fake program announced exit but does not die")
                self.gone = True
                return
            if a is not None and a.isdigit() and int(a) >= self.n:
                return
            time.sleep(0.0003)
            if time.time() - t0 > 120:
                raise HarnessError(f"fake program did not acknowledge step {self.n} (state {st})")


def children():
    """(pid, state) of every process whose parent is this process."""
    me = os.getpid()
    out = []
    for d in os.listdir("/proc"):
        if not d.isdigit():
            continue
        try:
            with open(f"/proc/{d}/stat") as f:
                s = f.read()
            rest = s[s.rindex(")") + 2:].split()
            if int(rest[1]) == me:
                out.append((int(d), rest[0]))
        except (OSError, ValueError, IndexError):
            pass
    return out


def proc_state(pid):
    """'Z' zombie / 'X' gone / other = alive."""
    try:
        with open(f"/proc/{pid}/stat") as f:
            s = f.read()
        return s[s.rindex(")") + 2]
    except (OSError, ValueError, IndexError):
        return "X"


def program_procs(ctl_prefix, exact=True):
    """Every live process (any parent, any process group) that was started with
    FAKEMD_CTL=<ctl_prefix> in its environment, i.e. every process of the external program of
    one propagation, launcher included: [(pid, state, command)].  The environment is
    inherited through launchers and survives re-parenting, so this also finds a program whose
    launcher is gone.  Zombies are not alive (and have no readable environment)."""
    key = b"FAKEMD_CTL=" + ctl_prefix.encode()
    me = os.getpid()
    out = []
    for d in os.listdir("/proc"):
        if not d.isdigit() or int(d) == me:
            continue
        try:
            with open(f"/proc/{d}/environ", "rb") as f:
                env = f.read().split(b"\0")
        except OSError:
            continue
        if not any((e == key) if exact else e.startswith(key) for e in env):
            continue
        st = proc_state(int(d))
        if st in "ZX":
            continue
        try:
            with open(f"/proc/{d}/cmdline", "rb") as f:
                cmd = " ".join(os.path.basename(x.decode(errors="replace")) for x in f.read().split(b"\0") if x)
        except OSError:
            cmd = "?"
        out.append((int(d), st, cmd))
    return sorted(out)


def kill_strays(root):
    """SIGKILL every process started with a control file below `root` (clean-up)."""
    n = 0
    root = root.rstrip("/") + "/"
    for _ in range(3):
        procs = program_procs(root, exact=False)
        if not procs:
            break
        for pid, _, _ in procs:
            try:
                os.kill(pid, 9)
                n += 1
            except OSError:
                pass
        time.sleep(0.02)
    return n


def snapshot_dir(d):
    out = {}
    try:
        for nm in os.listdir(d):
            try:
                st = os.stat(os.path.join(d, nm))
                out[nm] = (st.st_size, st.st_mtime_ns, st.st_ino)
            except OSError:
                pass
    except OSError:
        pass
    return out


# --------------------------------------------------------------------------- numbers


def frac(x):
    return Fraction(*float(x).as_integer_ratio())


def scale_for(values):
    """Smallest power of two making every value an integer."""
    k = 0
    for v in values:
        if v is None or math.isinf(v):
            continue
        d = frac(v).denominator
        k = max(k, d.bit_length() - 1)
    return k


# --------------------------------------------------------------------------- order parameters


def make_order(spec):
    """spec = {"class": "Position"|"Distance"|"Velocity"|"LinOrder"|"IntOrder", ...}"""
    from infretis.classes.orderparameter import Distance, Position, Velocity
    c = spec["class"]
    if c == "Position":
        return Position(tuple(spec["index"]), periodic=False)
    if c == "Distance":
        return Distance(tuple(spec["index"]), periodic=spec.get("periodic", True))
    if c == "Velocity":
        return Velocity(spec["index"], spec.get("dim", "x"))
    if PLUG not in sys.path:
        sys.path.insert(0, PLUG)
    if c == "LinOrder":
        from c12_plugins import LinOrder
        return LinOrder(spec.get("wx", 1.0), spec.get("wv", 0.0), spec.get("wb", 0.0), spec.get("bidx", 0))
    if c == "IntOrder":
        from engines import IntOrder
        return IntOrder()
    raise ValueError(c)


def order_value(orderf, pos, vel, box):
    import numpy as np
    s = SimpleNamespace(pos=np.array(pos, dtype=float), vel=np.array(vel, dtype=float),
                        box=None if box is None else np.array(box, dtype=float))
    return float(orderf.calculate(s)[0])


# --------------------------------------------------------------------------- analytic trajectory (external engines)


def neg(vel):
    return [[-x for x in v] for v in vel]


def start_vel(case):
    """File velocities the MD program starts from: EngineBase.propagate reverses the file
    velocities iff reverse != vel_rev of the given point."""
    flip = bool(case.get("reverse", False)) != bool(case.get("vel_rev_in", False))
    return neg(case["vel"]) if flip else [list(v) for v in case["vel"]]


# Byte layout of the frames fake_cp2k.py writes to <project>-pos-1.xyz / -vel-1.xyz (the CP2K
# text layout): restated here, independently of the fake program, so that the check can place a
# flush at ANY byte of a frame; the fake leaves the lengths it really wrote in <ctl dir>/layout
# and propagate_once compares (obs["layout_ok"]).
CP2K_COUNT_LINE = 8 + 1                                  # f"{natoms:8d}\n"
CP2K_COMMENT_LINE = 5 + 8 + 9 + 12 + 6 + 20 + 1          # f" i = {step:8d}, time = {t:12.3f}, E = {e:20.10f}\n"
CP2K_ATOM_LINE = 3 + 1 + 3 * 19 + 2 + 1                  # f"{name:>3s} " + " ".join(f"{x:19.10f}" ...) + "\n"
CP2K_NUMBER = 19                                         # width of one number; 10 decimals


def cp2k_frame_len(natoms):
    return CP2K_COUNT_LINE + CP2K_COMMENT_LINE + natoms * CP2K_ATOM_LINE


def cp2k_where(natoms, off):
    """Which part of a frame the byte offset `off` (0 <= off <= frame length; the first `off` bytes of
    the frame are on disk) falls into - input-distribution label of the byte-cut scenarios."""
    flen = cp2k_frame_len(natoms)
    if off <= 0 or off >= flen:
        return "frame-boundary"
    if off < CP2K_COUNT_LINE:
        return "in-count-line"
    if off == CP2K_COUNT_LINE:
        return "after-count-line"
    head = CP2K_COUNT_LINE + CP2K_COMMENT_LINE
    if off < head:
        return "in-comment-line"
    a, r = divmod(off - head, CP2K_ATOM_LINE)
    if r == 0:
        return "between-lines"
    last = a == natoms - 1
    if r == CP2K_ATOM_LINE - 1:
        return "last-line-complete-but-newline" if last else "atom-line-complete-but-newline"
    if not last:
        return "in-atom-line"
    # last atom line: 4 + 19 + 1 + 19 + 1 = start of the field of the last number
    if r <= 4 + 2 * (CP2K_NUMBER + 1):
        return "in-last-line-before-last-number"
    return "in-last-number-of-last-line"


def frames_in(case, amount):
    """Number of COMPLETE frames in an output stream that holds `amount` (a schedule amount: half
    frames, or bytes when case["unit"] == "bytes").  A text frame is complete only when the
    newline that terminates its last line is on disk."""
    if case.get("unit") == "bytes":
        return int(amount) // cp2k_frame_len(len(case["pos"]))
    return int(amount) // 2


def _final_amounts(case):
    """Per output stream: number of complete frames in the file when the program has ended."""
    full = case["maxlen"] + 1 if case.get("frames") is None else case["frames"]
    nstream = 2 if case["engine"] == "cp2k" else 1
    if case.get("write_rest", True):
        return [full] * nstream
    sched = case.get("schedule") or []
    if not sched:
        return [0] * nstream
    last = list(sched[-1]) + [sched[-1][0]] * nstream
    return [min(full, frames_in(case, last[i])) for i in range(nstream)]


def n_written(case):
    """Number of frames the program writes completely to at least one of its output files."""
    return max(_final_amounts(case))


def n_complete(case):
    """Number of frames complete in every output file at the end."""
    return min(_final_amounts(case))


def analytic(case, n=None, box_rate=None):
    """Frames (pos, file vel, box numbers) the fake writes when never stopped: the uniformly
    accelerated flight of plugins/fakemd.py recomputed here in closed form (kept textually
    separate on purpose).  Inputs are multiples of 1/4 or 1/8, so every value is exact in
    binary floating point."""
    sub, dt = case["subcycles"], case["timestep"]
    n = case["maxlen"] + 1 if n is None else n
    rate = list((case.get("box_rate") if box_rate is None else box_rate) or []) + [0.0] * len(case["box"])
    acc = case.get("accel") or [0.0, 0.0, 0.0]
    v0 = start_vel(case)
    out = []
    for k in range(n):
        steps = k * sub
        t = steps * dt
        pos = [[x + v * t + 0.5 * a * t * t for x, v, a in zip(p, vv, acc)] for p, vv in zip(case["pos"], v0)]
        vel = [[v + a * t for v, a in zip(vv, acc)] for vv in v0]
        box = [b + r * steps for b, r in zip(case["box"], rate)]
        out.append((pos, vel, box))
    return out


def seen_by_order(engine, pos, vel, boxnums):
    """What the order parameter is given for a frame with these positions/velocities when the
    box numbers `boxnums` (the engine's file representation) are used: (pos, vel, box)."""
    if engine == "lammps":
        ncol = len(boxnums) // 3
        lo = [boxnums[ncol * i] for i in range(3)]
        hi = [boxnums[ncol * i + 1] for i in range(3)]
        return [[x - l for x, l in zip(p, lo)] for p in pos], vel, [h - l for h, l in zip(hi, lo)]
    if engine == "gromacs":
        b = list(boxnums)
        if len(b) == 3:
            b = b + [0.0] * 6      # box_matrix_to_list(matrix, full=True)
        return pos, vel, b
    return pos, vel, list(boxnums) if boxnums is not None else None


def order_table(engine, frames, orderf, box_of=None):
    """ord(p=k, v=+-(k+1), b=j) for every frame k, both velocity signs, every box j that can be
    paired with it.  Returns (entries {(p,v,b): float}, box tag per frame)."""
    tags, btag = {}, []
    for k, (_, _, b) in enumerate(frames):
        key = tuple(b) if b is not None else None
        if engine == "cp2k":
            key = tuple(frames[0][2])       # the engine uses the box of the initial configuration
        tags.setdefault(key, len(tags))
        btag.append(tags[key])
    boxes = {v: (list(k) if k is not None else None) for k, v in tags.items()}
    ent = {}
    for k, (pos, vel, _) in enumerate(frames):
        for sgn in (1, -1):
            v = [[sgn * x for x in vv] for vv in vel]
            for j, bn in boxes.items():
                p2, v2, b2 = seen_by_order(engine, pos, v, bn)
                ent[(k, sgn * (k + 1), j)] = order_value(orderf, p2, v2, b2)
    return ent, btag


# --------------------------------------------------------------------------- input files


LAMMPS_INPUT = """variable subcycles index infretis_subcycles
variable timestep index infretis_timestep
variable nsteps index infretis_nsteps
variable initconf index infretis_initconf
variable name index infretis_name
variable lammpsdata index infretis_lammpsdata
variable temperature index infretis_temperature
variable seed index infretis_seed
units real
atom_style full
read_data ${lammpsdata}
read_dump ${initconf} 0 x y z vx vy vz box yes
fix 1 all nve
thermo ${subcycles}
thermo_style custom step ke pe etotal temp
dump 1 all custom ${subcycles} ${name}.lammpstrj id type x y z vx vy vz id
timestep ${timestep}
run ${nsteps}
"""


def write_lammps_inputs(d, natoms):
    os.makedirs(d, exist_ok=True)
    with open(os.path.join(d, "lammps.input"), "w") as f:
        f.write(LAMMPS_INPUT)
    with open(os.path.join(d, "lammps.data"), "w") as f:
        f.write(f"Title\n\n{natoms} atoms\n0 bonds\n\n1 atom types\n0 bond types\n0 30 xlo xhi\n0 30 ylo yhi\n0 30 zlo zhi\n\n"
                "Masses\n\n1\t1.0\n\nAtoms\n\n")
        for i in range(natoms):
            f.write(f"{i + 1}\t1\t1 0.000\t{float(i)} 0.000 0.000\n")


def write_lammpstrj(fn, pos, vel, boxnums):
    ncol = len(boxnums) // 3
    hdr = "ITEM: BOX BOUNDS pp pp pp" if ncol == 2 else "ITEM: BOX BOUNDS xy xz yz pp pp pp"
    with open(fn, "w") as f:
        f.write(f"ITEM: TIMESTEP\n0\nITEM: NUMBER OF ATOMS\n{len(pos)}\n{hdr}\n")
        for i in range(3):
            f.write(" ".join(repr(float(x)) for x in boxnums[ncol * i:ncol * (i + 1)]) + "\n")
        f.write("ITEM: ATOMS id type x y z vx vy vz\n")
        for i, (p, v) in enumerate(zip(pos, vel)):
            f.write(f"{i + 1} 1 " + " ".join(repr(float(x)) for x in p) + " " + " ".join(repr(float(x)) for x in v) + "\n")


CP2K_TEMPLATE = """&GLOBAL
  PROJECT template
  RUN_TYPE MD
  PRINT_LEVEL LOW
&END GLOBAL
&MOTION
  &MD
    ENSEMBLE NVE
    STEPS 10
    TIMESTEP 0.5
  &END MD
  &PRINT
    &RESTART
      BACKUP_COPIES 0
      &EACH
        MD 1
      &END EACH
    &END RESTART
    &VELOCITIES
      &EACH
        MD 1
      &END EACH
    &END VELOCITIES
    &TRAJECTORY
      &EACH
        MD 1
      &END EACH
    &END TRAJECTORY
  &END PRINT
&END MOTION
&FORCE_EVAL
  METHOD FIST
  &SUBSYS
    &CELL
      ABC {a} {b} {c}
    &END CELL
    &TOPOLOGY
      COORD_FILE_NAME initial.xyz
      COORD_FILE_FORMAT xyz
    &END TOPOLOGY
  &END SUBSYS
&END FORCE_EVAL
"""


def write_xyz_conf(fn, pos, vel, box, names=None, omit_vel=False, append=False):
    """xyz configuration.  The optional entries of the format can be left out: `box=None`
    writes a comment line without a "Box:" entry, `omit_vel` writes no velocity columns (the
    readers of /repo then return box None / zero velocities)."""
    names = names or ["Ar"] * len(pos)
    with open(fn, "a" if append else "w") as f:
        f.write(f"{len(pos)}\n")
        hdr = "# "
        if box is not None:
            hdr += "Box: " + " ".join(f"{x:9.4f}" for x in box)
        else:
            hdr += "phase point without the optional header entries"
        f.write(hdr + "\n")
        for nm, p, v in zip(names, pos, vel):
            f.write(f"{nm:5s}" + "".join(f" {x:15.9f}" for x in list(p) + ([] if omit_vel else list(v))) + "\n")


def write_cp2k_inputs(d, case):
    os.makedirs(d, exist_ok=True)
    a, b, c = case["box"][:3]
    with open(os.path.join(d, "cp2k.inp"), "w") as f:
        f.write(CP2K_TEMPLATE.format(a=a, b=b, c=c))
    write_xyz_conf(os.path.join(d, "initial.xyz"), case["pos"], case["vel"], case["box"][:3])


def g96_text(pos, vel, box, omit_vel=False):
    """g96 configuration; `omit_vel`: no VELOCITY block (read_gromos96_file returns zeros)."""
    out = ["TITLE\nfake\nEND\nPOSITION\n"]
    for i, p in enumerate(pos):
        out.append(f"{1:5d} {'AR':5s} {'AR':5s}{i + 1:7d}" + "".join(f"{x:15.9f}" for x in p) + "\n")
    out.append("END\n")
    if not omit_vel:
        out.append("VELOCITY\n")
        for i, v in enumerate(vel):
            out.append(f"{1:5d} {'AR':5s} {'AR':5s}{i + 1:7d}" + "".join(f"{x:15.9f}" for x in v) + "\n")
        out.append("END\n")
    out.append("BOX\n" + "".join(f"{x:15.9f}" for x in box) + "\nEND\n")
    return "".join(out)


def write_gromacs_inputs(d, case):
    os.makedirs(d, exist_ok=True)
    with open(os.path.join(d, "conf.g96"), "w") as f:
        f.write(g96_text(case["pos"], case["vel"], case["box"]))
    with open(os.path.join(d, "grompp.mdp"), "w") as f:
        f.write("integrator = md-vv\ndt = 0.002\nnsteps = 10\ntc-grps = System\n")
    with open(os.path.join(d, "topol.top"), "w") as f:
        f.write("; fake topology\n")


def trr_sizes(natoms):
    """(header size, data size) of the frames fake_gmx.py writes (double precision, x and v)."""
    return 4 + 8 + 12 + 13 * 4 + 16, 72 + 2 * 24 * natoms


# --------------------------------------------------------------------------- building engines


def _engine_module(name):
    import infretis.classes.engines.cp2k as m_cp2k
    import infretis.classes.engines.gromacs as m_gmx
    import infretis.classes.engines.lammps as m_lmp
    return {"lammps": m_lmp, "cp2k": m_cp2k, "gromacs": m_gmx}[name]


LAUNCHER_SH = {
    # a wrapper script as production set-ups use it (set up the environment, then run the real
    # program): the program is the launcher's CHILD (no exec), the launcher waits for it and
    # passes its exit status on
    "fg": """#!/bin/sh
# launcher: set up the environment, then run the program
export OMP_NUM_THREADS=1
{cmd} "$@"
status=$?
exit $status
""",
    # the same with the program started in the background and waited for (mpirun-like)
    "bg": """#!/bin/sh
# launcher: start the program, wait for it
export OMP_NUM_THREADS=1
{cmd} "$@" &
child=$!
wait $child
status=$?
exit $status
""",
}


def write_launcher(case, wd):
    """The command the engine is configured with when case["launcher"] is set: an executable
    sh script that runs the fake program as its child."""
    kind = case["launcher"]
    d = os.path.join(wd, "bin")
    os.makedirs(d, exist_ok=True)
    fn = os.path.join(d, f"run_{case['engine']}_{kind}.sh")
    with open(fn, "w") as f:
        f.write(LAUNCHER_SH[kind].format(cmd=FAKE[case["engine"]].strip()))
    os.chmod(fn, 0o755)
    return fn


def make_engine(case, wd):
    """Build the real engine object for the case; returns (engine, initial config file)."""
    import numpy as np
    eng = case["engine"]
    prog = write_launcher(case, wd) if case.get("launcher") else FAKE[eng]
    inp = os.path.join(wd, "input")
    exe = os.path.join(wd, "exe")
    os.makedirs(exe, exist_ok=True)
    natoms = len(case["pos"])
    if eng == "lammps":
        from infretis.classes.engines.lammps import LAMMPSEngine
        write_lammps_inputs(inp, natoms)
        e = LAMMPSEngine(prog, inp, case["timestep"], case["subcycles"], 300.0,
                         atom_style="full", sleep=case.get("sleep", 0.1))
        conf = os.path.join(wd, "start.lammpstrj")
        write_lammpstrj(conf, case["pos"], case["vel"], case["box"])
        e.set_mdrun({"exe_dir": exe})
    elif eng == "cp2k":
        from infretis.classes.engines.cp2k import CP2KEngine
        write_cp2k_inputs(inp, case)
        e = CP2KEngine(prog, inp, case["timestep"], case["subcycles"], 300.0,
                       sleep=case.get("sleep", 0.1))
        conf = os.path.join(wd, "start.xyz")
        # optional entries of the phase point's file: without "Box:" the engine takes the box
        # from its input template (read_cp2k_box), without velocity columns they read as zeros
        write_xyz_conf(conf, case["pos"], case["vel"], None if case.get("omit_box") else case["box"][:3],
                       omit_vel=bool(case.get("omit_vel")))
        e.set_mdrun({"exe_dir": exe})
    elif eng == "gromacs":
        from infretis.classes.engines.gromacs import GromacsEngine
        write_gromacs_inputs(inp, case)
        os.environ["FAKEMD_CTL"] = ""       # grompp during __init__: no control file
        e = GromacsEngine(FAKE["gromacs"], inp, case["timestep"], case["subcycles"], 300.0, exe_path=wd)
        conf = os.path.join(wd, "start.g96")
        with open(conf, "w") as f:
            f.write(g96_text(case["pos"], case["vel"], case["box"], omit_vel=bool(case.get("omit_vel"))))
        e.set_mdrun({"exe_dir": exe, "wmdrun": prog + " mdrun"})      # grompp/energy: the program itself
    else:
        raise ValueError(eng)
    e.rgen = np.random.default_rng(0)
    e.order_function = make_order(case["order"])
    return e, conf


def write_ctl(case, wd, tag, **over):
    d = os.path.join(wd, f"ctl_{tag}")
    os.makedirs(d, exist_ok=True)
    cfg = {
        "dir": d, "mode": case.get("mode", "sync"),
        "schedule": case.get("schedule", []),
        "frames": case.get("frames"),
        "exit_code": case.get("exit_code", 0), "exit_signal": case.get("exit_signal"),
        "box_rate": case.get("box_rate"), "accel": case.get("accel"),
        "cut": case.get("cut", "line"), "unit": case.get("unit", "half"), "shuffle_ids": case.get("shuffle_ids", False),
        "delay": case.get("delay", 0.003), "die_before_output": case.get("die_before_output", False),
        "write_rest": case.get("write_rest", True),
    }
    cfg.update(over)
    p = os.path.join(d, "ctl.json")
    with open(p, "w") as f:
        json.dump(cfg, f)
    os.environ["FAKEMD_CTL"] = p
    return d


def read_frame_back(engine, config, tag):
    """(file, pos, vel, box) of a stored frame as the engine itself reads it."""
    out = engine.dump_config(tuple(config), deffnm=f"chk_{tag}")
    pos, vel, box, _ = engine._read_configuration(out)
    return out, pos, vel, box


def recompute_order(engine, conf_file, vel_rev):
    """The order parameter of the configuration in conf_file with velocity direction vel_rev,
    by the engine's own calculate_order (reads the file)."""
    from infretis.classes.system import System
    s = System()
    s.config = (conf_file, 0)
    s.vel_rev = bool(vel_rev)
    return float(engine.calculate_order(s)[0])


def own_box(engine):
    """Box of an engine that does not take it from the configuration files (TurtleMD: the
    [engine.box] section of its input)."""
    import numpy as np
    try:
        return np.asarray(engine.box.length, dtype=float)
    except (AttributeError, TypeError, ValueError):
        return None


def direct_order(engine, pos, vel, box, vel_rev):
    import numpy as np
    if box is None:
        box = own_box(engine)
    v = np.asarray(vel, dtype=float)
    s = SimpleNamespace(pos=np.asarray(pos, dtype=float), vel=(-1.0 * v if vel_rev else v),
                        box=None if box is None else np.asarray(box, dtype=float), vel_rev=bool(vel_rev))
    return float(engine.order_function.calculate(s)[0])


def describe_path(engine, path, tag):
    frames = []
    for k, pp in enumerate(path.phasepoints):
        fr = {"order": float(pp.order[0]), "file": os.path.basename(str(pp.config[0])), "idx": pp.config[1],
              "vel_rev": bool(pp.vel_rev), "norder": len(pp.order)}
        try:
            out, pos, vel, box = read_frame_back(engine, pp.config, f"{tag}_{k}")
            fr["recomputed"] = recompute_order(engine, out, pp.vel_rev)
            fr["recomputed_flip"] = recompute_order(engine, out, not pp.vel_rev)
            # the same once more WITHOUT EngineBase.calculate_order (and so without its
            # "some argument is None -> re-read system.config[0]" route): the order function
            # applied to this frame's own positions, velocities (times -1 for vel_rev) and box;
            # a frame whose file carries no box entry has the engine's own box
            fr["has_box"] = box is not None
            fr["recomputed_direct"] = direct_order(engine, pos, vel, box, pp.vel_rev)
            fr["pos"] = [[float(x) for x in r] for r in pos]
            fr["vel"] = [[float(x) for x in r] for r in vel]
            fr["box"] = None if box is None else [float(x) for x in box]
        except BaseException as e:  # noqa: BLE001
            fr["recompute_error"] = f"{type(e).__name__}: {e}"[:200]
        frames.append(fr)
    return frames


def propagate_once(engine, case, wd, conf, idx, vel_rev_in, reverse, tag, ctl_over=None):
    """One call of the real `propagate` of an external engine; returns the observation dict and the Path."""
    from infretis.classes.path import Path
    from infretis.classes.system import System
    mod = _engine_module(case["engine"])
    ctl_dir = write_ctl(case, wd, tag, **(ctl_over or {}))
    sync = None
    old_sleep = mod.sleep
    if case.get("mode", "sync") == "sync":
        sync = SyncSleep(ctl_dir, launcher=bool(case.get("launcher")))
        mod.sleep = sync
    elif case["engine"] == "gromacs":
        mod.GromacsRunner.SLEEP = case.get("sleep", 0.01)
    system = System()
    system.config = (conf, idx)
    system.vel_rev = bool(vel_rev_in)
    path = Path(maxlen=case["maxlen"])
    left, right = case["interfaces"]
    ens = {"ens_name": "001", "interfaces": [left, None, right]}
    obs = {"raised": None, "success": None, "status": None, "hang": False}
    try:
        ok, status = engine.propagate(path, ens, system, reverse=reverse)
        obs["success"], obs["status"] = bool(ok), str(status)
    except HarnessError:
        raise
    except HangDetected as e:
        obs["hang"] = True
        obs["raised"] = f"HANG: {e}"
    except BaseException as e:  # noqa: BLE001
        obs["raised"] = f"{type(e).__name__}: {e}"[:300]
    finally:
        mod.sleep = old_sleep
    t_end = time.time()
    kids = children()
    obs["children"] = kids
    obs["children_alive"] = [k for k in kids if k[1] not in "ZX"]
    # "the external program is stopped when propagation ends": no process that was started
    # for this propagation (found by the control file in its environment, whoever its parent
    # is now) may be alive; a terminated process is given GRACE seconds to disappear
    ctl_path = os.path.join(ctl_dir, "ctl.json")
    try:
        alive = program_procs(ctl_path)
        while alive and time.time() - t_end < GRACE:
            time.sleep(0.02)
            alive = program_procs(ctl_path)
        obs["program_alive"] = [[st, cmd] for _, st, cmd in alive]
        obs["program_pids"] = [pid for pid, _, _ in alive]
        obs["grace"] = round(time.time() - t_end, 2) if alive else 0
        obs["still_writing"] = []
        if alive or case.get("watch"):
            exe_dir = os.path.join(wd, "exe")
            before = snapshot_dir(exe_dir)
            if alive and sync is not None:
                # hand-shake mode: the surviving program is blocked waiting for the next engine
                # sleep; let it run on freely, as it would without the hand-shake
                with open(os.path.join(ctl_dir, ".go"), "w") as f:
                    f.write(str(10 ** 6))
                os.replace(os.path.join(ctl_dir, ".go"), os.path.join(ctl_dir, "go"))
            time.sleep(WATCH if not alive else 2 * WATCH)
            after = snapshot_dir(exe_dir)
            obs["still_writing"] = sorted(nm for nm in after if after[nm] != before.get(nm))
    finally:
        for pid, _, _ in program_procs(ctl_path):
            try:
                os.kill(pid, 9)
            except OSError:
                pass
    obs["sigterm"] = os.path.exists(os.path.join(ctl_dir, "sigterm"))
    if case["engine"] == "cp2k" and case.get("unit") == "bytes":
        # the byte positions of the schedule were computed from the layout restated above: it must
        # be the layout the program really wrote
        try:
            with open(os.path.join(ctl_dir, "layout")) as f:
                lay = json.load(f)
            flen = cp2k_frame_len(len(case["pos"]))
            obs["layout_ok"] = all(x == flen for key in ("pos", "vel") for x in lay[key])
            obs["layout"] = sorted({x for key in ("pos", "vel") for x in lay[key]})
        except (OSError, ValueError, KeyError):
            obs["layout_ok"], obs["layout"] = None, None     # the program never got that far
    obs["nsleeps"] = sync.n if sync else None
    # reap whatever is left so that later propagations start clean
    for pid, _ in kids:
        try:
            os.kill(pid, 9)
        except OSError:
            pass
        try:
            os.waitpid(pid, 0)
        except OSError:
            pass
    os.environ["FAKEMD_CTL"] = ""
    obs["frames"] = describe_path(engine, path, tag)
    obs["trajfiles"] = sorted({f["file"] for f in obs["frames"]})
    return obs, path


def run_case(case):
    """Forked-child entry: propagation in the requested direction, optionally followed by a
    propagation in the opposite direction from frame `back_from` of the path just produced."""
    wd = case["wd"]
    os.makedirs(wd, exist_ok=True)
    sys.unraisablehook = lambda *a: None      # GromacsRunner.__del__ noise at interpreter exit
    if HERE not in sys.path:
        sys.path.insert(0, HERE)
    try:
        if case["engine"] in EXTERNAL:
            engine, conf = make_engine(case, wd)
            res = {}
            obs, path = propagate_once(engine, case, wd, conf, 0, case.get("vel_rev_in", False),
                                       case.get("reverse", False), "a")
            res["main"] = obs
            j = case.get("back_from")
            if j is not None and obs["raised"] is None and j < len(path.phasepoints):
                pp = path.phasepoints[j]
                rate = [-r for r in (case.get("box_rate") or [])]
                bcase = dict(case)
                bcase["maxlen"] = j + 1
                bcase["interfaces"] = [-1e9, 1e9]
                obs2, _ = propagate_once(engine, bcase, wd, pp.config[0], pp.config[1], pp.vel_rev,
                                         not pp.vel_rev, "b",
                                         ctl_over={"box_rate": rate, "schedule": [[2 * (j + 3)] * 2],
                                                   "frames": None, "exit_code": 0, "exit_signal": None,
                                                   "die_before_output": False})
                res["back"] = obs2
            return res
        import c12_inproc
        if case["engine"] == "calcorder":
            return c12_inproc.run_calcorder(case)
        return c12_inproc.run_inproc(case)
    finally:
        if case["engine"] in EXTERNAL:
            kill_strays(wd)
        shutil.rmtree(wd, ignore_errors=True)


# --------------------------------------------------------------------------- model requests


def enc_list(xs):
    return ",".join(xs) if xs else "-"


def quantiser(values):
    k = scale_for(values)
    sc = 2 ** k

    def q(x):
        if math.isinf(x) or abs(x) >= 1e8:
            return str(int(math.copysign(10 ** 40, x)) * sc)
        v = frac(x) * sc
        if v.denominator != 1:      # an implementation value outside the table's grid: cannot match the model
            return f"{v.numerator}/{v.denominator}"
        return str(v.numerator)
    return q


def model_inputs(case, orderf):
    """Everything the model needs for an EXTERNAL engine case."""
    frames = analytic(case, n_written(case))
    ent, btag = order_table(case["engine"], frames, orderf)
    left, right = case["interfaces"]
    q = quantiser(list(ent.values()) + [left, right])
    rv = bool(case.get("reverse", False))
    traj = [f"{i}:{i + 1}:{btag[i]}" for i in range(len(frames))]
    ordt = [f"{p}:{v}:{b}:{q(o)}" for (p, v, b), o in ent.items()]
    own = [ent[(k, (-(k + 1) if rv else (k + 1)), btag[k])] for k in range(len(frames))]
    return {"traj": traj, "ord": ordt, "q": q, "frames": frames, "btag": btag,
            "left": q(left), "right": q(right), "rv": int(rv), "entries": ent, "own": own}


def visible_reads(case):
    """Arrival schedule as the extracted model wants it (sync mode only)."""
    eng = case["engine"]
    sched = case.get("schedule", [])
    n = n_written(case)
    fin = _final_amounts(case)
    if eng == "lammps":
        return [f"{min(int(e[0]) // 2, n)}:1" for e in sched] + [f"{fin[0]}:0"]
    if eng == "cp2k":
        # what a poll can use of a file = its complete frames (frames_in: in the byte-unit scenarios a
        # frame counts only when the newline ending its last line has been flushed)
        return [f"{min(frames_in(case, e[0]), n)}:{min(frames_in(case, e[1]), n)}:1" for e in sched] + [f"{fin[0]}:{fin[1]}:0"]
    raise ValueError(eng)


def gmx_epochs(case):
    """(hsz, dsz, head0, final size, [size per epoch]) for the GROMACS model: the TRR file
    becomes visible in units of half frames (2k = k frames, 2k+1 = k frames + the header and
    half of the data block of the next)."""
    n = n_written(case)
    hsz, dsz = trr_sizes(len(case["pos"]))
    fsz = hsz + dsz

    full = case["maxlen"] + 1 if case.get("frames") is None else case["frames"]

    def size(half):
        k, odd = divmod(int(half), 2)
        k = min(k, full)
        s = k * fsz
        if odd and k < full:
            s += hsz + dsz // 2
        return s
    eps = [size(e[0]) for e in case.get("schedule", [])]
    fin = n * fsz if case.get("write_rest", True) else (eps[-1] if eps else 0)
    return hsz, dsz, TRR_HEAD0, fin, eps


def return_code(case):
    """What the engine's Popen.returncode / poll() reports when the program has ended BY ITSELF:
    the exit status, or -N when the program was killed by signal N (case["exit_signal"]: SIGKILL
    from the OOM killer or a batch system, SIGSEGV, a SIGTERM the engine did not send).  Behind a
    launcher script the engine's child is the shell, which exits with status 128 + N."""
    sig = case.get("exit_signal")
    if sig:
        return 128 + int(sig) if case.get("launcher") else -int(sig)
    return int(case.get("exit_code", 0))


def dead_at_start(case):
    return bool(case.get("die_before_output", False)) or not case.get("schedule")


def model_request(case, mi, fx=1, fix2=1, fix3=1, fix14=1, strict=1):
    """Request line for the extracted model.  `code` is the SIGNED return code (return_code),
    `strict` the failure test applied to it (PollM.exit_failed: 1 = `!= 0`, the code of /repo)."""
    eng = case["engine"]
    head = f"{mi['rv']} {mi['left']} {mi['right']} {case['maxlen']}"
    traj, ordt = enc_list(mi["traj"]), enc_list(mi["ord"])
    code = return_code(case)
    dead = int(dead_at_start(case))
    if eng == "lammps":
        return f"lammps {fx} {fix2} {head} {code} {strict} {dead} {traj} {ordt} {enc_list(visible_reads(case))}"
    if eng == "cp2k":
        return f"cp2k {fx} {head} {code} {strict} {dead} 0 {traj} {ordt} {enc_list(visible_reads(case))}"
    if eng == "gromacs":
        hsz, dsz, head0, fin, eps = gmx_epochs(case)
        return (f"gromacs {fx} {fix3} {fix14} {head} {code} {strict} {dead} {hsz} {dsz} {head0} {fin} {traj} {ordt} "
                f"{enc_list([str(x) for x in eps])}")
    raise ValueError(eng)


def spec_request(case, mi, fx=1):
    head = f"{mi['rv']} {mi['left']} {mi['right']} {case['maxlen']}"
    return f"spec {fx} {head} {enc_list(mi['traj'])} {enc_list(mi['ord'])}"


def canon_impl(obs, q):
    """Implementation outcome in the model's answer format."""
    fr = obs["frames"]
    path = enc_list([f"{q(f['order'])}:{f['idx']}:{int(f['vel_rev'])}" for f in fr])
    if obs.get("hang"):
        return f"HANG 0 {path}"
    if obs["raised"] is not None:
        kind = "IDXERR" if obs["raised"].startswith("IndexError") else "RAISE"
        return f"{kind} 0 {path}" if kind == "RAISE" else "IDXERR 0 -"
    if obs["status"].startswith("propagating with"):
        return f"TRUNC 0 {path}"
    return f"RET {int(obs['success'])} {path}"


def canon_model(ans):
    """Drop the process-state token (compared separately)."""
    t = ans.split()
    if t[0] == "IDXERR":
        return "IDXERR 0 -", "-"
    if t[0] == "ERR":
        return ans, "-"
    return f"{t[0]} {t[1]} {t[3]}", t[2]
