"""Harness of the C12 check: runs the REAL engine classes of /repo against the fake MD
programs (py/plugins/fake_*.py) or in-process, under a controlled arrival schedule.

Everything a case needs is in a plain dict (JSON-able: it is the replay).  `run_case(case)`
is executed in a freshly forked child (sysharness.run_many) and returns a plain dict with what
the implementation did; `analytic(case)` computes, independently of the engine classes, the
trajectory the fake program writes; `model_request(case, ...)` builds the request line for
the extracted Coq model (bin/c12).

Synchronisation (mode "sync"): the module-level name `sleep` of the engine module is replaced
by `SyncSleep`; every engine sleep lets the fake program advance exactly one schedule entry
and returns when the fake has acknowledged it (or has exited and is a zombie), so file
contents and the program's life change ONLY inside engine sleeps and a run is a deterministic
function of the schedule.  Mode "async": nothing is replaced except the sleep length.
"""
from __future__ import annotations

import importlib.util  # noqa: F401
import json
import math
import os
import shutil
import struct
import sys
import time
from fractions import Fraction
from types import SimpleNamespace

HERE = os.path.dirname(os.path.abspath(__file__))
PLUG = os.path.join(HERE, "plugins")
PY = "/venv/bin/python "
FAKE = {"lammps": PY + os.path.join(PLUG, "fake_lmp.py"), "cp2k": PY + os.path.join(PLUG, "fake_cp2k.py"),
        "gromacs": PY + os.path.join(PLUG, "fake_gmx.py")}


class HarnessError(Exception):
    pass


# --------------------------------------------------------------------------- hand-shake


class SyncSleep:
    """Replacement of `time.sleep` inside an engine module."""

    def __init__(self, ctl_dir):
        self.dir = ctl_dir
        self.n = 0
        self.pid = None
        self.gone = False

    def _read(self, name):
        try:
            with open(os.path.join(self.dir, name)) as f:
                return f.read().strip()
        except OSError:
            return None

    def _state(self):
        """'Z' zombie / 'X' gone / other = running."""
        if self.pid is None:
            p = self._read("pid")
            if not p:
                return "?"
            self.pid = int(p)
        try:
            with open(f"/proc/{self.pid}/stat") as f:
                s = f.read()
            return s[s.rindex(")") + 2]
        except (OSError, ValueError):
            return "X"

    def __call__(self, dt=0.0):
        self.n += 1
        if self.gone:
            return
        tmp = os.path.join(self.dir, ".go")
        with open(tmp, "w") as f:
            f.write(str(self.n))
        os.replace(tmp, os.path.join(self.dir, "go"))
        t0 = time.time()
        while True:
            a = self._read("ack")
            st = self._state()
            if st in "ZX":
                self.gone = True
                return
            if a == "exit":
                # the fake is on its way out: wait until the exit is observable
                while self._state() not in "ZX":
                    time.sleep(0.0003)
                    if time.time() - t0 > 60:
                        raise HarnessError("fake program announced exit but does not die")
                self.gone = True
                return
            if a is not None and a.isdigit() and int(a) >= self.n:
                return
            time.sleep(0.0003)
            if time.time() - t0 > 60:
                raise HarnessError(f"fake program did not acknowledge step {self.n} (state {st})")


def children():
    """(pid, state) of every process whose parent is this process."""
    me = os.getpid()
    out = []
    for d in os.listdir("/proc"):
        if not d.isdigit():
            continue
        try:
            with open(f"/proc/{d}/stat") as f:
                s = f.read()
            rest = s[s.rindex(")") + 2:].split()
            if int(rest[1]) == me:
                out.append((int(d), rest[0]))
        except (OSError, ValueError, IndexError):
            pass
    return out


# --------------------------------------------------------------------------- numbers


def frac(x):
    return Fraction(*float(x).as_integer_ratio())


def scale_for(values):
    """Smallest power of two making every value an integer."""
    k = 0
    for v in values:
        if v is None or math.isinf(v):
            continue
        d = frac(v).denominator
        k = max(k, d.bit_length() - 1)
    return k


# --------------------------------------------------------------------------- order parameters


def make_order(spec):
    """spec = {"class": "Position"|"Distance"|"Velocity"|"LinOrder", ...}"""
    from infretis.classes.orderparameter import Distance, Position, Velocity
    c = spec["class"]
    if c == "Position":
        return Position(tuple(spec["index"]), periodic=False)
    if c == "Distance":
        return Distance(tuple(spec["index"]), periodic=spec.get("periodic", True))
    if c == "Velocity":
        return Velocity(spec["index"], spec.get("dim", "x"))
    if c == "LinOrder":
        sys.path.insert(0, PLUG)
        from c12_plugins import LinOrder
        return LinOrder(spec.get("wx", 1.0), spec.get("wv", 0.0), spec.get("wb", 0.0), spec.get("bidx", 0))
    raise ValueError(c)


def order_value(orderf, pos, vel, box):
    import numpy as np
    s = SimpleNamespace(pos=np.array(pos, dtype=float), vel=np.array(vel, dtype=float),
                        box=None if box is None else np.array(box, dtype=float))
    return float(orderf.calculate(s)[0])


# --------------------------------------------------------------------------- analytic trajectory


def analytic(case):
    """Frames (pos, vel, box_numbers) the fake writes when never stopped: the free flight of
    plugins/fakemd.py recomputed here (kept textually separate on purpose)."""
    sub, dt = case["subcycles"], case["timestep"]
    n = case["maxlen"] + 1
    rate = list(case.get("box_rate") or []) + [0.0] * len(case["box"])
    out = []
    for k in range(n):
        t = k * sub
        pos = [[x + v * dt * t for x, v in zip(p, vv)] for p, vv in zip(case["pos"], case["vel"])]
        box = [b + r * t for b, r in zip(case["box"], rate)]
        out.append((pos, [list(v) for v in case["vel"]], box))
    return out


def seen_by_order(engine, pos, vel, boxnums):
    """What the order parameter is given for a frame with these positions/velocities when the
    box numbers `boxnums` (the engine's file representation) are used: (pos, vel, box)."""
    if engine == "lammps":
        ncol = len(boxnums) // 3
        lo = [boxnums[ncol * i] for i in range(3)]
        hi = [boxnums[ncol * i + 1] for i in range(3)]
        return [[x - l for x, l in zip(p, lo)] for p in pos], vel, [h - l for h, l in zip(hi, lo)]
    if engine == "gromacs":
        b = list(boxnums)
        if len(b) == 3:
            b = b + [0.0] * 6      # box_matrix_to_list(matrix, full=True)
        return pos, vel, b
    return pos, vel, list(boxnums) if boxnums is not None else None


def order_table(case, frames, orderf):
    """ord(p=k, v=+-(k+1), b=j) for every frame k, both velocity signs, every box j that can be
    paired with it.  Returns (entries {(p,v,b): float}, box tags per frame)."""
    eng = case["engine"]
    # distinct boxes -> tags
    tags, btag = {}, []
    for _, _, b in frames:
        key = tuple(b)
        tags.setdefault(key, len(tags))
        btag.append(tags[key])
    boxes = {v: list(k) for k, v in tags.items()}
    if eng == "cp2k":
        # the engine uses the box of the initial configuration throughout
        boxes = {0: list(frames[0][2])}
        btag = [0] * len(frames)
    ent = {}
    for k, (pos, vel, _) in enumerate(frames):
        for sgn in (1, -1):
            v = [[sgn * x for x in vv] for vv in vel]
            for j, bn in boxes.items():
                p2, v2, b2 = seen_by_order(eng, pos, v, bn)
                ent[(k, sgn * (k + 1), j)] = order_value(orderf, p2, v2, b2)
    return ent, btag


# --------------------------------------------------------------------------- input files


LAMMPS_INPUT = """variable subcycles index infretis_subcycles
variable timestep index infretis_timestep
variable nsteps index infretis_nsteps
variable initconf index infretis_initconf
variable name index infretis_name
variable lammpsdata index infretis_lammpsdata
variable temperature index infretis_temperature
variable seed index infretis_seed
units real
atom_style full
read_data ${lammpsdata}
read_dump ${initconf} 0 x y z vx vy vz box yes
fix 1 all nve
thermo ${subcycles}
thermo_style custom step ke pe etotal temp
dump 1 all custom ${subcycles} ${name}.lammpstrj id type x y z vx vy vz id
timestep ${timestep}
run ${nsteps}
"""


def write_lammps_inputs(d, natoms):
    os.makedirs(d, exist_ok=True)
    with open(os.path.join(d, "lammps.input"), "w") as f:
        f.write(LAMMPS_INPUT)
    with open(os.path.join(d, "lammps.data"), "w") as f:
        f.write(f"Title\n\n{natoms} atoms\n0 bonds\n\n1 atom types\n0 bond types\n0 30 xlo xhi\n0 30 ylo yhi\n0 30 zlo zhi\n\n"
                "Masses\n\n1\t1.0\n\nAtoms\n\n")
        for i in range(natoms):
            f.write(f"{i + 1}\t1\t1 0.000\t{float(i)} 0.000 0.000\n")


def write_lammpstrj(fn, pos, vel, boxnums, ncols_atoms=8):
    ncol = len(boxnums) // 3
    hdr = "ITEM: BOX BOUNDS pp pp pp" if ncol == 2 else "ITEM: BOX BOUNDS xy xz yz pp pp pp"
    with open(fn, "w") as f:
        f.write(f"ITEM: TIMESTEP\n0\nITEM: NUMBER OF ATOMS\n{len(pos)}\n{hdr}\n")
        for i in range(3):
            f.write(" ".join(repr(float(x)) for x in boxnums[ncol * i:ncol * (i + 1)]) + "\n")
        f.write("ITEM: ATOMS id type x y z vx vy vz\n")
        for i, (p, v) in enumerate(zip(pos, vel)):
            f.write(f"{i + 1} 1 " + " ".join(repr(float(x)) for x in p) + " " + " ".join(repr(float(x)) for x in v) + "\n")


# --------------------------------------------------------------------------- running a case


def _engine_module(name):
    import infretis.classes.engines.cp2k as m_cp2k
    import infretis.classes.engines.gromacs as m_gmx
    import infretis.classes.engines.lammps as m_lmp
    return {"lammps": m_lmp, "cp2k": m_cp2k, "gromacs": m_gmx}[name]


def make_engine(case, wd):
    """Build the real engine object for the case; returns (engine, initial config file)."""
    import numpy as np
    eng = case["engine"]
    inp = os.path.join(wd, "input")
    exe = os.path.join(wd, "exe")
    os.makedirs(exe, exist_ok=True)
    natoms = len(case["pos"])
    if eng == "lammps":
        from infretis.classes.engines.lammps import LAMMPSEngine
        write_lammps_inputs(inp, natoms)
        e = LAMMPSEngine(FAKE["lammps"], inp, case["timestep"], case["subcycles"], 300.0,
                         atom_style="full", sleep=case.get("sleep", 0.1))
        conf = os.path.join(wd, "start.lammpstrj")
        write_lammpstrj(conf, case["pos"], case["vel"], case["box"])
        e.set_mdrun({"exe_dir": exe})
    elif eng == "cp2k":
        from c12_harness_ext import make_cp2k
        e, conf = make_cp2k(case, wd, inp, exe)
    elif eng == "gromacs":
        from c12_harness_ext import make_gromacs
        e, conf = make_gromacs(case, wd, inp, exe)
    else:
        raise ValueError(eng)
    e.rgen = np.random.default_rng(0)
    e.order_function = make_order(case["order"])
    return e, conf


def write_ctl(case, wd, tag, box_rate=None, schedule=None, frames=None, exit_code=None):
    d = os.path.join(wd, f"ctl_{tag}")
    os.makedirs(d, exist_ok=True)
    cfg = {
        "dir": d, "mode": case.get("mode", "sync"),
        "schedule": case.get("schedule", []) if schedule is None else schedule,
        "frames": case.get("frames") if frames is None else frames,
        "exit_code": case.get("exit_code", 0) if exit_code is None else exit_code,
        "box_rate": case.get("box_rate") if box_rate is None else box_rate,
        "cut": case.get("cut", "line"), "shuffle_ids": case.get("shuffle_ids", False),
        "delay": case.get("delay", 0.003), "die_before_output": case.get("die_before_output", False),
        "precision": case.get("precision", "double"), "endian": case.get("endian", ">"),
    }
    p = os.path.join(d, "ctl.json")
    with open(p, "w") as f:
        json.dump(cfg, f)
    os.environ["FAKEMD_CTL"] = p
    return d


def read_frame_back(engine, config, exe, tag):
    """(pos, vel, box) of a stored frame as the engine itself reads it, and the order parameter
    recomputed by the engine's own calculate_order from that frame only."""
    from infretis.classes.system import System
    out = engine.dump_config(tuple(config), deffnm=f"chk_{tag}")
    pos, vel, box, _ = engine._read_configuration(out)
    return out, pos, vel, box


def recompute_order(engine, conf_file, vel_rev):
    from infretis.classes.system import System
    s = System()
    s.config = (conf_file, 0)
    s.vel_rev = bool(vel_rev)
    return float(engine.calculate_order(s)[0])


def propagate_once(engine, case, wd, conf, idx, vel_rev_in, reverse, tag, ctl_kwargs=None, order_in=None):
    """One call of the real `propagate`; returns the observation dict and the Path."""
    from infretis.classes.path import Path
    from infretis.classes.system import System
    mod = _engine_module(case["engine"])
    ctl_dir = write_ctl(case, wd, tag, **(ctl_kwargs or {}))
    sync = None
    old_sleep = mod.sleep
    if case.get("mode", "sync") == "sync":
        sync = SyncSleep(ctl_dir)
        mod.sleep = sync
    elif case["engine"] == "gromacs":
        mod.GromacsRunner.SLEEP = case.get("sleep", 0.01)
    system = System()
    system.config = (conf, idx)
    system.vel_rev = bool(vel_rev_in)
    if order_in is not None:
        system.order = [order_in]
    path = Path(maxlen=case["maxlen"])
    left, right = case["interfaces"]
    ens = {"ens_name": "001", "interfaces": [left, None, right]}
    obs = {"raised": None, "success": None, "status": None}
    try:
        ok, status = engine.propagate(path, ens, system, reverse=reverse)
        obs["success"], obs["status"] = bool(ok), str(status)
    except HarnessError:
        raise
    except BaseException as e:  # noqa: BLE001
        obs["raised"] = f"{type(e).__name__}: {e}"[:300]
    finally:
        mod.sleep = old_sleep
    kids = children()
    obs["children"] = kids
    obs["children_alive"] = [k for k in kids if k[1] not in "ZX"]
    obs["sigterm"] = os.path.exists(os.path.join(ctl_dir, "sigterm"))
    obs["nsleeps"] = sync.n if sync else None
    # reap whatever is left so that later propagations start clean
    for pid, _ in kids:
        try:
            os.kill(pid, 9)
        except OSError:
            pass
        try:
            os.waitpid(pid, 0)
        except OSError:
            pass
    exe = engine.exe_dir
    frames = []
    for k, pp in enumerate(path.phasepoints):
        fr = {"order": float(pp.order[0]), "file": os.path.basename(pp.config[0]), "idx": pp.config[1],
              "vel_rev": bool(pp.vel_rev), "norder": len(pp.order)}
        try:
            out, pos, vel, box = read_frame_back(engine, pp.config, exe, f"{tag}_{k}")
            fr["recomputed"] = recompute_order(engine, out, pp.vel_rev)
            fr["pos"] = [[float(x) for x in r] for r in pos]
            fr["vel"] = [[float(x) for x in r] for r in vel]
            fr["box"] = None if box is None else [float(x) for x in box]
        except BaseException as e:  # noqa: BLE001
            fr["recompute_error"] = f"{type(e).__name__}: {e}"[:200]
        frames.append(fr)
    obs["frames"] = frames
    obs["trajfiles"] = sorted({f["file"] for f in frames})
    return obs, path


def run_case(case):
    """Forked-child entry: forward (or requested-direction) propagation, optionally followed by
    a backward propagation from frame `back_from` of the path just produced."""
    wd = case["wd"]
    os.makedirs(wd, exist_ok=True)
    sys.path.insert(0, HERE)
    try:
        if case["engine"] in ("lammps", "cp2k", "gromacs"):
            engine, conf = make_engine(case, wd)
            res = {}
            obs, path = propagate_once(engine, case, wd, conf, 0, case.get("vel_rev_in", False),
                                       case.get("reverse", False), "a")
            res["main"] = obs
            j = case.get("back_from")
            if j is not None and obs["raised"] is None and j < len(path.phasepoints):
                pp = path.phasepoints[j]
                rate = [-r for r in (case.get("box_rate") or [])]
                bcase = dict(case)
                bcase["maxlen"] = case.get("back_maxlen", j + 3)
                bcase["interfaces"] = case.get("back_interfaces", [-1e9, 1e9])
                engine2 = engine
                obs2, _ = propagate_once(engine2, bcase, wd, pp.config[0], pp.config[1], pp.vel_rev,
                                         not pp.vel_rev, "b",
                                         ctl_kwargs={"box_rate": rate, "schedule": case.get("back_schedule", [[2 * (j + 4)] * 2]),
                                                     "frames": None, "exit_code": 0})
                res["back"] = obs2
            return res
        from c12_harness_ext import run_inproc
        return run_inproc(case)
    finally:
        shutil.rmtree(wd, ignore_errors=True)


# --------------------------------------------------------------------------- model requests


def enc_list(xs):
    return ",".join(xs) if xs else "-"


def model_inputs(case, orderf):
    """(traj tokens, ord table tokens, scale exponent, frames, box tags, entries)"""
    frames = analytic(case)
    ent, btag = order_table(case, frames, orderf)
    left, right = case["interfaces"]
    k = scale_for(list(ent.values()) + [left, right])
    sc = 2 ** k

    def q(x):
        if math.isinf(x) or abs(x) >= 1e8:
            return str(int(math.copysign(10 ** 30, x)))
        v = frac(x) * sc
        assert v.denominator == 1
        return str(v.numerator)

    rv = bool(case.get("reverse", False))
    traj = [f"{i}:{i + 1}:{btag[i]}" for i in range(len(frames))]
    ordt = [f"{p}:{v}:{b}:{q(o)}" for (p, v, b), o in ent.items()]
    return {"traj": traj, "ord": ordt, "scale": sc, "q": q, "frames": frames, "btag": btag,
            "left": q(left), "right": q(right), "rv": int(rv), "entries": ent}


def visible_reads(case):
    """Arrival schedule as the extracted model wants it (sync mode only)."""
    eng = case["engine"]
    sched = case.get("schedule", [])
    total = case.get("frames")
    n = case["maxlen"] + 1 if total is None else total
    if eng == "lammps":
        reads = [f"{min(int(e[0]) // 2, n)}:1" for e in sched] + [f"{n}:0"]
        return reads
    if eng == "cp2k":
        return [f"{min(int(e[0]) // 2, n)}:{min(int(e[1]) // 2, n)}:1" for e in sched] + [f"{n}:{n}:0"]
    raise ValueError(eng)


def canon_impl(obs, q):
    """Implementation outcome in the model's answer format."""
    fr = obs["frames"]
    path = enc_list([f"{q(f['order'])}:{f['idx']}:{int(f['vel_rev'])}" for f in fr])
    if obs["raised"] is not None:
        kind = "IDXERR" if obs["raised"].startswith("IndexError") else "RAISE"
        return f"{kind} 0 {path}"
    if obs["status"].startswith("propagating with"):
        return f"TRUNC 0 {path}"
    return f"RET {int(obs['success'])} {path}"


def canon_model(ans):
    """Drop the process-state token (compared separately)."""
    t = ans.split()
    if t[0] == "IDXERR":
        return "IDXERR 0 -", "-"
    return f"{t[0]} {t[1]} {t[3]}", t[2]
