"""Regenerate /verif/MANIFEST.json from the META dictionaries of py/checks/cXX.py."""
import importlib
import json
import os

import common

NOT_BUILT_REASON = "no check registered yet in this revision (planned in DESIGN.md section 4); nothing is claimed for it"


def main():
    props = [json.loads(l) for l in open(os.path.join(common.VERIF, "properties.jsonl"))]
    d = os.path.join(common.VERIF, "py", "checks")
    have = sorted(f[:-3] for f in os.listdir(d) if f.startswith("c") and f.endswith(".py") and f[1:-3].isdigit())
    # only checks that are under version control are registered (work in progress is not claimed)
    import subprocess
    tracked = subprocess.run(["git", "-C", common.VERIF, "ls-files", "py/checks"], capture_output=True, text=True).stdout.split()
    tracked = {os.path.basename(t)[:-3] for t in tracked}
    have = [h for h in have if h in tracked]
    # ... and that the main thread has accepted as finished (registered.json)
    reg_path = os.path.join(common.VERIF, "registered.json")
    registered = set(json.load(open(reg_path))) if os.path.exists(reg_path) else set()
    have = [h for h in have if h.upper() in registered]
    checks, claimed = [], set()
    for m in have:
        mod = importlib.import_module(f"checks.{m}")
        meta = mod.META
        if meta.get("claim", True) is False:
            continue
        cid = meta["id"]
        claimed.add(cid)
        checks.append({
            "property_id": cid,
            "quick_cmd": f"./vcheck {cid} --tier quick",
            "thorough_cmd": f"./vcheck {cid} --tier thorough",
            "evidence_file": f"/verif/evidence/{cid}.json",
            "replay_cmd_template": f"./vcheck {cid} --replay {{path}}",
            "engine": "coq+correspondence",
            "level_claimed": {"category": meta["level"], "text": meta["text"], "design_ref": meta.get("design_ref", "")},
            "level_note": meta["note"],
            "technique": meta["technique"],
        })
    na_path = os.path.join(common.VERIF, "not_applicable.json")
    na_reasons = json.load(open(na_path)) if os.path.exists(na_path) else {}
    na = []
    for p in props:
        if p["id"] not in claimed:
            na.append({"property_id": p["id"], "reason": na_reasons.get(p["id"], NOT_BUILT_REASON)})
    hooks_path = os.path.join(common.VERIF, "hooks.json")
    hooks = json.load(open(hooks_path)) if os.path.exists(hooks_path) else {}
    man = {
        "version": 1,
        "setup_cmd": "./vcheck --setup",
        "hooks": {
            "guard": "INFRETIS_VERIF",
            "enable": "export INFRETIS_VERIF=1 (set by ./vcheck); no build step, the package is imported from /repo's working tree",
            "baseline_off_cmd": "cd /repo && env -u INFRETIS_VERIF /venv/bin/python -m pytest -ra -q -p no:cacheprovider --timeout=900 --continue-on-collection-errors",
            "source_commits": hooks.get("source_commits", []),
            "add_only": True,
        },
        "engines": [{
            "name": "coq+correspondence", "path": "/verif/coq + /verif/py",
            "serves_properties": sorted(claimed),
            "kind_free_text": "Coq 8.16.1 development (hand-written executable Gallina models, theorems, Print Assumptions audit) tied to /repo on every run by a correspondence check: the extracted OCaml model and the real infretis code run on the same inputs/histories; parameter extraction regenerates coq/gen/*.v from the sources",
        }],
        "checks": checks,
        "not_applicable": na,
        "notes": "All checks rebuild from /repo's working tree (the package is imported from it; coq/gen/*.v regenerated). See DESIGN.md.",
    }
    with open(os.path.join(common.VERIF, "MANIFEST.json"), "w") as f:
        json.dump(man, f, indent=1)
    print(f"manifest: {len(checks)} checks, {len(na)} not claimed")
    return 0
