"""Parameter extraction: regenerate coq/gen/*.v from /repo's current sources.

A small fail-closed reader over Python ASTs: numeric constants and format strings that
theorems depend on are copied from the source into Gallina definitions, so editing one of
them re-opens the proof obligation (DESIGN.md 2.1).  Each extractor returns the text of one
generated file; a source that no longer has the expected shape raises, and the generated
file then contains a definition that makes the dependent theorem fail to compile
(`extraction_failed`), which the check reports as a broken obligation.
"""
import ast
import os

import common

GEN = os.path.join(common.COQ, "gen")

EXTRACTORS = {}


def extractor(name):
    def deco(f):
        EXTRACTORS[name] = f
        return f
    return deco


def src(rel):
    with open(os.path.join(common.REPO, rel)) as f:
        return f.read()


def find_func(tree, name, cls=None):
    for node in ast.walk(tree):
        if cls and isinstance(node, ast.ClassDef) and node.name == cls:
            for sub in node.body:
                if isinstance(sub, ast.FunctionDef) and sub.name == name:
                    return sub
        if not cls and isinstance(node, ast.FunctionDef) and node.name == name:
            return node
    raise ValueError(f"function {cls}.{name} not found")


def regenerate_all():
    os.makedirs(GEN, exist_ok=True)
    for name, f in sorted(EXTRACTORS.items()):
        try:
            txt = f()
        except Exception as e:  # fail closed
            txt = (f"(* parameter extraction FAILED: {e!r} *)\n"
                   "Definition extraction_failed : True := I.\n")
        p = os.path.join(GEN, name + ".v")
        old = open(p).read() if os.path.exists(p) else None
        if old != txt:
            with open(p, "w") as fh:
                fh.write(txt)


# individual extractors are registered by importing every py/params_c*.py module
for _f in sorted(os.listdir(os.path.dirname(os.path.abspath(__file__)))):
    if _f.startswith("params_c") and _f.endswith(".py"):
        __import__(_f[:-3])
