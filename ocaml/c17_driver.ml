(* driver for the scheduler / task-runner model (C17)
   sched <c0> <T> <W> <choices ','>      -> completed|submitted|cstep|pending|restart_cstep|restart_locked  or NONE
   prefix <c0> <T> <W> <n> <choices ','>  -> same fields, for the run stopped after n consumed results
   runner <w> <ev> <ev> ...               ev = S | T<w> | R<w>:<v> | E<w>:<v> | D | X
        -> ACCEPT executed|delivered|queue|quiescent   or REJECT@<i> *)
let s_nats l = string_of_list string_of_nat l
let s_out = function Res v -> "R" ^ string_of_nat v | Exc v -> "E" ^ string_of_nat v

let parse_ev s =
  match s.[0] with
  | 'S' -> ESubmit
  | 'D' -> EDeliver
  | 'X' -> EStop
  | 'T' -> ETake (nat_of_string (String.sub s 1 (String.length s - 1)))
  | 'R' | 'E' ->
    (match String.split_on_char ':' (String.sub s 1 (String.length s - 1)) with
     | [w; v] -> EFinish (nat_of_string w, (if s.[0] = 'R' then Res (nat_of_string v) else Exc (nat_of_string v)))
     | _ -> failwith "bad finish")
  | _ -> failwith ("bad event " ^ s)

let handle toks =
  match toks with
  | [("sched" | "sched0") as cmd; c0; t; w; ch] ->
    (match scheduler_g (cmd = "sched") (nat_of_string c0) (nat_of_string t) (nat_of_string w) (list_of_string nat_of_string ch) with
     | None -> "NONE"
     | Some s -> String.concat "|" [ s_nats s.completed; string_of_nat s.submitted; string_of_nat s.cstep;
                                     s_nats s.pending; string_of_nat s.restart_cstep; s_nats s.restart_locked ])
  | ["prefix"; c0; t; w; n; ch] ->
    (* the state after the start-up phase and the first n iterations of the main loop (SchedCrashP.main_prefix) *)
    let w' = nat_of_string w in
    (match init_phase (nat_of_string (string_of_int (int_of_string w + 2))) (start (nat_of_string c0) (nat_of_string t) w') with
     | None -> "NONE"
     | Some s0 ->
       let s = main_prefix (nat_of_string n) s0 (list_of_string nat_of_string ch) in
       String.concat "|" [ s_nats s.completed; string_of_nat s.submitted; string_of_nat s.cstep;
                           s_nats s.pending; string_of_nat s.restart_cstep; s_nats s.restart_locked ])
  | "runner" :: w :: evs ->
    let rec go r i = function
      | [] -> "ACCEPT " ^ String.concat "|" [
          string_of_list (fun (u, w) -> string_of_nat u ^ ">" ^ string_of_nat w) r.executed;
          string_of_list (fun (u, o) -> string_of_nat u ^ "=" ^ s_out o) r.delivered;
          s_nats r.queue; string_of_bool_ (quiescent r) ]
      | e :: rest -> (match rstep r (parse_ev e) with
          | None -> "REJECT@" ^ string_of_int i
          | Some r' -> go r' (i + 1) rest) in
    go (runner_init (nat_of_string w)) 0 evs
  | _ -> "ERR bad command"

let () = main_loop handle
