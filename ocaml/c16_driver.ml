(* driver for the C16 (velocity regeneration) correspondence runner.
   Encodings: rational "num/den"; list "a,b,c" ("-" = empty); columns "c1;c2;c3";
   option "N" or the value; engine cp2k|gromacs|lammps|turtle|ase.
   "file": VelM.modify_file_stream (optional velocity / box entries of the source file).
   "seq": VelM.seq_results -- several calls in one exe_dir; files "file!file", file "frame|frame",
   frame "pos@vel@box", calls "call|call", call "fileno~idx~ekin~stream". *)
let engine_of_string = function
  | "cp2k" -> Cp2k | "gromacs" -> Gromacs | "lammps" -> Lammps | "turtle" -> Turtle | "ase" -> Ase
  | s -> failwith ("bad engine " ^ s)
let qlist s = list_of_string q_of_string s
let cols_of_string s = if s = "-" || s = "" then [] else List.map qlist (String.split_on_char ';' s)
let string_of_qlist l = string_of_list string_of_q l
let string_of_cols c = if c = [] then "-" else String.concat ";" (List.map string_of_qlist c)
let opt_of_string f s = if s = "N" then None else Some (f s)
let frame_of pos vel box ids =
  { f_pos = cols_of_string pos; f_vel = cols_of_string vel; f_box = qlist box;
    f_ids = list_of_string z_of_string ids }
let string_of_result (r, rest) =
  String.concat " "
    [ string_of_cols r.r_frame.f_vel; string_of_q r.r_kin_new;
      (match r.r_dek with None -> "INF" | Some d -> string_of_q d);
      string_of_option string_of_q r.r_kin_old;
      string_of_cols r.r_frame.f_pos; string_of_qlist r.r_frame.f_box;
      string_of_list string_of_z r.r_frame.f_ids; string_of_int (List.length rest) ]

let string_of_result_norest r =
  String.concat " "
    [ string_of_cols r.r_frame.f_vel; string_of_q r.r_kin_new;
      (match r.r_dek with None -> "INF" | Some d -> string_of_q d);
      string_of_option string_of_q r.r_kin_old;
      string_of_cols r.r_frame.f_pos; string_of_qlist r.r_frame.f_box;
      string_of_list string_of_z r.r_frame.f_ids ]

let handle toks =
  match toks with
  | ["seq"; e; ov; fx; zm; mass; ids; sg; files; calls] ->
    (* several modify_velocities calls in ONE exe_dir without clean-up in between (VelM.modify_seq);
       ov = 1: extraction overwrites conf.<ext> (the rule), 0: it appends *)
    let frame_of_string s = match String.split_on_char '@' s with
      | [pos; vel; box] -> frame_of pos vel box ids | _ -> failwith "bad frame" in
    let fls = List.map (fun f -> List.map frame_of_string (String.split_on_char '|' f))
        (String.split_on_char '!' files) in
    let call_of_string s = match String.split_on_char '~' s with
      | [fno; idx; ek; st] -> (((z_of_string fno, nat_of_string idx), opt_of_string q_of_string ek), qlist st)
      | _ -> failwith "bad call" in
    let cs = List.map call_of_string (String.split_on_char '|' calls) in
    let zmo = opt_of_string bool_of_string_ zm in
    let mk = if e = "ase" then ase_call (bool_of_string_ fx) (qlist mass) zmo (qlist sg)
      else std_call (engine_of_string e) (qlist mass) zmo (qlist sg) in
    (match seq_results (bool_of_string_ ov) fls (List.map mk cs) with
     | None -> "NONE"
     | Some rs -> String.concat " # " (List.map string_of_result_norest rs))
  | ["std"; e; zm; ek; mass; pos; vel; box; ids; sg; stream] ->
    string_of_result
      (modify_std_stream (engine_of_string e) (qlist mass) (frame_of pos vel box ids)
         (opt_of_string q_of_string ek) (opt_of_string bool_of_string_ zm) (qlist sg) (qlist stream))
  | ["file"; e; special; zm; ek; dflt; mass; pos; velo; boxo; ids; sg; stream] ->
    (* file-level model: velocities and box of the source FILE are options ("N" = absent) *)
    string_of_result
      (modify_file_stream (engine_of_string e) (bool_of_string_ special) (qlist dflt) (qlist mass)
         { c_pos = cols_of_string pos; c_vel = opt_of_string cols_of_string velo;
           c_box = opt_of_string qlist boxo; c_ids = list_of_string z_of_string ids }
         (opt_of_string q_of_string ek) (opt_of_string bool_of_string_ zm) (qlist sg) (qlist stream))
  | ["ase"; fx; zm; mass; pos; vel; box; ids; sg; stream] ->
    string_of_result
      (modify_ase_stream (bool_of_string_ fx) (qlist mass) (frame_of pos vel box ids)
         (opt_of_string bool_of_string_ zm) (qlist sg) (qlist stream))
  | ["beta"; e; kbu; t] ->
    string_of_q (nq (beta_of (kb_engine (engine_of_string e) (q_of_string kbu)) (q_of_string t)))
  | ["kb"; e; kbu] -> string_of_q (kb_engine (engine_of_string e) (q_of_string kbu))
  | ["aselibkb"] -> string_of_q ase_lib_kB
  | ["usezm"; e; zm] -> string_of_bool_ (use_zm (engine_of_string e) (opt_of_string bool_of_string_ zm))
  | ["handed"; ka; km; vt; mv; s] ->
    (* call sites: settings "k:v,k:v" (interned integers); move "sh" | "wf:<usable 0/1>:<n_jumps>";
       answer: the dictionaries handed to modify_velocities, ";"-separated, or "KEYERROR" *)
    let pair x = match String.split_on_char ':' x with
      | [k; v] -> (z_of_string k, z_of_string v) | _ -> failwith "bad pair" in
    let st = if s = "-" then [] else List.map pair (String.split_on_char ',' s) in
    let move = match String.split_on_char ':' mv with
      | ["sh"] -> MShoot
      | ["wf"; u; n] -> MWireFencing (bool_of_string_ u, nat_of_string n)
      | _ -> failwith "bad move" in
    (match handed (z_of_string ka) (z_of_string km) (z_of_string vt) move st with
     | None -> "KEYERROR"
     | Some hs ->
       if hs = [] then "-" else
       String.concat ";" (List.map (fun h ->
         if h = [] then "-" else String.concat "," (List.map (fun (k, v) -> string_of_z k ^ ":" ^ string_of_z v) h)) hs))
  | _ -> "ERR bad command"

let () = main_loop handle
