(* driver for the C15 (path algebra) correspondence runner *)
let frame_of_string s =
  match String.split_on_char ':' s with
  | [o; t; r; i] -> { ford = z_of_string o; ftag = z_of_string t; frev = bool_of_string_ r; foid = nat_of_string i }
  | _ -> failwith ("bad frame " ^ s)
let string_of_frame f =
  String.concat ":" [string_of_z f.ford; string_of_z f.ftag; string_of_bool_ f.frev; string_of_nat f.foid]
let path_of_string s =
  match String.split_on_char '|' s with
  | [fs; ml; t0] -> { pts = list_of_string frame_of_string fs; maxlen = nat_of_string ml; torigin = z_of_string t0 }
  | _ -> failwith ("bad path " ^ s)
let string_of_path p =
  String.concat "|" [string_of_list string_of_frame p.pts; string_of_nat p.maxlen; string_of_z p.torigin]
(* paths whose limit is a number or N (= None, no limit): model/PathLimM.v *)
let limit_of_string s = if s = "N" then None else Some (nat_of_string s)
let string_of_limit = function None -> "N" | Some m -> string_of_nat m
let lpath_of_string s =
  match String.split_on_char '|' s with
  | [fs; ml; t0] -> { lpts = list_of_string frame_of_string fs; llimit = limit_of_string ml; lorigin = z_of_string t0 }
  | _ -> failwith ("bad path " ^ s)
let string_of_lpath p =
  String.concat "|" [string_of_list string_of_frame p.lpts; string_of_limit p.llimit; string_of_z p.lorigin]
(* the answer of a limit-aware operation: the path, then whether it accepts the probe frame *)
let with_probe r f = let (_, ok) = lappend r (frame_of_string f) in string_of_lpath r ^ " " ^ string_of_bool_ ok
let string_of_side = function SL -> "L" | SR -> "R" | SNone -> "?"
let string_of_ext = function None -> "N" | Some (v, i) -> string_of_z v ^ ":" ^ string_of_nat i

let handle toks =
  match toks with
  | ["paste"; b; f; ov; m] ->
    let ml = if m = "N" then None else Some (nat_of_string m) in
    string_of_path (paste (path_of_string b) (path_of_string f) (bool_of_string_ ov) ml)
  | ["reverse"; n; p; rv] -> string_of_path (reverse (nat_of_string n) (path_of_string p) (bool_of_string_ rv))
  | ["copy"; n; p] -> string_of_path (copy (nat_of_string n) (path_of_string p))
  | ["iadd"; n; p; o] -> string_of_path (iadd (nat_of_string n) (path_of_string p) (path_of_string o))
  | ["append"; p; f] ->
    let (q, ok) = append (path_of_string p) (frame_of_string f) in
    string_of_path q ^ " " ^ string_of_bool_ ok
  | ["lempty"; ml; t0; f] -> with_probe (lempty_path (limit_of_string ml) (z_of_string t0)) f
  | ["lreverse"; n; p; rv; f] -> with_probe (lreverse (nat_of_string n) (lpath_of_string p) (bool_of_string_ rv)) f
  | ["lcopy"; n; p; f] -> with_probe (lcopy (nat_of_string n) (lpath_of_string p)) f
  | ["lpaste"; b; fw; ov; m; f] ->
    (match lpaste (lpath_of_string b) (lpath_of_string fw) (bool_of_string_ ov) (limit_of_string m) with
     | None -> "TYPEERROR"
     | Some r -> with_probe r f)
  | ["ext"; p] -> let p = path_of_string p in string_of_ext (ordermin p) ^ " " ^ string_of_ext (ordermax p)
  | ["succ"; p; t] -> string_of_option string_of_bool_ (success (path_of_string p) (z_of_string t))
  | ["se"; p; l; r] ->
    let p = path_of_string p and l = z_of_string l and r = z_of_string r in
    string_of_option string_of_side (start_point p l r) ^ " " ^ string_of_option string_of_side (end_point p l r)
  | ["ci"; p; intf] ->
    (match check_interfaces (path_of_string p) (list_of_string z_of_string intf) with
     | None -> "NONE"
     | Some r ->
       String.concat " " [string_of_option string_of_side r.ci_start; string_of_option string_of_side r.ci_end;
                          string_of_bool_ r.ci_middle; string_of_list string_of_bool_ r.ci_cross])
  | _ -> "ERR bad command"

let () = main_loop handle
