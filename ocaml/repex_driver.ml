(* driver for the REPEX trace acceptor.
   request:  trace <W> <T> <L> <TN> <F> <op> <op> ...
     W  = rows ';'-separated, entries ','-separated integers
     T  = path numbers ','   L = locks 0/1 ','   TN = next path number
     F  = fracs  pn:q,q,q;pn:q,q,q   ('-' = none)
     op = P:i:j:k:pin (k = N for no zero swap) | L:cols:paths:pin | T:k:acc:rows:P
          rows / P = rows '+'-separated, entries ','-separated ('-' = empty)
   answer:   state after each op, ' # '-separated, or ... # REJECT@<index>   *)
let zrow s = list_of_string z_of_string s
let qrow s = list_of_string q_of_string s
let natl s = list_of_string nat_of_string s
let rows_of f sep s = if s = "-" || s = "" then [] else List.map f (String.split_on_char sep s)

let parse_fracs s =
  if s = "-" then [] else
  List.map (fun e -> match String.split_on_char ':' e with
      | [pn; v] -> (nat_of_string pn, qrow v) | _ -> failwith "bad frac") (String.split_on_char ';' s)

let parse_op s =
  match String.split_on_char ':' s with
  | ["P"; i; j; k; pin] ->
    OpPick ({ pk_i = nat_of_string i; pk_j = nat_of_string j;
              pk_zs = (if k = "N" then None else Some (nat_of_string k)) }, nat_of_string pin)
  | ["L"; cols; paths; pin] -> OpPickLock (natl cols, natl paths, nat_of_string pin)
  | ["T"; k; acc; rows; p] -> OpTreat (nat_of_string k, bool_of_string_ acc, rows_of zrow '+' rows, rows_of qrow '+' p)
  | _ -> failwith ("bad op " ^ s)

let s_nats l = string_of_list string_of_nat l
let s_job j = s_nats j.jcols ^ ">" ^ s_nats j.jpaths ^ ">" ^ string_of_nat j.jpin
let s_assoc l = if l = [] then "-" else
    String.concat ";" (List.map (fun (pn, v) -> string_of_nat pn ^ ":" ^ string_of_list string_of_q v) l)
let s_state f =
  let c = f.core in
  String.concat "|" [
    String.concat ";" (List.map (fun r -> string_of_list string_of_z r) c.w);
    s_nats c.trajs;
    string_of_list string_of_bool_ c.locks;
    (if c.locked = [] then "-" else String.concat ";" (List.map s_job c.locked));
    string_of_nat c.traj_num;
    s_assoc f.fracs; s_assoc f.data; string_of_nat f.steps_done ]

let handle toks =
  match toks with
  | "trace" :: w :: t :: l :: tn :: fr :: ops ->
    let core = { w = rows_of zrow ';' w; trajs = natl t; locks = list_of_string bool_of_string_ l;
                 locked = []; traj_num = nat_of_string tn } in
    let f0 = { core = core; fracs = parse_fracs fr; data = []; steps_done = O } in
    let buf = Buffer.create 1024 in
    let rec go f i = function
      | [] -> ()
      | o :: r ->
        (match step f (parse_op o) with
         | None -> Buffer.add_string buf (" # REJECT@" ^ string_of_int i)
         | Some f' -> Buffer.add_string buf (" # " ^ s_state f'); go f' (i + 1) r) in
    Buffer.add_string buf (s_state f0);
    go f0 0 ops;
    Buffer.contents buf
  | "tracem" :: w :: t :: l :: tn :: fr :: ops ->
    (* as trace, every op followed by @cert/cert (matching certificates, '-' = none) *)
    let core = { w = rows_of zrow ';' w; trajs = natl t; locks = list_of_string bool_of_string_ l;
                 locked = []; traj_num = nat_of_string tn } in
    let f0 = { core = core; fracs = parse_fracs fr; data = []; steps_done = O } in
    let buf = Buffer.create 1024 in
    let parse_certs s = if s = "-" || s = "" then [] else List.map natl (String.split_on_char '/' s) in
    let rec go f i = function
      | [] -> ()
      | o :: r ->
        let (os, cs) = match String.index_opt o '@' with
          | Some k -> (String.sub o 0 k, String.sub o (k + 1) (String.length o - k - 1))
          | None -> (o, "-") in
        (match step_m f (parse_op os) (parse_certs cs) with
         | None -> Buffer.add_string buf (" # REJECT@" ^ string_of_int i)
         | Some f' -> Buffer.add_string buf (" # " ^ s_state f'); go f' (i + 1) r) in
    Buffer.add_string buf (s_state f0);
    go f0 0 ops;
    Buffer.contents buf
  | ["sort"; w; t; l] ->
    let core = { w = rows_of zrow ';' w; trajs = natl t; locks = list_of_string bool_of_string_ l;
                 locked = []; traj_num = O } in
    (match sort_trajstate core with
     | SortOk (s, it) -> "OK " ^ String.concat ";" (List.map (fun r -> string_of_list string_of_z r) s.w) ^ " " ^ s_nats s.trajs ^ " " ^ string_of_nat it
     | SortValueError -> "VALUEERROR"
     | SortFuel -> "HANG")
  | "assign" :: occ :: names :: pin :: [] ->
    (* occ = e:p,p,N;e:... *)
    let o = List.map (fun e -> match String.split_on_char ':' e with
        | [k; v] -> (nat_of_string k, list_of_string (fun x -> if x = "N" then None else Some (nat_of_string x)) v)
        | _ -> failwith "bad occ") (String.split_on_char ';' occ) in
    let (o', res) = assign_engines o (natl names) (nat_of_string pin) in
    String.concat ";" (List.map (fun (k, v) -> string_of_nat k ^ ":" ^ string_of_list (string_of_option string_of_nat) v) o')
    ^ " " ^ string_of_list (fun (e, x) -> string_of_nat e ^ "=" ^ string_of_option string_of_nat x) res
  | _ -> "ERR bad command"

let () = main_loop handle
