(* driver for the C19 (codecs) correspondence runner.
   Text and byte strings travel as "s" ^ two hex digits per character (ASCII / bytes only);
   lists are comma separated with "-" for the empty list; numbers are exact rationals. *)
let hexv c = match c with
  | '0'..'9' -> Char.code c - 48 | 'a'..'f' -> Char.code c - 87 | 'A'..'F' -> Char.code c - 55
  | _ -> failwith "bad hex"
let str_of_hex (s : string) : z list =
  if String.length s = 0 || s.[0] <> 's' then failwith ("bad string " ^ s) else
  let n = (String.length s - 1) / 2 in
  let rec go i acc = if i < 0 then acc else go (i - 1) (z_of_int (16 * hexv s.[1 + 2 * i] + hexv s.[2 + 2 * i]) :: acc) in
  go (n - 1) []
let hex_of_str (l : z list) : string =
  let b = Buffer.create 64 in
  Buffer.add_char b 's';
  List.iter (fun c -> Buffer.add_string b (Printf.sprintf "%02x" (int_of_z c))) l;
  Buffer.contents b

let lst sep f s = if s = "-" || s = "" then [] else List.map f (String.split_on_char sep s)
let out_lst sep f l = if l = [] then "-" else String.concat sep (List.map f l)
let pair_of c fa fb s =
  match String.index_opt s c with
  | None -> failwith ("bad pair " ^ s)
  | Some i -> (fa (String.sub s 0 i), fb (String.sub s (i + 1) (String.length s - i - 1)))

let num_of_string s : bool * q = pair_of ':' bool_of_string_ q_of_string s
let oq = string_of_option string_of_q
let oqs l = out_lst "," oq l
let ostr_of s = if s = "N" then None else Some (str_of_hex s)

let endian_of s = if s = "B" then BE else LE
let string_of_endian e = match e with BE -> "B" | LE -> "L"
let string_of_header h =
  String.concat "|" [out_lst "," string_of_z h.h_ints; hex_of_str h.h_time; hex_of_str h.h_lambda;
                     string_of_endian h.h_endian; string_of_bool_ h.h_double]
let string_of_blocks d =
  out_lst ";" (fun b -> match b with None -> "N" | Some v -> out_lst "," hex_of_str v) d
let blocks_of s = lst ';' (fun b -> if b = "N" then None else Some (lst ',' str_of_hex b)) s
let header_of ints t l e d =
  { h_ints = lst ',' z_of_string ints; h_time = str_of_hex t; h_lambda = str_of_hex l;
    h_endian = endian_of e; h_double = bool_of_string_ d }

let piece_of s = ((s.[0] = 'T'), str_of_hex (String.sub s 1 (String.length s - 1)))
let string_of_piece (t, s) = (if t then "T" else "W") ^ hex_of_str s
let lines_of s = lst ';' (fun l -> lst ',' piece_of l) s

let handle toks =
  match toks with
  | ["pf"; w; d; v] -> let (nz, x) = num_of_string v in hex_of_str (print_fixed (nat_of_string w) (nat_of_string d) nz x)
  | ["wg"; w; d; v] -> let (nz, x) = num_of_string v in string_of_bool_ (width_guard (nat_of_string w) (nat_of_string d) nz x)
  | ["rd"; d; x] -> string_of_q (round_d (nat_of_string d) (q_of_string x))
  | ["parse"; s] -> oq (parse_fixed (str_of_hex s))
  | ["g96w"; label; vs] -> hex_of_str (g96_write_line (str_of_hex label) (lst ',' num_of_string vs))
  | ["g96r"; line] -> let (l, vs) = g96_read_line (str_of_hex line) in hex_of_str l ^ "|" ^ oqs vs
  | ["g96box"; vs] -> hex_of_str (g96_write_box (lst ',' num_of_string vs))
  | ["floats"; s] -> oqs (read_floats (str_of_hex s))
  | ["xyzw"; name; vs] -> hex_of_str (xyz_write_line (str_of_hex name) (lst ',' num_of_string vs))
  | ["xyzr"; line] ->
    (match xyz_read_line (str_of_hex line) with None -> "N" | Some (n, vs) -> hex_of_str n ^ "|" ^ oqs vs)
  | ["xyzbox"; vs] -> hex_of_str (xyz_write_box (lst ',' num_of_string vs))
  | ["xyzhbox"; h] -> (match xyz_header_box (str_of_hex h) with None -> "N" | Some vs -> oqs vs)
  | ["xyzframe"; idx; lines] ->
    (match xyz_frame (lst ',' str_of_hex lines) (nat_of_string idx) with
     | None -> "N"
     | Some (h, atoms) ->
       hex_of_str h ^ "|" ^
       out_lst ";" (fun a -> match a with None -> "N" | Some (n, vs) -> hex_of_str n ^ "~" ^ oqs vs) atoms)
  | ["swap"; x] -> string_of_z (swap_integer (z_of_string x))
  | ["trrh"; bs] ->
    (match decode_header (str_of_hex bs) with
     | Ok (h, r) -> "OK " ^ string_of_header h ^ "|" ^ string_of_int (List.length r)
     | Eof -> "EOF" | Bad -> "BAD")
  | ["trrf"; bs] ->
    (match decode_frame (str_of_hex bs) with
     | Ok ((h, d), r) -> "OK " ^ string_of_header h ^ "|" ^ string_of_blocks d ^ "|" ^ string_of_int (List.length r)
     | Eof -> "EOF" | Bad -> "BAD")
  | ["trrenc"; ints; t; l; e; d; blocks] -> hex_of_str (encode_frame (header_of ints t l e d) (blocks_of blocks))
  | ["trrat"; fuel; idx; bs] ->
    (match trr_frame_at (nat_of_string fuel) (nat_of_string idx) (str_of_hex bs) with
     | None -> "N"
     | Some (h, d) -> "OK " ^ string_of_header h ^ "|" ^ string_of_blocks d)
  | ["mdp"; s; text] ->
    hex_of_str (mdp_edit (lst ',' (pair_of ':' str_of_hex str_of_hex) s) (str_of_hex text))
  | ["mdpread"; text] ->
    out_lst "," (fun (k, v) -> hex_of_str k ^ ":" ^ hex_of_str v) (mdp_read (split_lines (str_of_hex text)))
  | ["mdpget"; k; text] -> string_of_option hex_of_str (mdp_get (str_of_hex k) (split_lines (str_of_hex text)))
  | ["cp2k"; data; lines] ->
    out_lst "," hex_of_str (cp2k_update_data (lst ',' (pair_of ':' str_of_hex ostr_of) data) (lst ',' str_of_hex lines))
  | ["cp2knew"; data] -> out_lst "," hex_of_str (cp2k_new_data (lst ',' (pair_of ':' str_of_hex ostr_of) data))
  | ["cp2kapply"; lines; ups; rms] ->
    let fld u = match String.split_on_char '~' u with
      | [t; ss; rp; isd; data; dl] ->
        { u_target = str_of_hex t; u_setts = lst ',' str_of_hex ss; u_replace = bool_of_string_ rp;
          u_dict = bool_of_string_ isd; u_data = lst ',' (pair_of ':' str_of_hex ostr_of) data;
          u_lines = lst ',' str_of_hex dl }
      | _ -> failwith "bad update" in
    (match cp2k_apply (lst ',' str_of_hex lines) (lst ';' fld ups) (lst ',' str_of_hex rms) with
     | None -> "N"
     | Some out -> out_lst "," hex_of_str out)
  | ["cp2krefs"; lines] ->
    (match cp2k_read (lst ',' str_of_hex lines) with
     | None -> "N"
     | Some (_, roots) ->
       out_lst "," (fun (k, (i, ss)) -> hex_of_str k ^ ":" ^ string_of_nat i ^ ":" ^ hex_of_str (join_sp ss)) (cp2k_refs roots))
  | ["lmp"; s; lines] ->
    let (out, miss) = lmp_write_for_run (lst ',' (pair_of ':' str_of_hex str_of_hex) s) (lines_of lines) in
    out_lst ";" (fun l -> out_lst "," string_of_piece l) out ^ "|" ^ out_lst "," hex_of_str miss
  | ["lmpi"; s; lines] ->
    (* the code as written (str.replace inside the words of a line) + the clean-line guard *)
    let st = lst ',' (pair_of ':' str_of_hex str_of_hex) s in
    let ls = lines_of lines in
    let (out, miss) = lmp_impl_write_for_run st ls in
    out_lst ";" (fun l -> out_lst "," string_of_piece l) out ^ "|" ^ out_lst "," hex_of_str miss
    ^ "|" ^ out_lst "," (fun l -> string_of_bool_ (lmp_line_clean st l)) ls
  | ["lmprows"; frame; n; rows] ->
    let (b, a) = lmp_read_rows (lst ',' (pair_of ':' z_of_string nat_of_string) rows) (nat_of_string frame) (nat_of_string n) in
    out_lst "," string_of_nat b ^ "|" ^ out_lst "," string_of_nat a
  | ["shift"; xyz; box] ->
    let (p, l) = shift_boxbounds (lst ';' (fun r -> lst ',' q_of_string r) xyz) (lst ',' (pair_of ':' q_of_string q_of_string) box) in
    out_lst ";" (fun r -> out_lst "," string_of_q r) p ^ "|" ^ out_lst "," string_of_q l
  | ["revvel"; ids; pos; vel; box] ->
    let rows s = lst ';' (fun r -> lst ',' q_of_string r) s in
    let c = reverse_velocities { c_ids = lst ',' str_of_hex ids; c_pos = rows pos; c_vel = rows vel; c_box = lst ',' q_of_string box } in
    let orows r = out_lst ";" (fun r -> out_lst "," string_of_q r) r in
    String.concat "|" [out_lst "," hex_of_str c.c_ids; orows c.c_pos; orows c.c_vel; out_lst "," string_of_q c.c_box]
  | ["fxhist"; dir; ops] ->
    (* directory: name:frame,frame;...  operations: src.k.out;...  answer, per operation:
       <frame read from the output>@<directory after it>, "N" when the operation fails *)
    let d = lst ';' (pair_of ':' nat_of_string (lst ',' nat_of_string)) dir in
    let op s = match String.split_on_char '.' s with
      | [a; k; o] -> { o_src = nat_of_string a; o_k = nat_of_string k; o_out = nat_of_string o }
      | _ -> failwith "bad operation" in
    let os = lst ';' op ops in
    let show_dir d = out_lst ";" (fun (n, c) -> string_of_nat n ^ ":" ^ out_lst "," string_of_nat c) d in
    let rec go os tr = match os, tr with
      | o :: os', Some d' :: tr' -> (string_of_option string_of_nat (fx_read d' o.o_out) ^ "@" ^ show_dir d') :: go os' tr'
      | _, None :: _ -> ["N"]
      | _, _ -> [] in
    let final = match fx_run d os with None -> "N" | Some d' -> show_dir d' in
    out_lst "|" (fun x -> x) (go os (fx_trace d os)) ^ "=" ^ final
  | _ -> "ERR bad command"

let () = main_loop handle
