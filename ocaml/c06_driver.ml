(* driver for C06: rt <seed> <cstep> <nlocked> <entropy> <nchild> <fixed 0/1>
   -> children-field-of-disk (N or n) | recovered entropy | recovered nchild *)
let handle toks =
  match toks with
  | ["rt"; sd; c; nl; e; n; fx] ->
    let g = { rf_entropy = nat_of_string e; rf_nchild = nat_of_string n; rf_bits = O } in
    let d = rng_persist (nat_of_string sd) (nat_of_string c) (nat_of_string nl) g in
    let r = rng_recover (fx = "1") d in
    string_of_option string_of_nat d.rd_children ^ "|" ^ string_of_nat r.rf_entropy ^ "|" ^ string_of_nat r.rf_nchild
  | _ -> "ERR bad command"
let () = main_loop handle
