(* driver for the C14 (stored paths / deletion) correspondence runner.
   Strings travel as hex of their (ASCII) code points, "-" = empty string. *)
let str_of_hex (s : string) : str =
  if s = "-" then [] else begin
    let n = String.length s / 2 in
    List.init n (fun i -> z_of_int (int_of_string ("0x" ^ String.sub s (2 * i) 2)))
  end
let hex_of_str (s : str) : string =
  if s = [] then "-" else String.concat "" (List.map (fun c -> Printf.sprintf "%02x" (int_of_z c)) s)

let split_list c s = if s = "-" || s = "" then [] else String.split_on_char c s

(* fval: "n" = None, "<nz>:<num>/<den>" *)
let fval_of_string s : fval =
  if s = "n" then None else
    match String.index_opt s ':' with
    | Some i -> Some (bool_of_string_ (String.sub s 0 i), q_of_string (String.sub s (i + 1) (String.length s - i - 1)))
    | None -> failwith ("bad fval " ^ s)

(* frame: orders|vpot|ekin|file|idx|rev ; orders joined by ',' ("-" = none) ; idx "N" = None *)
let frame_of_string s : frame =
  match String.split_on_char '|' s with
  | [o; vp; ek; f; i; r] ->
    { f_orders = List.map fval_of_string (split_list ',' o); f_vpot = fval_of_string vp; f_ekin = fval_of_string ek;
      f_file = str_of_hex f; f_idx = (if i = "N" then None else Some (z_of_string i)); f_rev = bool_of_string_ r }
  | _ -> failwith ("bad frame " ^ s)
let path_of_string s = List.map frame_of_string (split_list ';' s)

(* disk: name=content,... (hex) *)
let disk_of_string s : fsmap =
  List.map (fun e -> match String.split_on_char '=' e with
      | [k; v] -> (str_of_hex k, str_of_hex v)
      | _ -> failwith ("bad disk entry " ^ e)) (split_list ',' s)
let string_of_disk (d : fsmap) : string =
  let l = List.map (fun (k, v) -> hex_of_str k ^ "=" ^ hex_of_str v) d in
  let l = List.sort compare l in
  if l = [] then "-" else String.concat "," l

let string_of_oq = function None -> "n" | Some x -> string_of_q x
let string_of_ooq = function None -> "P" | Some x -> string_of_oq x
let string_of_lframe (f : lframe) : string =
  String.concat "|" [ (if f.l_orders = [] then "-" else String.concat "," (List.map string_of_oq f.l_orders));
                      string_of_ooq f.l_vpot; string_of_ooq f.l_ekin; hex_of_str f.l_file; string_of_z f.l_idx;
                      string_of_bool_ f.l_rev ]
let string_of_lpath = function
  | None -> "FAIL"
  | Some l -> "OK " ^ (if l = [] then "-" else String.concat ";" (List.map string_of_lframe l))

let string_of_cfgs l =
  if l = [] then "-" else
    String.concat ";" (List.map (fun (f, i) -> hex_of_str f ^ ":" ^ (match i with None -> "N" | Some k -> string_of_z k)) l)
let string_of_moves l =
  if l = [] then "-" else String.concat "," (List.map (fun (s, t) -> hex_of_str s ^ ">" ^ hex_of_str t) l)

(* deletion machine *)
let zlist s = List.map z_of_string (split_list ',' s)
let string_of_zlist l = if l = [] then "-" else String.concat "," (List.map string_of_z l)
let dirs_of_string s =
  List.map (fun e -> match String.split_on_char ':' e with
      | [pn; t; tr; nt; nx] -> (z_of_string pn, { d_txt = bool_of_string_ t; d_traj = bool_of_string_ tr;
                                                  d_ntraj = nat_of_string nt; d_nextra = nat_of_string nx })
      | _ -> failwith ("bad dir " ^ e)) (split_list ',' s)
let string_of_dirs ds =
  let l = List.map (fun (pn, i) -> (int_of_z pn, i)) ds in
  let l = List.sort (fun (a, _) (b, _) -> compare a b) l in
  if l = [] then "-" else
    String.concat "," (List.map (fun (pn, i) -> Printf.sprintf "%d:%s:%s:%d:%d" pn (string_of_bool_ i.d_txt) (string_of_bool_ i.d_traj)
                                   (int_of_nat i.d_ntraj) (int_of_nat i.d_nextra)) l)
let mop_of_string s =
  match String.split_on_char ':' s with
  | ["I"; o; a; b] -> MItem (z_of_string o, nat_of_string a, nat_of_string b)
  | ["E"] -> MEnd
  | ["R"] -> MRestart
  | _ -> failwith ("bad op " ^ s)
let string_of_event = function
  | ERepl (a, b) -> "R" ^ string_of_z a ^ ">" ^ string_of_z b
  | EDel p -> "D" ^ string_of_z p
  | ECrash -> "X"
let string_of_state (st : dstate) =
  String.concat "/" [string_of_zlist st.live; string_of_zlist st.queue; string_of_z st.next; string_of_dirs st.dirs;
                     string_of_zlist st.rec_; string_of_nat st.cnt; string_of_bool_ st.dead]

let handle toks =
  match toks with
  (* sl disk step move home pn keep path : store, then load what was stored *)
  | ["sl"; disk; step; move; home; pn; keep; path] ->
    let d = disk_of_string disk and p = path_of_string path in
    let step = z_of_string step and move = str_of_hex move and home = str_of_hex home and pn = z_of_string pn in
    let keep = List.map str_of_hex (split_list ',' keep) in
    let arch = archive_dir home pn in
    let mv = move_list (write_txt (clean_dir store_keeps_own (accepted_dir arch) p d) arch step move p) (accepted_dir arch) keep p in
    (match store d step move home pn keep p with
     | None -> "FAIL " ^ string_of_moves mv
     | Some (d4, cfgs) ->
       let expect = List.map (reload arch) p in
       let got = load d4 arch in
       String.concat " " ["OK"; string_of_disk d4; string_of_cfgs cfgs; string_of_moves mv;
                          string_of_lpath got; (if got = Some expect then "1" else "0")])
  | ["variant"] -> string_of_bool_ store_keeps_own
  (* load disk pdir *)
  | ["load"; disk; pdir] -> string_of_lpath (load (disk_of_string disk) (str_of_hex pdir))
  | ["names"; s] ->
    let s = str_of_hex s in
    String.concat " " [hex_of_str (basename s); hex_of_str (dirname s); hex_of_str (stem (basename s))]
  | ["join"; a; b] -> hex_of_str (pjoin (str_of_hex a) (str_of_hex b))
  (* del delete_old delete_all n live next dirs ops : state after every micro operation *)
  | ["del"; dold; dall; n; lv; nx; ds; ops] ->
    let st0 = init_state (zlist lv) (z_of_string nx) (dirs_of_string ds) in
    let dold = bool_of_string_ dold and dall = bool_of_string_ dall and n = z_of_string n in
    let ops = List.map mop_of_string (split_list ',' ops) in
    let rec go st ops acc =
      match ops with
      | [] -> List.rev acc
      | o :: r ->
        let (st1, ev) = mstep dold dall n st o in
        go st1 r ((string_of_state st1 ^ "/" ^ (if ev = [] then "-" else String.concat "," (List.map string_of_event ev))) :: acc) in
    let l = go st0 ops [] in
    if l = [] then "-" else String.concat " " l
  | _ -> "ERR bad command"

let () = main_loop handle
