(* driver for the C20 (order parameter symmetries) correspondence runner.

   vectors   x:y:z                lists of vectors  v,v,...   ("-" = empty)
   system    POS|VEL|BOX          BOX = N (None) or a,b,c[,...]
   transform id | tr=V | sh=L=KS | rot=R1,R2,R3 | rev | sc=C     (applied by the MODEL's
             translate / shift_images / rotate / reverse_vel / scale_sys)
   requests
     pbc  D BOX                               -> list | N      (pbc_dist_coordinate)
     pbc1 d L                                 -> wrapped  tie(0/1)
     dist i0 i1 PER SYS TR VR                 -> dist2 | N
     dvel FX i0 i1 PER SYS TR VR              -> num,den2 | N
     pos  i dim SYS TR VR / vel i dim SYS TR VR -> value | N
     dih  i0 i1 i2 i3 PER SYS TR VR           -> a,b,c,bb,t | N
     puck IDX PER SYS TR VR                   -> z0,..,z5;nn | N
     prev KIND i dim VELDEP REVV FRAMES       -> frames | N    (Path.reverse; KIND = vel | pos)
     via MASK CONF BOX0 <one of dist/dvel/pos/vel/dih/puck with TR = id>
         calculate_order_args: SYS holds the overrides, MASK (three characters 0/1) says which
         of xyz / vel / box are handed in (the others are None), CONF is the system the
         engine reads from the configuration file, BOX0 what system.box held before the call
     prop FLAGIN REVERSE <one of dist/dvel/pos/vel/dih/puck with TR = id and VR = 0>
         EngineBase.propagate, frame 0: SYS holds the content of the shooting point's file,
         FLAGIN its system.vel_rev, REVERSE the direction of the run
         -> <order of frame 0 as stored> <vel_rev stored with the frame>   (propagate_frame0)
   VR is the vel_rev flag of EngineBase.calculate_order. *)

let v3_of_string s =
  match String.split_on_char ':' s with
  | [a; b; c] -> { vx = z_of_string a; vy = z_of_string b; vz = z_of_string c }
  | _ -> failwith ("bad vector " ^ s)
let vecs_of_string s = list_of_string v3_of_string s
let zlist_of_string s = list_of_string z_of_string s
let box_of_string s = if s = "N" then None else Some (zlist_of_string s)
let sys_of_string s =
  match String.split_on_char '|' s with
  | [p; v; b] -> { spos = vecs_of_string p; svel = vecs_of_string v; sbox = box_of_string b }
  | _ -> failwith ("bad system " ^ s)

let transform tr s =
  match String.split_on_char '=' tr with
  | ["id"] -> s
  | ["rev"] -> reverse_vel s
  | ["tr"; v] -> translate (v3_of_string v) s
  | ["sc"; c] -> scale_sys (z_of_string c) s
  | ["sh"; l; ks] -> shift_images (v3_of_string l) (vecs_of_string ks) s
  | ["rot"; m] ->
    (match vecs_of_string m with
     | [a; b; c] -> rotate { row1 = a; row2 = b; row3 = c } s
     | _ -> failwith "bad matrix")
  | _ -> failwith ("bad transform " ^ tr)

(* set by the "via" request for the duration of the wrapped request *)
let route : (string * string * string) option ref = ref None

(* calculate_order(calc, vel_rev, xyz, vel, box) on the transformed system; with a route:
   calculate_order_args with the overrides selected by the mask *)
let prop : (bool * bool) option ref = ref None
let prop_rev = ref false

let co calc s tr vr =
  match !prop with
  | Some (f, r) ->
    if tr <> "id" || vr <> "0" || !route <> None then failwith "bad prop request" else
    let a = sys_of_string s in
    let (o, rv) = propagate_frame0 calc f r a.spos a.svel a.sbox in
    prop_rev := rv; o
  | None ->
  match !route with
  | None ->
    let s' = transform tr (sys_of_string s) in
    calculate_order calc (bool_of_string_ vr) s'.spos s'.svel s'.sbox
  | Some (mask, conf, box0) ->
    if tr <> "id" || String.length mask <> 3 then failwith "bad via request" else
    let a = sys_of_string s in
    let given i = mask.[i] = '1' in
    calculate_order_args calc (bool_of_string_ vr) (sys_of_string conf) (box_of_string box0)
      (if given 0 then Some a.spos else None) (if given 1 then Some a.svel else None)
      (if given 2 then a.sbox else None)

let n = nat_of_string
let b = bool_of_string_
let zs = string_of_z
let opt f o = string_of_option f o

let frame_of_string s =
  match String.split_on_char '/' s with
  | [o; r; sy] ->
    { pf_order = z_of_string o; pf_rev = b r; pf_sys = (if sy = "N" then None else Some (sys_of_string sy)) }
  | _ -> failwith ("bad frame " ^ s)
let string_of_frame f = zs f.pf_order ^ "/" ^ string_of_bool_ f.pf_rev

let rec handle toks =
  match toks with
  | "via" :: mask :: conf :: box0 :: rest ->
    route := Some (mask, conf, box0);
    let r = (try handle rest with e -> route := None; raise e) in
    route := None; r
  | "prop" :: f :: r :: rest ->
    prop := Some (bool_of_string_ f, bool_of_string_ r);
    let o = (try handle rest with e -> prop := None; raise e) in
    prop := None; o ^ " " ^ string_of_bool_ !prop_rev
  | ["pbc"; d; box] -> opt (string_of_list zs) (pbc_loop (zlist_of_string d) (zlist_of_string box))
  | ["pbc1"; d; l] ->
    let d = z_of_string d and l = z_of_string l in
    zs (pbc1 d l) ^ " " ^ string_of_bool_ (tieb d l)
  | ["dist"; i0; i1; per; s; tr; vr] -> opt zs (co (distance_calc (n i0) (n i1) (b per)) s tr vr)
  | ["dvel"; fx; i0; i1; per; s; tr; vr] ->
    opt (fun (a, c) -> zs a ^ "," ^ zs c) (co (distancevel_calc (b fx) (n i0) (n i1) (b per)) s tr vr)
  | ["pos"; i; dim; s; tr; vr] -> opt zs (co (position_calc (n i) (n dim)) s tr vr)
  | ["vel"; i; dim; s; tr; vr] -> opt zs (co (velocity_calc (n i) (n dim)) s tr vr)
  | ["dih"; i0; i1; i2; i3; per; s; tr; vr] ->
    opt (fun d -> String.concat "," (List.map zs [d.dh_a; d.dh_b; d.dh_c; d.dh_bb; d.dh_t]))
      (co (dihedral_calc (n i0) (n i1) (n i2) (n i3) (b per)) s tr vr)
  | ["puck"; idx; per; s; tr; vr] ->
    opt (fun p -> string_of_list zs p.pk_zeta ^ ";" ^ zs p.pk_nn)
      (co (puckering_calc (list_of_string n idx) (b per)) s tr vr)
  | ["prev"; kind; i; dim; veldep; revv; frames] ->
    let calc = (match kind with
        | "vel" -> velocity_calc (n i) (n dim)
        | "pos" -> position_calc (n i) (n dim)
        | _ -> failwith "bad kind") in
    let fs = if frames = "-" then [] else List.map frame_of_string (String.split_on_char '+' frames) in
    (match path_reverse calc (b veldep) (b revv) fs with
     | None -> "N"
     | Some r -> if r = [] then "-" else String.concat "+" (List.map string_of_frame r))
  | _ -> "ERR bad command"

let () = main_loop handle
