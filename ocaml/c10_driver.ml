(* driver for the C10 (wire-fencing weights) correspondence runner.
   Numbers: orders / interfaces are integers (the harness scales dyadic floats to a common
   denominator), random numbers are exact rationals "num/den". *)
let string_of_seg ((s, e), n) =
  String.concat ":" [string_of_nat s; string_of_nat e; string_of_nat n]
let string_of_segs l = string_of_list string_of_seg l
let zlist s = list_of_string z_of_string s
let move_of_string = function
  | "sh" -> Msh | "wf" -> Mwf | "ss" -> Mss
  | s -> failwith ("bad move " ^ s)
let zopt s = if s = "N" then None else Some (z_of_string s)

let triple s = match zlist s with
  | [a; b; c] -> (a, b, c)
  | _ -> failwith ("bad interface triple " ^ s)

(* unary naturals are immutable: build a given limit (e.g. 100000, the maxlen of loaded paths) once *)
let nat_table : (string, nat) Hashtbl.t = Hashtbl.create 16
let nat_memo s =
  match Hashtbl.find_opt nat_table s with
  | Some n -> n
  | None -> let n = nat_of_string s in Hashtbl.add nat_table s n; n

let handle toks =
  match toks with
  (* model segments, model weight, spec segments, spec weight *)
  | ["wf"; l; r; ords] ->
    let l = z_of_string l and r = z_of_string r and ords = zlist ords in
    String.concat " " [string_of_segs (wf_segments l r ords); string_of_nat (wf_nframes l r ords);
                       string_of_segs (wf_spec l r ords); string_of_nat (wf_spec_weight l r ords)]
  (* chosen segment and the orders of the frames of the seed sub-path *)
  | ["pick"; l; r; ords; u] ->
    let l = z_of_string l and r = z_of_string r and ords = zlist ords in
    (match wf_pick l r ords (q_of_string u) with
     | None -> "N"
     | Some sg -> string_of_seg sg ^ " " ^ string_of_list string_of_z (seg_frames sg ords))
  (* return_seg=True with length limits: chosen segment and the INDICES (frame identities) of
     the frames of the returned segment.  pmaxlen = path.maxlen ("N" = None).  The last token
     is tis_set["maxlength"] of the ensemble handed to the implementation: the code under
     model does not read it and the model has no such argument; it is only part of the
     request so that the case is recorded with it. *)
  | ["pickm"; l; r; ords; u; pmaxlen; _tis_maxlength] ->
    let l = z_of_string l and r = z_of_string r and ords = zlist ords in
    let frames = List.mapi (fun i _ -> nat_of_int i) ords in
    let pm = if pmaxlen = "N" then None else Some (nat_memo pmaxlen) in
    (match wf_pick_seed l r ords frames pm (q_of_string u) with
     | None -> "N"
     | Some (sg, seed) -> string_of_seg sg ^ " " ^ string_of_list string_of_nat seed)
  | ["cw"; ords; i0; i1; i2; mv] ->
    string_of_option string_of_z
      (compute_weight (zlist ords) (z_of_string i0) (z_of_string i1) (z_of_string i2) (move_of_string mv))
  | ["cv"; ords; intfs; mvs; lm1; cap; minus] ->
    string_of_option (string_of_list string_of_z)
      (calc_cv_vector (zlist ords) (zlist intfs) (list_of_string move_of_string mvs)
         (zopt lm1) (zopt cap) (bool_of_string_ minus))
  (* high_acc_swap: the four weights by compute_weight, then ratio and decision *)
  | ["has"; rand; pa; pb; intf0; intf1; mv0; mv1] ->
    let pa = zlist pa and pb = zlist pb in
    let (a0, a1, a2) = triple intf0 and (b0, b1, b2) = triple intf1 in
    let m0 = move_of_string mv0 and m1 = move_of_string mv1 in
    (match compute_weight pa a0 a1 a2 m0, compute_weight pb b0 b1 b2 m1,
           compute_weight pb a0 a1 a2 m0, compute_weight pa b0 b1 b2 m1 with
     | Some c1o, Some c2o, Some c1n, Some c2n ->
       String.concat " " [string_of_bool_ (high_acc_accept (q_of_string rand) c1o c2o c1n c2n);
                          string_of_q (high_acc_ratio c1o c2o c1n c2n);
                          string_of_z c1o; string_of_z c2o; string_of_z c1n; string_of_z c2n]
     | _ -> "N")
  | ["ratio"; a; b; c; d] ->
    string_of_q (high_acc_ratio (z_of_string a) (z_of_string b) (z_of_string c) (z_of_string d))
  | _ -> "ERR bad command"

let () = main_loop handle
