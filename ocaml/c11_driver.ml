(* driver for the C11 (zero swaps) correspondence runner.
   request:  swap  <quantis> <ens0> <ens1> <beta0> <beta1> <old0> <old1> <streams> <draws> <energies> <E>
             swap0 <same arguments>
     swap  = select_swap = select_swap_g true true: the code (each new path sized and measured by its own
             ensemble's length limit);  swap0 = select_swap_g false false: the code before
             proposed_fixes/C11_zero_swap_own_limits.diff (retis: backward container sized with the [0+]
             limit; quantis: the [0-] limit read for both paths), used by the lock-step only when the tree
             under test is found to be that variant
     ens     = i0,i1,i2,scL,scR,move,maxlen,cap,accept_all     (i0 = ninf for -inf, cap = N for absent)
     old     = frames|maxlen|t0|status|weight                  frames = o:t:r,o:t:r,... or -
     streams = stream;stream;...  (stream = frames, _ = empty stream) or -
     draws   = q,q,... or -        energies = tag=q,tag=q,... or -      E = q (value returned by exp)
   answer:   OUT <accept> <status> <ndraws> <path0> <path1> <calls> <exponent or N>   |  ERR raise | ERR exhausted
     path    = frames|maxlen|t0|status|weight ;  call = eng/o:t:r/rev/left/right/maxlen/used
     eng     = e0 (the call is made on engines[-1][0], the [0-] engine) | e1 (engines[0][0], the [0+] engine)
   dump_phasepoint tags: second -> 100000 + t, second_last -> 200000 + t *)

let frame_of_string s =
  match String.split_on_char ':' s with
  | [o; t; r] -> { ford = z_of_string o; ftag = z_of_string t; frev = bool_of_string_ r; foid = O }
  | _ -> failwith ("bad frame " ^ s)
let string_of_frame f =
  String.concat ":" [string_of_z f.ford; string_of_z f.ftag; string_of_bool_ f.frev]
let frames_of_string s = if s = "_" then [] else list_of_string frame_of_string s

let status_of_string = function
  | "" | "EMPTY" -> SEmpty | "BTX" -> BTX | "BTS" -> BTS | "0-L" -> ZML | "ACC" -> ACC | "FTX" -> FTX
  | "FTS" -> FTS | "HAS" -> HAS | "QNE" -> QNE | "QLL" -> QLL | "QS0" -> QS0 | "QS1" -> QS1
  | "QEA" -> QEA | "QR*" -> QRS | "QLR" -> QLR | "0+R" -> ZPR | s -> failwith ("bad status " ^ s)
let string_of_status = function
  | SEmpty -> "EMPTY" | BTX -> "BTX" | BTS -> "BTS" | ZML -> "0-L" | ACC -> "ACC" | FTX -> "FTX"
  | FTS -> "FTS" | HAS -> "HAS" | QNE -> "QNE" | QLL -> "QLL" | QS0 -> "QS0" | QS1 -> "QS1"
  | QEA -> "QEA" | QRS -> "QR*" | QLR -> "QLR" | ZPR -> "0+R"

let spath_of_string s =
  match String.split_on_char '|' s with
  | [fs; ml; t0; st; w] ->
    { sp_path = { pts = frames_of_string fs; maxlen = nat_of_string ml; torigin = z_of_string t0 };
      sp_status = status_of_string st; sp_weight = z_of_string w }
  | _ -> failwith ("bad path " ^ s)
let string_of_spath p =
  String.concat "|" [string_of_list string_of_frame p.sp_path.pts; string_of_nat p.sp_path.maxlen;
                     string_of_z p.sp_path.torigin; string_of_status p.sp_status; string_of_z p.sp_weight]

let move_of_string = function "sh" -> Msh | "wf" -> Mwf | "ss" -> Mss | s -> failwith ("bad move " ^ s)

(* returns the ens (with a placeholder left interface when ninf) and whether the left is -inf *)
let ens_of_string s =
  match String.split_on_char ',' s with
  | [i0; i1; i2; scl; scr; mv; ml; cap; aa] ->
    let ninf = (i0 = "ninf") in
    ({ e_i0 = (if ninf then Z0 else z_of_string i0); e_i1 = z_of_string i1; e_i2 = z_of_string i2;
       e_scL = bool_of_string_ scl; e_scR = bool_of_string_ scr; e_move = move_of_string mv;
       e_maxlen = nat_of_string ml; e_cap = (if cap = "N" then None else Some (z_of_string cap));
       e_accept_all = bool_of_string_ aa }, ninf)
  | _ -> failwith ("bad ens " ^ s)

let streams_of_string s =
  if s = "-" then [] else List.map frames_of_string (String.split_on_char ';' s)

let energies_of_string s : (BigZ.t * q) list =
  list_of_string (fun kv ->
      match String.split_on_char '=' kv with
      | [k; v] -> (BigZ.of_string k, q_of_string v)
      | _ -> failwith ("bad energy " ^ kv)) s

let string_of_call ninf c =
  let left = (match ninf with Some ni when BigZ.equal (big_of_z ni) (big_of_z c.c_left) -> "ninf" | _ -> string_of_z c.c_left) in
  String.concat "/" [(match c.c_eng with E0 -> "e0" | E1 -> "e1"); string_of_frame c.c_init; string_of_bool_ c.c_rev; left;
                     string_of_z c.c_right; string_of_nat c.c_maxlen; string_of_nat c.c_used]

let dumpf lab t =
  match lab with
  | DSecond -> z_of_big (BigZ.add (big_of_z t) (BigZ.of_int 100000))
  | DSecondLast -> z_of_big (BigZ.add (big_of_z t) (BigZ.of_int 200000))

let handle toks =
  match toks with
  | [("swap" | "swap0") as cmd; quantis; e0; e1; b0; b1; o0; o1; st; dr; en; ev] ->
    let fixed = (cmd = "swap") in
    let (e0, ninf0) = ens_of_string e0 and (e1, ninf1) = ens_of_string e1 in
    let old0 = spath_of_string o0 and old1 = spath_of_string o1 in
    let streams = streams_of_string st in
    let ni = neg_inf_for old0.sp_path old1.sp_path streams in
    let e0 = if ninf0 then with_left e0 ni else e0 in
    let e1 = if ninf1 then with_left e1 ni else e1 in
    let draws = list_of_string q_of_string dr in
    let energies = energies_of_string en in
    let vpot_of t = let b = big_of_z t in
      (try Some (snd (List.find (fun (k, _) -> BigZ.equal k b) energies)) with Not_found -> None) in
    let evalue = q_of_string ev in
    let seen = ref None in
    let expf x = seen := Some x; evalue in
    (match select_swap_g dumpf vpot_of expf fixed fixed (bool_of_string_ quantis) e0 e1 (q_of_string b0) (q_of_string b1)
             old0 old1 streams draws with
     | OErr ERaise -> "ERR raise"
     | OErr EExhausted -> "ERR exhausted"
     | Out (acc, p0, p1, s, calls, nd) ->
       String.concat " " ["OUT"; string_of_bool_ acc; string_of_status s; string_of_nat nd;
                          string_of_spath p0; string_of_spath p1;
                          (if calls = [] then "-" else String.concat ";" (List.map (string_of_call (if ninf0 then Some ni else None)) calls));
                          (match !seen with None -> "N" | Some x -> string_of_q x)])
  | _ -> "ERR bad command"

let () = main_loop handle
