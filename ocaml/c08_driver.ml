(* driver for the disk/effect model (C08, C14)
   crash <fixed 0/1> <need> <files> <rows> <rec> <parts> <olds> <rnew> <k> <torn 0/1>
     need  = pn:f,f;pn:f,f          ('-' = none)
     files = pn.f.w;pn.f.w          (w = 0/1)
     rows  = pn.w;pn.w
     rec   = cstep/active,active/trajnum   ('-' = no restart file)
     parts = new>del:f,f+del:f,f;new>-     ('-' = none)
     olds  = pn,pn
   -> EFFECTS e,e,e | REC cstep/active/trajnum ROWS pn.w;pn.w   or   NONE   (what a restart finds) *)
let split c s = if s = "-" || s = "" then [] else String.split_on_char c s
let nats s = list_of_string nat_of_string s
let parse_rec s = match String.split_on_char '/' s with
  | [c; a; t] -> { r_cstep = nat_of_string c; r_active = nats a; r_locked = []; r_trajnum = nat_of_string t }
  | _ -> failwith "bad rec"
let s_nats l = string_of_list string_of_nat l
let s_rec r = string_of_nat r.r_cstep ^ "/" ^ s_nats r.r_active ^ "/" ^ string_of_nat r.r_trajnum
let s_eff = function
  | ENop -> "N" | EPut (a, b) -> "P" ^ string_of_nat a ^ "." ^ string_of_nat b
  | EDel (a, b) -> "D" ^ string_of_nat a ^ "." ^ string_of_nat b | ERow a -> "R" ^ string_of_nat a
  | ERecInPlace _ -> "I" | ERecTmp -> "T" | ERecSwap _ -> "S"
let handle toks =
  match toks with
  | ["crash"; fx; need; files; rows; rc; parts; olds; rnew; k; torn] ->
    let needl = List.map (fun e -> match String.split_on_char ':' e with
        | [pn; fs] -> (nat_of_string pn, nats fs) | _ -> failwith "bad need") (split ';' need) in
    let needf pn = try List.assoc pn needl with Not_found -> [] in
    let fl = List.map (fun e -> match String.split_on_char '.' e with
        | [a; b; w] -> ((nat_of_string a, nat_of_string b), w = "1") | _ -> failwith "bad file") (split ';' files) in
    let rw = List.map (fun e -> match String.split_on_char '.' e with
        | [a; w] -> (nat_of_string a, w = "1") | _ -> failwith "bad row") (split ';' rows) in
    let d = { files = fl; rows = rw; rec0 = (if rc = "-" then None else Some (parse_rec rc)); rec_torn = false } in
    let pl = List.map (fun e -> match String.split_on_char '>' e with
        | [nw; ds] -> (nat_of_string nw, List.map (fun x -> match String.split_on_char ':' x with
            | [pn; fs] -> (nat_of_string pn, nats fs) | _ -> failwith "bad del") (split '+' ds))
        | _ -> failwith "bad part") (split ';' parts) in
    let st = { parts = pl; olds = nats olds; rnew = parse_rec rnew } in
    let fixed = fx = "1" in
    let es = effects needf fixed st in
    let d' = crash (nat_of_string k) (torn = "1") d es in
    "EFFECTS " ^ string_of_list s_eff es ^ " | " ^
    (match recover needf fixed d' with
     | None -> "NONE"
     | Some (r, rs) -> "REC " ^ s_rec r ^ " ROWS " ^
                       (if rs = [] then "-" else String.concat ";" (List.map (fun (a, w) -> string_of_nat a ^ "." ^ (if w then "1" else "0")) rs)))
  | _ -> "ERR bad command"
let () = main_loop handle
