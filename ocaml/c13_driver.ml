(* driver for the C13 (on-the-fly trajectory readers) correspondence runner.

   Requests (one per line, blank separated):
     polls xyz|lmp <fixed 0/1> <file as hex> <seq;seq;...>     seq = c,c,c (byte cuts, one reader object)
        -> <frame table: frame;frame;...>|<seq answer> <seq answer> ...
           seq answer = poll/poll/...   poll = <exn N|Z|V|I>,<position>,<frame indices i.i.i or ->
     wf xyz|lmp <N atoms> <file as hex>     -> 1 / 0   (every frame satisfies the proved-sound checker)
     trr <head> <h:d,h:d,...> <s,s,s or -> <total>
        -> <br> <hs> <pend idx:d or N> <bad>|<events>|<finish br or ->|<finish events>
           event = H:at:len:size  D:at:len:size  Y:idx  G:at
     trs <recheck 0/1> <head> <h:d,h:d,...> <s,s,s or -> <fin>
        every observation (check_poll / getsize) of the loop against the schedule: observation k made
        while GROMACS runs sees s_k bytes, the later ones see GROMACS ended (code 0) and <fin> bytes
        -> <program points>|<final pc> <br> <hs> <pend idx:d or N> <bad>|<events>
           program point = P poll  h header getsize  d data getsize  G guard poll  g guard getsize
                           f final getsize  r read_remaining getsize  . returned                 *)

let ascii_tbl : ascii array =
  Array.init 256 (fun n ->
      let b i = (n lsr i) land 1 = 1 in
      Ascii (b 0, b 1, b 2, b 3, b 4, b 5, b 6, b 7))

let char_of_ascii (a : ascii) : char =
  match a with
  | Ascii (b0, b1, b2, b3, b4, b5, b6, b7) ->
    let v b i = if b then 1 lsl i else 0 in
    Char.chr (v b0 0 + v b1 1 + v b2 2 + v b3 3 + v b4 4 + v b5 5 + v b6 6 + v b7 7)

let hexval c =
  match c with
  | '0' .. '9' -> Char.code c - 48
  | 'a' .. 'f' -> Char.code c - 87
  | 'A' .. 'F' -> Char.code c - 55
  | _ -> failwith "bad hex"

let bytes_of_hex (s : string) : string =
  if s = "-" then ""
  else begin
    let n = String.length s / 2 in
    String.init n (fun i -> Char.chr (16 * hexval s.[2 * i] + hexval s.[2 * i + 1]))
  end

let asciis_of_string (s : string) : ascii list =
  let r = ref [] in
  for i = String.length s - 1 downto 0 do
    r := ascii_tbl.(Char.code s.[i]) :: !r
  done;
  !r

let string_of_asciis (l : ascii list) : string =
  let b = Buffer.create 16 in
  List.iter (fun a -> Buffer.add_char b (char_of_ascii a)) l;
  Buffer.contents b

let string_of_exn_opt = function
  | None -> "N"
  | Some EZeroDiv -> "Z"
  | Some EValue -> "V"
  | Some EIndex -> "I"

let string_of_row (r : ascii list list) = String.concat "," (List.map string_of_asciis r)

let string_of_xyz_frame (f : ascii list list list) =
  if f = [] then "@" else String.concat "/" (List.map string_of_row f)

let string_of_lmp_frame ((box, coord) : ascii list list list * ascii list list option list) =
  String.concat "/" (List.map string_of_row box) ^ "#"
  ^ String.concat "/" (List.map (function None -> "~" | Some r -> string_of_row r) coord)

(* run a list of cut sequences, interning the frames *)
let run_polls (type f) (read : ascii list -> (exn option * f list) * z) (show : f -> string)
    (file : ascii list) (seqs : int list list) : string =
  let tbl : (string, int) Hashtbl.t = Hashtbl.create 64 in
  let order = ref [] in
  let intern s =
    match Hashtbl.find_opt tbl s with
    | Some i -> i
    | None ->
      let i = Hashtbl.length tbl in
      Hashtbl.add tbl s i;
      order := s :: !order;
      i
  in
  let answers =
    List.map
      (fun cuts ->
         let res = polls read file Z0 (List.map nat_of_int cuts) in
         String.concat "/"
           (List.map
              (fun ((e, frames), pos) ->
                 let idx = List.map (fun fr -> string_of_int (intern (show fr))) frames in
                 String.concat ","
                   [string_of_exn_opt e; string_of_z pos; (if idx = [] then "-" else String.concat "." idx)])
              res))
      seqs
  in
  String.concat ";" (List.rev !order) ^ "|" ^ String.concat " " answers

let parse_seqs (s : string) : int list list =
  if s = "-" then []
  else List.map (fun q -> List.map int_of_string (String.split_on_char ',' q)) (String.split_on_char ';' s)

(* the lines of a complete file (every line ends with a newline), grouped in frames *)
let frames_of_file (s : string) (lines_per_frame : int) : ascii list list list option =
  let n = String.length s in
  if n = 0 || s.[n - 1] <> '\n' then None
  else begin
    let lines = String.split_on_char '\n' (String.sub s 0 (n - 1)) in
    let rec group acc cur k = function
      | [] -> if k = 0 then Some (List.rev acc) else None
      | l :: r ->
        let cur = asciis_of_string l :: cur in
        if k + 1 = lines_per_frame then group (List.rev cur :: acc) [] 0 r else group acc cur (k + 1) r
    in
    group [] [] 0 lines
  end

let string_of_event = function
  | TReadHeader (a, l, s) -> String.concat ":" ["H"; string_of_z a; string_of_z l; string_of_z s]
  | TReadData (a, l, s) -> String.concat ":" ["D"; string_of_z a; string_of_z l; string_of_z s]
  | TYield i -> "Y:" ^ string_of_nat i
  | TGarbage a -> "G:" ^ string_of_z a

let string_of_events ev = if ev = [] then "-" else String.concat "," (List.map string_of_event ev)

let string_of_pc = function
  | PcPoll -> "P" | PcHdrSize -> "h" | PcDataSize -> "d" | PcGuardPoll -> "G" | PcGuardSize -> "g"
  | PcFinSize -> "f" | PcRemSize -> "r" | PcDone -> "."

let handle toks =
  match toks with
  | ["polls"; kind; fixed; hex; seqs] ->
    let file = asciis_of_string (bytes_of_hex hex) in
    let fixed = bool_of_string_ fixed in
    let seqs = parse_seqs seqs in
    (match kind with
     | "xyz" -> run_polls (xyz_read py_float_ok fixed) string_of_xyz_frame file seqs
     | "lmp" -> run_polls (lmp_read py_float_ok fixed) string_of_lmp_frame file seqs
     | _ -> "ERR bad kind")
  | ["wf"; kind; n; hex] ->
    let n = int_of_string n in
    let s = bytes_of_hex hex in
    let per = if kind = "xyz" then n + 2 else n + 9 in
    (match frames_of_file s per with
     | None -> "0"
     | Some frames ->
       let chk = if kind = "xyz" then xyz_wfb py_float_ok (nat_of_int n) else lmp_wfb py_float_ok (nat_of_int n) in
       string_of_bool_ (frames <> [] && List.for_all chk frames))
  | ["trr"; head; lay; sizes; total] ->
    let lay =
      list_of_string
        (fun hd -> match String.split_on_char ':' hd with
           | [h; d] -> (z_of_string h, z_of_string d)
           | _ -> failwith "bad layout")
        lay
    in
    let sizes = list_of_string z_of_string sizes in
    let (st, ev) = trr_run (z_of_string head) lay trr_init sizes in
    let pend = match st.t_pend with None -> "N" | Some (i, d) -> string_of_nat i ^ ":" ^ string_of_z d in
    let fin =
      if total = "-" then "-|-"
      else begin
        let (br, ev2) = trr_finish lay st (z_of_string total) in
        string_of_z br ^ "|" ^ string_of_events ev2
      end
    in
    String.concat " " [string_of_z st.t_br; string_of_z st.t_hs; pend; string_of_bool_ st.t_bad]
    ^ "|" ^ string_of_events ev ^ "|" ^ fin
  | ["trs"; recheck; head; lay; sizes; fin] ->
    let lay =
      list_of_string
        (fun hd -> match String.split_on_char ':' hd with
           | [h; d] -> (z_of_string h, z_of_string d)
           | _ -> failwith "bad layout")
        lay
    in
    let sizes = list_of_string z_of_string sizes in
    let rc = bool_of_string_ recheck in
    let (m, ev) = trr_sched rc (z_of_string head) lay sizes (z_of_string fin) in
    let pcs = trr_sched_pcs rc (z_of_string head) lay sizes (z_of_string fin) in
    let st = m.m_st in
    let pend = match st.t_pend with None -> "N" | Some (i, d) -> string_of_nat i ^ ":" ^ string_of_z d in
    String.concat "" (List.map string_of_pc pcs) ^ "|"
    ^ String.concat " " [string_of_pc m.m_pc; string_of_z st.t_br; string_of_z st.t_hs; pend; string_of_bool_ st.t_bad]
    ^ "|" ^ string_of_events ev
  | ["lsize"; lay] ->
    let lay =
      list_of_string
        (fun hd -> match String.split_on_char ':' hd with
           | [h; d] -> (z_of_string h, z_of_string d)
           | _ -> failwith "bad layout")
        lay
    in
    string_of_z (layout_size lay)
  | _ -> "ERR bad command"

let () = main_loop handle
