(* driver for the C18 (configuration validation) correspondence runner.
   request:  cfg I W M CAP QUANTIS LM1 ACCEPT_ALL SEED EE SECS
     I     interfaces       "-" | q,q,...
     W     workers          integer
     M     shooting moves   "-" | string over {s,w}
     CAP   interface_cap    N (absent) | q
     QUANTIS / ACCEPT_ALL   A (absent) | 0 | 1
     LM1   lambda_minus_one A (absent) | F (false) | q
     SEED                   A | integer
     EE    ensemble_engines A | - (empty list) | ens;ens;...   ens = _ (empty) | name,name,...
     SECS  top-level tables - | name:cls:inp:rest;...   cls = N|g|o   inp = N|integer
   answer:   <check_config c> <validb c> <check_config (normalise c)> <validb (normalise c)> <normalise c, 10 fields>
   request:  setup STEPS CUR I W M CAP QUANTIS LM1 ACCEPT_ALL SEED EE SECS      (the route into setup_config)
     STEPS simulation.steps integer
     CUR   [current] table  N (absent: fresh input file) | cstep:p   p = 1 if every active path has its traj.txt, else 0
   answer:   NONE (setup_config returns None) | <result> <validb c'> <c', 10 fields>   where setup_from = Some (c', result)
   requests  cfg0 ... / setup0 ...: the same with the code BEFORE proposed_fixes/C18_short_ensemble_engines.diff
     (check_config_g false / setup_from_g false: no length test on ensemble_engines); used by the harness only when
     its probe finds that the tree under test lacks that repair *)
let opt_of f none s = if s = none then None else Some (f s)
let string_of_opt f none o = match o with None -> none | Some x -> f x

let move_of_char = function 'w' -> Wf | _ -> Sh
let char_of_move = function Wf -> 'w' | Sh -> 's'
let moves_of_string s = if s = "-" then [] else List.map move_of_char (List.of_seq (String.to_seq s))
let string_of_moves l = if l = [] then "-" else String.of_seq (List.to_seq (List.map char_of_move l))

let lm1_of_string s = if s = "A" then None else if s = "F" then Some None else Some (Some (q_of_string s))
let string_of_lm1 = function None -> "A" | Some None -> "F" | Some (Some x) -> string_of_q x

let ee_of_string s =
  if s = "A" then None else if s = "-" then Some []
  else Some (List.map (fun e -> if e = "_" then [] else List.map z_of_string (String.split_on_char ',' e))
               (String.split_on_char ';' s))
let string_of_ee = function
  | None -> "A"
  | Some [] -> "-"
  | Some l -> String.concat ";" (List.map (fun e -> if e = [] then "_" else String.concat "," (List.map string_of_z e)) l)

let sec_of_string s =
  match String.split_on_char ':' s with
  | [n; c; i; r] ->
    (z_of_string n,
     { s_class = (match c with "g" -> Some Gromacs | "o" -> Some OtherClass | _ -> None);
       s_input = opt_of z_of_string "N" i; s_rest = z_of_string r })
  | _ -> failwith ("bad section " ^ s)
let string_of_sec (n, s) =
  String.concat ":" [string_of_z n;
                     (match s.s_class with Some Gromacs -> "g" | Some OtherClass -> "o" | None -> "N");
                     string_of_opt string_of_z "N" s.s_input; string_of_z s.s_rest]
let secs_of_string s = if s = "-" then [] else List.map sec_of_string (String.split_on_char ';' s)
let string_of_secs l = if l = [] then "-" else String.concat ";" (List.map string_of_sec l)

let string_of_err = function
  | EFewIntf -> "FewIntf" | ELm1 -> "Lm1" | EQuantisLm1 -> "QuantisLm1" | EWorkers -> "Workers"
  | EUnsorted -> "Unsorted" | EDuplicate -> "Duplicate" | EMoves -> "Moves"
  | ECapHigh -> "CapHigh" | ECapLow -> "CapLow" | ECapWf i -> "CapWf" ^ string_of_nat i
  | EEngineListShort -> "EngineListShort"
  | EEngineUndef e -> "EngineUndef" ^ string_of_z e | EGmxDup -> "GmxDup"
let string_of_result = function
  | Ok -> "OK"
  | ConfigError k -> "CE:" ^ string_of_err k
  | Crash IndexError -> "CRASH:IndexError"
  | Crash KeyError -> "CRASH:KeyError"

let string_of_config c =
  String.concat " "
    [string_of_list string_of_q c.interfaces; string_of_z c.workers; string_of_moves c.moves;
     string_of_opt string_of_q "N" c.cap; string_of_opt string_of_bool_ "A" c.quantis;
     string_of_lm1 c.lm1; string_of_opt string_of_bool_ "A" c.accept_all;
     string_of_opt string_of_z "A" c.seed; string_of_ee c.ens_engs; string_of_secs c.sections]

let config_of i w m cp qu l aa sd ee secs =
  { interfaces = list_of_string q_of_string i; workers = z_of_string w;
    moves = moves_of_string m; cap = opt_of q_of_string "N" cp;
    quantis = opt_of bool_of_string_ "A" qu; lm1 = lm1_of_string l;
    accept_all = opt_of bool_of_string_ "A" aa; seed = opt_of z_of_string "A" sd;
    ens_engs = ee_of_string ee; sections = secs_of_string secs }

let current_of_string s =
  if s = "N" then None
  else match String.split_on_char ':' s with
    | [k; p] -> Some { cstep = z_of_string k; paths_present = bool_of_string_ p }
    | _ -> failwith ("bad current " ^ s)

let handle_cfg fixed i w m cp qu l aa sd ee secs =
  let c = config_of i w m cp qu l aa sd ee secs in
  let n = normalise c in
  String.concat " "
    [string_of_result (check_config_g fixed c); string_of_bool_ (validb c);
     string_of_result (check_config_g fixed n); string_of_bool_ (validb n); string_of_config n]

let handle_setup fixed steps cur i w m cp qu l aa sd ee secs =
  let c = config_of i w m cp qu l aa sd ee secs in
  (match setup_from_g fixed (z_of_string steps) (current_of_string cur) c with
   | None -> "NONE"
   | Some (n, r) ->
     String.concat " " [string_of_result r; string_of_bool_ (validb n); string_of_config n])

let handle toks =
  match toks with
  | ["cfg"; i; w; m; cp; qu; l; aa; sd; ee; secs] -> handle_cfg true i w m cp qu l aa sd ee secs
  | ["cfg0"; i; w; m; cp; qu; l; aa; sd; ee; secs] -> handle_cfg false i w m cp qu l aa sd ee secs
  | ["setup"; steps; cur; i; w; m; cp; qu; l; aa; sd; ee; secs] ->
    handle_setup true steps cur i w m cp qu l aa sd ee secs
  | ["setup0"; steps; cur; i; w; m; cp; qu; l; aa; sd; ee; secs] ->
    handle_setup false steps cur i w m cp qu l aa sd ee secs
  | _ -> "ERR bad command"

let () = main_loop handle
