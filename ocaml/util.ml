(* Shared glue, textually appended after the extracted model (so that the extracted
   inductive types positive / z / nat / q are in scope).  BigZ is zarith's Z (aliased
   before the model is included, because the model defines its own module Z). *)

let rec pos_of_big (b : BigZ.t) : positive =
  if BigZ.equal b BigZ.one then XH
  else
    let q = BigZ.shift_right b 1 in
    if BigZ.is_even b then XO (pos_of_big q) else XI (pos_of_big q)

let rec big_of_pos (p : positive) : BigZ.t =
  match p with
  | XH -> BigZ.one
  | XO q -> BigZ.shift_left (big_of_pos q) 1
  | XI q -> BigZ.succ (BigZ.shift_left (big_of_pos q) 1)

let z_of_big (b : BigZ.t) : z =
  let s = BigZ.sign b in
  if s = 0 then Z0 else if s > 0 then Zpos (pos_of_big b) else Zneg (pos_of_big (BigZ.neg b))

let big_of_z (x : z) : BigZ.t =
  match x with Z0 -> BigZ.zero | Zpos p -> big_of_pos p | Zneg p -> BigZ.neg (big_of_pos p)

let z_of_string s = z_of_big (BigZ.of_string s)
let string_of_z x = BigZ.to_string (big_of_z x)
let z_of_int i = z_of_big (BigZ.of_int i)
let int_of_z x = BigZ.to_int (big_of_z x)

let rec nat_of_int (i : int) : nat = if i <= 0 then O else S (nat_of_int (i - 1))
let int_of_nat (n : nat) : int =
  let rec go n acc = match n with O -> acc | S m -> go m (acc + 1) in go n 0
let nat_of_string s = nat_of_int (int_of_string s)
let string_of_nat n = string_of_int (int_of_nat n)

(* rationals "num/den" or "num" *)
let q_of_string s : q =
  match String.index_opt s '/' with
  | None -> { qnum = z_of_string s; qden = XH }
  | Some i ->
    let a = BigZ.of_string (String.sub s 0 i) in
    let b = BigZ.of_string (String.sub s (i + 1) (String.length s - i - 1)) in
    let g = BigZ.gcd a b in
    let g = if BigZ.sign g = 0 then BigZ.one else g in
    { qnum = z_of_big (BigZ.div a g); qden = pos_of_big (BigZ.div b g) }

let string_of_q (x : q) : string =
  let a = big_of_z x.qnum and b = big_of_pos x.qden in
  let g = BigZ.gcd a b in
  let g = if BigZ.sign g = 0 then BigZ.one else g in
  let a = BigZ.div a g and b = BigZ.div b g in
  if BigZ.equal b BigZ.one then BigZ.to_string a else BigZ.to_string a ^ "/" ^ BigZ.to_string b

let bool_of_string_ s = (s = "1" || s = "T" || s = "true")
let string_of_bool_ b = if b then "1" else "0"

let split_on c s = if s = "" then [] else String.split_on_char c s
let tokens line = List.filter (fun t -> t <> "") (String.split_on_char ' ' line)

(* "a,b,c" -> list ; "-" or "" -> [] *)
let list_of_string f s = if s = "-" || s = "" then [] else List.map f (String.split_on_char ',' s)
let string_of_list f l = if l = [] then "-" else String.concat "," (List.map f l)

let string_of_option f o = match o with None -> "N" | Some x -> f x

let main_loop (handle : string list -> string) =
  (try
     while true do
       let line = input_line stdin in
       let out = (try handle (tokens line) with
           | Stack_overflow -> "ERR stack_overflow"
           | e -> "ERR " ^ Printexc.to_string e) in
       print_string out; print_char '\n'
     done
   with End_of_file -> ());
  flush stdout
