(* driver for the C02 (swap probabilities = permanent ratios) correspondence runner.
   Matrices: rows separated by ';', entries by ',', each "num/den" or "num"; "-" = no row.
   Lock vectors: string of 0/1.  Index lists: "a,b,c" or "-". *)
let row_of_string s = list_of_string q_of_string s
let mat_of_string s : q list list =
  if s = "-" || s = "" then [] else List.map row_of_string (String.split_on_char ';' s)
let string_of_row r = string_of_list (fun x -> string_of_q (qred x)) r
let string_of_mat (m : q list list) =
  if m = [] then "-" else String.concat ";" (List.map string_of_row m)
let string_of_omat = function None -> "N" | Some m -> string_of_mat m
let locks_of_string s = List.init (String.length s) (fun i -> s.[i] = '1')
let nats_of_string s = list_of_string nat_of_string s

(* random_prob is outside the model: the harness never sends blocks larger than 12 *)
let rp (_ : q list list) : q list list = failwith "random_prob is not modelled"

let string_of_blocks = function
  | FBsingle -> "S"
  | FBlist l ->
    string_of_list (fun ((a, b), d) -> string_of_nat a ^ ":" ^ string_of_nat b ^ ":" ^ string_of_z d) l

(* state machine ops: L:e  U:e  S:traj:ens  P  A:ens:v1,v2,... *)
let run_ops off n ops =
  let st = ref (rx_init (nat_of_string off) (nat_of_string n)) in
  let outs = List.map (fun op ->
      match String.split_on_char ':' op with
      | ["L"; e] -> let (s, ok) = rx_lock !st (nat_of_string e) in st := s; string_of_bool_ ok
      | ["U"; e] -> let (s, ok) = rx_unlock !st (nat_of_string e) in st := s; string_of_bool_ ok
      | ["S"; t; e] -> st := rx_swap !st (nat_of_string t) (nat_of_string e); "."
      | ["P"] -> let (s, p) = rx_prob rp !st in st := s; string_of_omat p
      | ["A"; e; v] -> let (s, p) = rx_add_traj rp !st (z_of_string e) (row_of_string v) in st := s; string_of_omat p
      | _ -> failwith ("bad op " ^ op)) ops in
  String.concat "|" outs ^ "|" ^ string_of_mat !st.r_state ^ "|"
  ^ String.concat "" (List.map string_of_bool_ !st.r_locks)

let handle toks =
  match toks with
  | ["inf"; off; w; locks] ->
    string_of_omat (inf_retis rp (nat_of_string off) (mat_of_string w) (locks_of_string locks))
  | ["infw"; off; w; locks; mi; pi] ->
    string_of_omat (inf_retis_with rp (nats_of_string mi) (nats_of_string pi) (nat_of_string off)
                      (mat_of_string w) (locks_of_string locks))
  | ["keys"; off; w; locks] ->
    let o = nat_of_string off and m = mat_of_string w and l = locks_of_string locks in
    string_of_list string_of_z (minus_keys o m l) ^ " " ^ string_of_list string_of_z (pos_keys o m l)
  | ["argsort"; ks] -> string_of_list string_of_nat (argsort (list_of_string z_of_string ks))
  | ["isargsort"; ks; idx] ->
    string_of_bool_ (is_argsort (list_of_string z_of_string ks) (nats_of_string idx))
  | ["quick"; w] -> string_of_mat (quick_prob (mat_of_string w))
  | ["fb"; w; off] -> string_of_blocks (find_blocks (mat_of_string w) (nat_of_string off))
  | ["pp"; w] -> string_of_omat (permanent_prob (mat_of_string w))
  | ["glynn"; w] -> string_of_option (fun x -> string_of_q (qred x)) (fast_glynn_perm (mat_of_string w))
  | ["pspec"; n; w] -> string_of_mat (pspec_table (nat_of_string n) (mat_of_string w))
  | ["perm"; w] -> string_of_q (perm_lists (mat_of_string w))
  | "seq" :: off :: n :: ops -> run_ops off n ops
  | _ -> "ERR bad command"

let () = main_loop handle
