(* driver for the random-stream model (C07)
   run <seed> <op> <op> ...    op = P<nens> | R<lost> (repaired restart) | O<lost> (original restart) | S<cstep> (original reset)
   -> entropy nchild | job;job;...   job = index:move,move/engine,engine   stream = e.k.k.k *)
let s_sid (e, key) = String.concat "." (List.map string_of_nat (e :: key))
let s_job j = string_of_nat j.js_index ^ ":" ^ String.concat "," (List.map s_sid j.js_move) ^ "/" ^ String.concat "," (List.map s_sid j.js_engine)
let parse_op s =
  let n = nat_of_string (String.sub s 1 (String.length s - 1)) in
  match s.[0] with
  | 'P' -> RPick n
  | 'R' -> RRestart (n, true)
  | 'O' -> RRestart (n, false)
  | 'S' -> RResetOrig n
  | _ -> failwith "bad op"
let handle toks =
  match toks with
  | "run" :: sd :: ops ->
    let s = rrun (rinit (nat_of_string sd)) (List.map parse_op ops) in
    string_of_nat s.entropy ^ " " ^ string_of_nat s.nchild ^ " | " ^
    (if s.issued = [] then "-" else String.concat ";" (List.map s_job s.issued))
  | _ -> "ERR bad command"
let () = main_loop handle
