(* driver for the C09 (moves) correspondence runner.
   request:  <cmd> <args...>      answer: one line (see handle) *)
let frame_of_string s =
  match String.split_on_char ':' s with
  | [o; t; r] -> { ford = z_of_string o; ftag = z_of_string t; frev = bool_of_string_ r; foid = O }
  | _ -> failwith ("bad frame " ^ s)
let string_of_frame f =
  String.concat ":" [string_of_z f.ford; string_of_z f.ftag; string_of_bool_ f.frev]
let path_of_string s =
  match String.split_on_char '|' s with
  | [fs; ml; t0] -> { pts = list_of_string frame_of_string fs; maxlen = nat_of_string ml; torigin = z_of_string t0 }
  | _ -> failwith ("bad path " ^ s)
let string_of_path p =
  String.concat "|" [string_of_list string_of_frame p.pts; string_of_nat p.maxlen; string_of_z p.torigin]
let string_of_status = function
  | ACC -> "ACC" | KOB -> "KOB" | BTL -> "BTL" | BTX -> "BTX" | BWI -> "BWI" | FTL -> "FTL"
  | FTX -> "FTX" | ZEROL -> "0-L" | NCR -> "NCR" | NSG -> "NSG" | AST -> "AST" | ERR -> "ERR"
let move_of_string = function "sh" -> Msh | "wf" -> Mwf | "ss" -> Mss | s -> failwith ("bad move " ^ s)
let zopt_of_string s = if s = "N" then None else Some (z_of_string s)
(* streams: "1,2;-;3"  ("_" = no stream at all) *)
let streams_of_string s =
  if s = "_" then [] else List.map (list_of_string z_of_string) (String.split_on_char ';' s)
let src_of_strings d k st =
  { s_draws = list_of_string q_of_string d; s_kicks = list_of_string zopt_of_string k;
    s_streams = streams_of_string st; s_ncall = O }
(* ens: i0,i1,i2,scL,scR,move,maxlength,allowmax,cap,njumps *)
let ens_of_string s =
  match String.split_on_char ',' s with
  | [a; b; c; l; r; m; ml; am; cap; nj] ->
    { e_i0 = z_of_string a; e_i1 = z_of_string b; e_i2 = z_of_string c;
      e_scL = bool_of_string_ l; e_scR = bool_of_string_ r; e_move = move_of_string m;
      e_maxlength = nat_of_string ml; e_allowmax = bool_of_string_ am; e_cap = zopt_of_string cap;
      e_njumps = nat_of_string nj }
  | _ -> failwith ("bad ensemble " ^ s)
let string_of_src s =
  String.concat ":" [string_of_int (List.length s.s_draws); string_of_int (List.length s.s_kicks);
                     string_of_int (List.length s.s_streams); string_of_nat s.s_ncall]
let string_of_result r =
  if r.r_status = ERR then "0 ERR" else if r.r_status = AST then "0 AST" else
  String.concat " " [string_of_bool_ r.r_acc; string_of_status r.r_status; string_of_path r.r_path;
                     String.concat ":" [string_of_z r.r_gen.g_order; string_of_nat r.r_gen.g_a; string_of_nat r.r_gen.g_b];
                     string_of_z r.r_weight; string_of_src r.r_src]

let handle toks =
  match toks with
  | ["shoot"; fx; i0; i1; i2; el; er; ml; am; pl; pr; old; ld; d; k; st] ->
    string_of_result
      (shoot (bool_of_string_ fx) (z_of_string i0) (z_of_string i1) (z_of_string i2)
         (bool_of_string_ el) (bool_of_string_ er) (nat_of_string ml) (bool_of_string_ am)
         (bool_of_string_ pl) (bool_of_string_ pr) (path_of_string old) (bool_of_string_ ld)
         (src_of_strings d k st))
  | ["wf"; fx; e; l; r; old; d; k; st] ->
    string_of_result
      (wire_fencing (bool_of_string_ fx) (ens_of_string e) (bool_of_string_ l) (bool_of_string_ r)
         (path_of_string old) (src_of_strings d k st))
  | ["sel"; fx; e; old; ld; d; k; st] ->
    string_of_result
      (select_shoot (bool_of_string_ fx) (ens_of_string e) (path_of_string old) (bool_of_string_ ld)
         (src_of_strings d k st))
  | ["runmd"; fx; e; old; ld; d; k; st; intfs; mvs; lm1; capg; minus] ->
    let ((r, kept), w) =
      run_md (bool_of_string_ fx) (ens_of_string e) (path_of_string old) (bool_of_string_ ld)
        (src_of_strings d k st) (list_of_string z_of_string intfs) (list_of_string move_of_string mvs)
        (zopt_of_string lm1) (zopt_of_string capg) (bool_of_string_ minus) in
    string_of_result r ^ " | " ^ string_of_path kept ^ " " ^
    (match w with None -> "N" | Some l -> string_of_list string_of_z l)
  | ["sidx"; u; l] -> string_of_nat (shooting_index (q_of_string u) (nat_of_string l))
  | ["dmax"; l; r; ml] -> string_of_nat (draw_maxlen (nat_of_string l) (q_of_string r) (nat_of_string ml))
  | ["atp"; fx; p; f; l; r] ->
    (* add_to_path, both variants; fx = "E" runs EngineM.add_to_path itself *)
    let res = if fx = "E" then add_to_path (path_of_string p) (frame_of_string f) (z_of_string l) (z_of_string r)
      else add_to_path_g (bool_of_string_ fx) (path_of_string p) (frame_of_string f) (z_of_string l) (z_of_string r) in
    (match res with
     | None -> "ERR"
     | Some (((p1, success), stop), add) ->
       String.concat " " [string_of_path p1; string_of_bool_ success; string_of_bool_ stop; string_of_bool_ add])
  | _ -> "ERR bad command"

let () = main_loop handle
