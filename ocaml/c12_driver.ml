(* driver for the C12 (engine polling loops) correspondence runner.
   Every command starts with FX = stop rule (1 = current /repo rule).
   CODE = signed return code of the program (-N = killed by signal N), STRICT = failure test on it
   (1 = `!= 0` as in /repo, 0 = the variant `> 0`).
   Common tokens:  ORD  = p:v:b:o,...   (order table)     TRAJ = p:v:b,...  (one conf per frame)
   Answer: KIND success pstate o:idx:rev,...      KIND in RET TRUNC RAISE IDXERR HANG *)
let conf_of_string s =
  match String.split_on_char ':' s with
  | [p; v; b] -> { cpos = z_of_string p; cvel = z_of_string v; cbox = z_of_string b }
  | _ -> failwith ("bad conf " ^ s)
let ord_of_string s =
  let tbl = list_of_string (fun e ->
      match String.split_on_char ':' e with
      | [p; v; b; o] -> (((z_of_string p, z_of_string v), z_of_string b), z_of_string o)
      | _ -> failwith ("bad ord entry " ^ e)) s in
  fun p v b -> ord_lookup tbl p v b
let string_of_frame f =
  String.concat ":" [string_of_z f.ford; string_of_z f.ftag; string_of_bool_ f.frev]
let string_of_ps = function
  | PKilled -> "K" | PExited c -> "E" ^ string_of_z c | PRunning -> "R" | PNone -> "N"
let string_of_path p = string_of_list string_of_frame p.pts
let string_of_result = function
  | Ret (p, s, ps) -> String.concat " " ["RET"; string_of_bool_ s; string_of_ps ps; string_of_path p]
  | Trunc (p, ps) -> String.concat " " ["TRUNC"; "0"; string_of_ps ps; string_of_path p]
  | Raise (p, ps) -> String.concat " " ["RAISE"; "0"; string_of_ps ps; string_of_path p]
  | IdxError -> "IDXERR 0 - -"
  | Hang p -> String.concat " " ["HANG"; "0"; "R"; string_of_path p]
let pair2 f g s = match String.split_on_char ':' s with
  | [a; b] -> (f a, g b) | _ -> failwith ("bad pair " ^ s)
let triple3 f g h s = match String.split_on_char ':' s with
  | [a; b; c] -> ((f a, g b), h c) | _ -> failwith ("bad triple " ^ s)

let handle toks =
  match toks with
  | ["lammps"; fx; fix; rv; l; r; ml; code; strict; dead; traj; ordt; reads] ->
    string_of_result
      (lammps_run (bool_of_string_ fx) (ord_of_string ordt) (z_of_string l) (z_of_string r) (bool_of_string_ rv)
         (list_of_string conf_of_string traj) (z_of_string code) (bool_of_string_ strict) (bool_of_string_ fix)
         (empty_path (nat_of_string ml) Z0) (bool_of_string_ dead)
         (list_of_string (pair2 nat_of_string bool_of_string_) reads))
  | ["cp2k"; fx; rv; l; r; ml; code; strict; dead; box0; traj; ordt; reads] ->
    string_of_result
      (cp2k_run (bool_of_string_ fx) (ord_of_string ordt) (z_of_string l) (z_of_string r) (bool_of_string_ rv)
         (list_of_string conf_of_string traj) (z_of_string code) (bool_of_string_ strict) (z_of_string box0)
         (empty_path (nat_of_string ml) Z0) (bool_of_string_ dead)
         (list_of_string (triple3 nat_of_string nat_of_string bool_of_string_) reads))
  | ["gromacs"; fx; fix; fix14; rv; l; r; ml; code; strict; dead; hsz; dsz; head0; fin; traj; ordt; eps] ->
    string_of_result
      (gromacs_run (bool_of_string_ fx) (ord_of_string ordt) (z_of_string l) (z_of_string r) (bool_of_string_ rv)
         (list_of_string conf_of_string traj) (z_of_string code) (bool_of_string_ strict) (bool_of_string_ fix) (bool_of_string_ fix14)
         (nat_of_string hsz) (nat_of_string dsz) (nat_of_string head0) (nat_of_string fin)
         (empty_path (nat_of_string ml) Z0) (bool_of_string_ dead)
         (list_of_string nat_of_string eps))
  | ["inproc"; fx; rv; l; r; ml; s; fine; ordt] ->
    string_of_result
      (inproc_loop (bool_of_string_ fx) (ord_of_string ordt) (z_of_string l) (z_of_string r) (bool_of_string_ rv)
         (nat_of_string s) (list_of_string conf_of_string fine) O
         (empty_path (nat_of_string ml) Z0) O)
  | ["calcorder"; rv; xyz; vel; box; fpos; fvel; fbox; sysbox; ordt] ->
    (* EngineBase.calculate_order with optional overrides ("N" = None) against the file the
       System points to (fbox "N" = no box entry in the file) *)
    let o s = if s = "N" then None else Some (z_of_string s) in
    string_of_z
      (calculate_order_args (ord_of_string ordt) (bool_of_string_ rv) (o xyz) (o vel) (o box)
         { fc_pos = z_of_string fpos; fc_vel = z_of_string fvel; fc_box = o fbox } (z_of_string sysbox))
  | ["inprocargs"; fx; rv; l; r; ml; s; boxmode; fpos; fvel; fbox; sysbox; fine; ordt] ->
    (* the in-process loop with its call site spelled out; boxmode 1 = the override is the
       state's own box (as in /repo), 0 = the box entry of the initial file (may be absent) *)
    let o s = if s = "N" then None else Some (z_of_string s) in
    let init = { fc_pos = z_of_string fpos; fc_vel = z_of_string fvel; fc_box = o fbox } in
    string_of_result
      (inproc_loop_args (bool_of_string_ fx) (ord_of_string ordt) (z_of_string l) (z_of_string r) (bool_of_string_ rv)
         (nat_of_string s) (if bool_of_string_ boxmode then (fun c -> Some c.cbox) else (fun _ -> init.fc_box))
         init (z_of_string sysbox) (list_of_string conf_of_string fine) O
         (empty_path (nat_of_string ml) Z0) O)
  | ["spec"; fx; rv; l; r; ml; traj; ordt] ->
    (* the specification: stop rule over the own-data frames of the trajectory *)
    (match propagate_loop_x (bool_of_string_ fx) (empty_path (nat_of_string ml) Z0)
             (own_stream (ord_of_string ordt) (bool_of_string_ rv) (list_of_string conf_of_string traj))
             (z_of_string l) (z_of_string r) O with
     | PR (p, s, _) -> String.concat " " ["RET"; string_of_bool_ s; string_of_path p]
     | PRExhausted p -> String.concat " " ["MORE"; "0"; string_of_path p]
     | PRError -> "IDXERR 0 -")
  | _ -> "ERR bad command"

let () = main_loop handle
