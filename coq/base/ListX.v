(* Small list lemmas missing from the 8.16 standard library. *)
From Coq Require Import List Lia.
Import ListNotations.

Lemma firstn_In {A} (x : A) n l : In x (firstn n l) -> In x l.
Proof.
  revert l; induction n as [|n IH]; intros l H; cbn in H; [tauto|].
  destruct l as [|a l]; cbn in *; [tauto|]. destruct H as [H|H]; auto.
Qed.

Lemma skipn_In {A} (x : A) n l : In x (skipn n l) -> In x l.
Proof.
  revert l; induction n as [|n IH]; intros l H; cbn in H; [auto|].
  destruct l as [|a l]; cbn in *; [tauto|]. auto.
Qed.
