(* Small list lemmas missing from the 8.16 standard library. *)
From Coq Require Import List Lia.
Import ListNotations.

Lemma firstn_In {A} (x : A) n l : In x (firstn n l) -> In x l.
Proof.
  revert l; induction n as [|n IH]; intros l H; cbn in H; [tauto|].
  destruct l as [|a l]; cbn in *; [tauto|]. destruct H as [H|H]; auto.
Qed.

Lemma skipn_In {A} (x : A) n l : In x (skipn n l) -> In x l.
Proof.
  revert l; induction n as [|n IH]; intros l H; cbn in H; [auto|].
  destruct l as [|a l]; cbn in *; [tauto|]. auto.
Qed.

Lemma NoDup_app_intro_single {A} (l : list A) x : NoDup l -> ~ In x l -> NoDup (l ++ [x]).
Proof.
  induction l as [|a l IH]; intros Hn Hx; cbn.
  - constructor; [intros []|constructor].
  - inversion Hn as [|? ? Ha Hl]; subst. constructor.
    + intros H. apply in_app_or in H as [H|[H|[]]]; [auto|]. subst. apply Hx. now left.
    + apply IH; auto. intros H. apply Hx. now right.
Qed.

Lemma NoDup_app_l {A} (l m : list A) : NoDup (l ++ m) -> NoDup l.
Proof.
  induction l as [|a l IH]; intros H; [constructor|]. cbn in H. inversion H as [|? ? Ha Hl]; subst.
  constructor; [|auto]. intros Hin. apply Ha. apply in_or_app. now left.
Qed.

Lemma NoDup_app_r {A} (l m : list A) : NoDup (l ++ m) -> NoDup m.
Proof. induction l as [|a l IH]; intros H; [exact H|]. cbn in H. inversion H; subst. auto. Qed.

Lemma NoDup_app_disj {A} (l m : list A) x : NoDup (l ++ m) -> In x l -> In x m -> False.
Proof.
  induction l as [|a l IH]; intros H Hl Hm; [destruct Hl|]. cbn in H. inversion H as [|? ? Ha Hn]; subst.
  destruct Hl as [->|Hl]; [apply Ha; apply in_or_app; now right | eauto].
Qed.

Lemma nth_error_ext {A} (l m : list A) : (forall k, nth_error l k = nth_error m k) -> l = m.
Proof.
  revert m; induction l as [|a l IH]; intros m H.
  - destruct m as [|b m]; [reflexivity|]. specialize (H 0). discriminate.
  - destruct m as [|b m]; [specialize (H 0); discriminate|].
    pose proof (H 0) as H0. cbn in H0. injection H0 as ->. f_equal. apply IH.
    intros k. exact (H (S k)).
Qed.
