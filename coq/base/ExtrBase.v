(* Anchor making every extraction contain the types positive, Z, nat and Q that the
   shared OCaml glue (ocaml/util.ml) converts to and from. *)
From Coq Require Import ZArith QArith.
Definition extr_anchor (x : Z) (n : nat) (q : Q) : Z * nat * Q := (Z.succ x, S n, Qplus q q).
