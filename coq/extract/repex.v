(* Extraction of the REPEX bookkeeping model: the trace acceptor used by C03, C04, C05, C14, C17.
   Directives: ExtrOcamlBasic only. *)
From Coq Require Import ZArith QArith List Extraction ExtrOcamlBasic.
From Inf Require Import base.ExtrBase model.RepexM model.MatchM.
Extraction Language OCaml.
Extraction "extract/repex_model.ml" extr_anchor step run pick pick_lock treat_output sort_trajstate
  assign_engines first_bad pick_enabled wij is_locked size results_of step_m matb stair_state.
