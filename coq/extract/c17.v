(* Extraction of the scheduler / task-runner model (C17).  Directives: ExtrOcamlBasic only. *)
From Coq Require Import ZArith List Extraction ExtrOcamlBasic.
From Inf Require Import base.ExtrBase model.SchedM proofs.SchedCrashP.
Extraction Language OCaml.
Extraction "extract/c17_model.ml" extr_anchor scheduler scheduler_g init_phase start main_prefix rrun rstep runner_init quiescent.
