(* Extraction of the scheduler / task-runner model (C17).  Directives: ExtrOcamlBasic only. *)
From Coq Require Import ZArith List Extraction ExtrOcamlBasic.
From Inf Require Import base.ExtrBase model.SchedM.
Extraction Language OCaml.
Extraction "extract/c17_model.ml" extr_anchor scheduler scheduler_g rrun rstep runner_init quiescent.
