(* Extraction of the disk/effect model (C08, C14).  Directives: ExtrOcamlBasic only. *)
From Coq Require Import List Extraction ExtrOcamlBasic.
From Inf Require Import base.ExtrBase model.DiskM.
Extraction Language OCaml.
Extraction "extract/c08_model.ml" extr_anchor effects crash recover apply_list loadable trim.
