(* Extraction of the moves model (shoot, wire_fencing, select_shoot, run_md glue) for the C09
   correspondence runner.  Directives: ExtrOcamlBasic only (bool, option, list, prod, unit,
   sumbool mapped to OCaml's own; nat, positive, Z, Q stay the extracted inductive types). *)
From Coq Require Import ZArith QArith List Extraction ExtrOcamlBasic.
From Inf Require Import base.ExtrBase model.PathM model.EngineM model.WeightM model.MovesM.
Extraction Language OCaml.
Extraction "extract/c09_model.ml" extr_anchor shoot wire_fencing select_shoot run_md
  shooting_index draw_maxlen propagate_g add_to_path_g add_to_path.
