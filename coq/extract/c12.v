(* Extraction of the polling-loop models for the C12 correspondence runner.
   Directives: ExtrOcamlBasic only. *)
From Coq Require Import ZArith QArith List Extraction ExtrOcamlBasic.
From Inf Require Import base.ExtrBase model.PathM model.EngineM model.PollM.
Extraction Language OCaml.
Extraction "extract/c12_model.ml" extr_anchor empty_path ord_lookup lammps_run cp2k_run
  gromacs_run inproc_loop own_stream every_from propagate_loop_x calculate_order_args inproc_loop_args.
