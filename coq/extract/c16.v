(* Extraction of the velocity-regeneration model for the C16 correspondence runner.
   Directives: ExtrOcamlBasic only (bool, option, list, prod, unit, sumbool mapped to
   OCaml's own; nat, positive, Z, Q stay the extracted inductive types). *)
From Coq Require Import ZArith QArith List Extraction ExtrOcamlBasic.
From Inf Require Import base.ExtrBase gen.ParamsC16 model.VelM.
Extraction Language OCaml.
Extraction "extract/c16_model.ml" extr_anchor modify_std_stream modify_ase_stream modify_file_stream beta_of kb_engine
  kinetic mom_col sumQ nq use_zm ase_lib_kB handed zm_of
  seq_results std_call ase_call.
