(* Extraction of the random-stream model (C07).  Directives: ExtrOcamlBasic only. *)
From Coq Require Import List Extraction ExtrOcamlBasic.
From Inf Require Import base.ExtrBase model.RngM.
Extraction Language OCaml.
Extraction "extract/c07_model.ml" extr_anchor rinit rrun all_streams scheduler_stream fixed_ops.
