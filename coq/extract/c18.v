(* Extraction of the configuration model for the C18 correspondence runner.
   Directives: ExtrOcamlBasic only (bool, option, list, prod, unit, sumbool mapped to
   OCaml's own; nat, positive, Z, Q stay the extracted inductive types). *)
From Coq Require Import ZArith QArith List Extraction ExtrOcamlBasic.
From Inf Require Import base.ExtrBase model.ConfigM.
Extraction Language OCaml.
Extraction "extract/c18_model.ml" extr_anchor check_config_g check_config normalise setup_config setup_from_g setup_from validb.
