(* Extraction of the codec model for the C19 correspondence runner.
   Directives: ExtrOcamlBasic only (bool, option, list, prod, unit, sumbool mapped to
   OCaml's own; nat, positive, Z, Q stay the extracted inductive types). *)
From Coq Require Import ZArith QArith List Extraction ExtrOcamlBasic.
From Inf Require Import base.ExtrBase gen.ParamsC19 model.CodecM.
Extraction Language OCaml.
Extraction "extract/c19_model.ml" extr_anchor
  print_fixed parse_fixed width_guard round_d
  g96_write_line g96_read_line g96_write_box read_floats
  xyz_write_line xyz_read_line xyz_write_box xyz_header_box xyz_frame
  swap_integer decode_header decode_frame encode_frame trr_frame_at
  mdp_edit mdp_read mdp_get cp2k_update_data cp2k_new_data lmp_write_for_run lmp_impl_write_for_run lmp_line_clean
  reverse_velocities lmp_read_rows shift_boxbounds
  cp2k_read cp2k_print cp2k_refs cp2k_apply
  fx_get fx_read fx_run fx_trace.
