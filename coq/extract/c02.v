(* Extraction of the swap-probability model (model/PermM.v) and of the independent
   specification Pspec (spec/PermS.v) for the C02 correspondence runner.
   Directives: ExtrOcamlBasic only (bool, option, list, prod, unit, sumbool mapped to
   OCaml's own; nat, positive, N, Z, Q stay the extracted inductive types). *)
From Coq Require Import ZArith NArith QArith List Extraction ExtrOcamlBasic.
From Inf Require Import base.ExtrBase model.PermM spec.PermS.
Extraction Language OCaml.
Extraction "extract/c02_model.ml" extr_anchor
  inf_retis inf_retis_with minus_keys pos_keys argsort is_argsort
  quick_prob find_blocks permanent_prob fast_glynn_perm
  rx_init rx_prob rx_lock rx_unlock rx_swap rx_add_traj
  Pspec_table perm_lists.
