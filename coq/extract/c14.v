(* Extraction of the store/load and deletion model for the C14 correspondence runner.
   Directives: ExtrOcamlBasic only (bool, option, list, prod, unit, sumbool mapped to
   OCaml's own; nat, positive, Z, Q stay the extracted inductive types). *)
From Coq Require Import ZArith QArith List Extraction ExtrOcamlBasic.
From Inf Require Import base.ExtrBase gen.ParamsC14 model.CodecM model.StoreM.
Extraction Language OCaml.
Extraction "extract/c14_model.ml" extr_anchor store store_gen store_keeps_own clean_dir load move_list write_txt archive_dir accepted_dir
  basename pjoin dirname stem reload mstep mrun mtrace init_state full_dir parse_int int_str.
