(* Extraction of the path-algebra model for the C15 correspondence runner.
   Directives: ExtrOcamlBasic only (bool, option, list, prod, unit, sumbool mapped to
   OCaml's own; nat, positive, Z, Q stay the extracted inductive types). *)
From Coq Require Import ZArith QArith List Extraction ExtrOcamlBasic.
From Inf Require Import base.ExtrBase model.PathM model.PathLimM.
Extraction Language OCaml.
Extraction "extract/c15_model.ml" extr_anchor paste reverse copy iadd append ordermin ordermax
  start_point end_point check_interfaces success
  lempty_path lappend lpaste lreverse lcopy.
