(* Extraction for C06 (generator persistence).  Directives: ExtrOcamlBasic only. *)
From Coq Require Import List Extraction ExtrOcamlBasic.
From Inf Require Import base.ExtrBase model.RngM.
Extraction Language OCaml.
Extraction "extract/c06_model.ml" extr_anchor rng_persist rng_recover.
