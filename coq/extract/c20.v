(* Extraction of the order-parameter model for the C20 correspondence runner.
   Directives: ExtrOcamlBasic only (bool, option, list, prod, unit, sumbool mapped to
   OCaml's own; nat, positive, Z, Q stay the extracted inductive types). *)
From Coq Require Import ZArith QArith List Extraction ExtrOcamlBasic.
From Inf Require Import base.ExtrBase model.GeomM.
Extraction Language OCaml.
Extraction "extract/c20_model.ml" extr_anchor pbc1 pbc_loop tieb
  distance_calc distancevel_calc position_calc velocity_calc dihedral_calc puckering_calc
  calculate_order calculate_order_args propagate_start propagate_frame propagate_frame0 path_reverse translate shift_images reverse_vel scale_sys rotate.
