(* Extraction of the on-the-fly reader models for the C13 correspondence runner.
   Directives: ExtrOcamlBasic only (bool, option, list, prod, unit, sumbool mapped to
   OCaml's own; nat, positive, Z, Q, ascii stay the extracted inductive types). *)
From Coq Require Import ZArith QArith List Ascii Extraction ExtrOcamlBasic.
From Inf Require Import base.ExtrBase model.ReadersM.
Extraction Language OCaml.
Extraction "extract/c13_model.ml" extr_anchor xyz_read lmp_read polls py_float_ok xyz_wfb lmp_wfb
  trr_init trr_run trr_finish layout_size trr_sched trr_sched_pcs.
