(* Extraction of the wire-fencing weight model AND of the independent specification
   function (used by the check as oracle) for the C10 correspondence runner.
   Directives: ExtrOcamlBasic only (bool, option, list, prod, unit, sumbool mapped to
   OCaml's own; nat, positive, Z, Q stay the extracted inductive types). *)
From Coq Require Import ZArith QArith List Extraction ExtrOcamlBasic.
From Inf Require Import base.ExtrBase model.PathM model.WeightM spec.WeightS.
Extraction Language OCaml.
Extraction "extract/c10_model.ml" extr_anchor
  wf_segments wf_nframes wf_pick seg_frames wf_seed wf_pick_seed compute_weight calc_cv_vector
  high_acc_ratio high_acc_accept
  wf_spec wf_spec_weight.
