(* Extraction of the zero-swap model for the C11 correspondence runner.
   Directives: ExtrOcamlBasic only (bool, option, list, prod, unit mapped to OCaml's own;
   nat, positive, Z, Q stay the extracted inductive types). *)
From Coq Require Import ZArith QArith List Extraction ExtrOcamlBasic.
From Inf Require Import base.ExtrBase model.PathM model.EngineM model.WeightM model.SwapM.
Extraction Language OCaml.
Extraction "extract/c11_model.ml" extr_anchor select_swap retis_swap_zero quantis_swap_zero
  neg_inf_for with_left quantis_exponent.
