(* Extraction of the zero-swap model for the C11 correspondence runner.
   Directives: ExtrOcamlBasic only (bool, option, list, prod, unit mapped to OCaml's own;
   nat, positive, Z, Q stay the extracted inductive types). *)
From Coq Require Import ZArith QArith List Extraction ExtrOcamlBasic.
From Inf Require Import base.ExtrBase model.PathM model.EngineM model.WeightM model.SwapM.
Extraction Language OCaml.
(* select_swap_g fixed_r fixed_q: true true = the code (select_swap), false = the code before
   proposed_fixes/C11_zero_swap_own_limits.diff for retis_swap_zero / quantis_swap_zero *)
Extraction "extract/c11_model.ml" extr_anchor select_swap_g select_swap retis_swap_zero quantis_swap_zero
  neg_inf_for with_left quantis_exponent.
