(* Executable model of the MD moves of infretis/core/tis.py:
     shoot, prepare_shooting_point, check_kick, shoot_backwards, wire_fencing, extender,
     subt_acceptance, select_shoot and run_md's "replace the path only on ACC" glue.
   (retis_swap_zero / quantis_swap_zero live in SwapM.v.)

   Everything outside the move logic is an input:
     * random numbers: a list of rationals u in [0,1) consumed left to right.  rgen.random()
       returns u; rgen.integers(a, b) returns a + floor(u * (b - a)) (numpy's contract is
       only "a value in [a, b)"; the harness' scripted generator uses exactly this map);
     * the engine: one list of order values per propagate call (the frames the MD program
       would produce after the initial point) and one optional "kicked" order value per
       modify_velocities call (velocity dependent order parameters);
     * frames carry an identity tag: old frames keep theirs, the k-th frame produced by the
       n-th propagate call of a move gets 1000*(n+1)+k, the kicked shooting point -1.

   [fx] selects the stop rule of EngineBase.add_to_path:
     fx = false : the rule as it is in EngineM.add_to_path (a frame that crosses an interface
                  AND is the maxlen-th frame is reported as a failure) — lead L11;
     fx = true  : the repaired rule  "if path.length == path.maxlen and not success".
   No proofs here. *)
From Coq Require Import ZArith QArith List Bool Lia.
Import ListNotations.
From Inf Require Import model.PathM model.EngineM model.WeightM.
Open Scope Z_scope.

(* ------------------------------------------------------------------ engine stop rule *)

Definition add_to_path_g (fx : bool) (p : path) (f : frame) (left right : Z)
  : option (path * bool * bool * bool) :=
  let '(p1, add) := append p f in
  let success := false in
  let stop := negb add in
  match rev (pts p1) with
  | [] => None
  | lastf :: _ =>
      let '(success, stop) :=
        if ford lastf <? left then (true, true)
        else if right <? ford lastf then (true, true)
        else (success, stop) in
      let '(success, stop) :=
        if (plen p1 =? maxlen p1)%nat && (if fx then negb success else true)
        then (false, true) else (success, stop) in
      Some (p1, success, stop, add)
  end.

Definition add_to_path_fixed := add_to_path_g true.

Fixpoint propagate_loop_g (fx : bool) (p : path) (stream : list frame) (left right : Z) (n : nat)
  : prop_result :=
  match stream with
  | [] => PRExhausted p
  | f :: r =>
      match add_to_path_g fx p f left right with
      | None => PRError
      | Some (p1, success, stop, _) =>
          if stop then PR p1 success (S n) else propagate_loop_g fx p1 r left right (S n)
      end
  end.

Definition propagate_g (fx : bool) (p : path) (frames : list frame) (left right : Z) : prop_result :=
  propagate_loop_g fx p frames left right 0.

Definition propagate_fixed (p : path) (init : frame) (stream : list frame) (left right : Z) :=
  propagate_g true p (init :: stream) left right.

(* ------------------------------------------------------------------ inputs / outputs *)

Inductive status :=
| ACC | KOB | BTL | BTX | BWI | FTL | FTX | ZEROL (* '0-L' *) | NCR | NSG
| AST   (* the final assertion of wire_fencing fails *)
| ERR.  (* any other Python exception: IndexError, ZeroDivisionError, ValueError, ... *)

Definition status_eqb (a b : status) : bool :=
  match a, b with
  | ACC, ACC | KOB, KOB | BTL, BTL | BTX, BTX | BWI, BWI | FTL, FTL | FTX, FTX
  | ZEROL, ZEROL | NCR, NCR | NSG, NSG | AST, AST | ERR, ERR => true
  | _, _ => false
  end.

Record src := mkS {
  s_draws : list Q;              (* remaining random numbers *)
  s_kicks : list (option Z);     (* remaining kicked order values *)
  s_streams : list (list Z);     (* remaining engine streams *)
  s_ncall : nat                  (* number of propagate calls made so far *)
}.

(* path.generated: ("sh", order, idx, len(back)-1) or ("wf", 9000, succ_seg, length) *)
Record gen := mkG { g_order : Z; g_a : nat; g_b : nat }.
Definition gen0 : gen := mkG 0 0 0.

Record result := mkR {
  r_acc : bool; r_status : status; r_path : path; r_gen : gen; r_weight : Z; r_src : src
}.

Definition fail (st : status) (p : path) (g : gen) (s : src) : result := mkR false st p g 0 s.
Definition error (s : src) : result := mkR false ERR (empty_path 0 0) gen0 0 s.

(* ------------------------------------------------------------------ small helpers *)

(* floor(u * n) for u = a/b >= 0 *)
Definition floor_mul (u : Q) (n : Z) : Z := (Qnum u * n) / Zpos (Qden u).

(* rgen.integers(1, L-1) driven by u *)
Definition shooting_index (u : Q) (L : nat) : nat :=
  S (Z.to_nat (floor_mul u (Z.of_nat (L - 2)))).

(* int((L-2)/r) for r = a/b > 0: floor of the exact quotient *)
Definition floor_div (n : Z) (r : Q) : Z := (n * Zpos (Qden r)) / Qnum r.

(* min(int((L-2)/r) + 2, maxlength) *)
Definition draw_maxlen (L : nat) (r : Q) (maxlength : nat) : nat :=
  Nat.min (Z.to_nat (floor_div (Z.of_nat (L - 2)) r) + 2) maxlength.

Fixpoint number_from (n : nat) (k : Z) (rv : bool) (os : list Z) : list frame :=
  match os with
  | [] => []
  | o :: r => mkF o (1000 * (Z.of_nat n + 1) + k) rv 0%nat :: number_from n (k + 1) rv r
  end.

(* the frames call number n of propagate offers to add_to_path: the initial point, then the stream *)
Definition mk_stream (n : nat) (rv : bool) (o0 : Z) (os : list Z) : list frame :=
  number_from n 0 rv (o0 :: os).

(* one engine.propagate call on an empty path with limit [ml] *)
Definition run_propagate (fx : bool) (ml : nat) (t0 : Z) (rv : bool) (o0 : Z) (left right : Z) (s : src)
  : option (path * bool * src) :=
  match s_streams s with
  | [] => None                                  (* script exhausted *)
  | os :: rest =>
      match propagate_g fx (empty_path ml t0) (mk_stream (s_ncall s) rv o0 os) left right with
      | PR p ok _ => Some (p, ok, mkS (s_draws s) (s_kicks s) rest (S (s_ncall s)))
      | _ => None
      end
  end.

Definition in_sc (scL scR : bool) (x : option side) : bool :=
  match x with Some SL => scL | Some SR => scR | _ => false end.

(* set(start_cond) == set(letter) for a one-letter string *)
Definition sc_is (scL scR : bool) (x : side) : bool :=
  match x with SL => scL && negb scR | SR => scR && negb scL | SNone => false end.

Definition is_SL (x : option side) : bool := match x with Some SL => true | _ => false end.

(* ------------------------------------------------------------------ shoot *)

(* shoot(ens_set, path, engine, start_cond=(pL,pR)) with
   ens_set = {interfaces (i0,i1,i2), start_cond (eL,eR), tis_set {maxlength, allowmaxlength}} *)
Definition shoot (fx : bool) (i0 i1 i2 : Z) (eL eR : bool) (maxlength : nat) (allowmax : bool)
           (pL pR : bool) (old : path) (old_ld : bool) (s : src) : result :=
  let L := plen old in
  match s_draws s with
  | [] => error s
  | u :: ds =>
  if (L <? 3)%nat then error s else
  let idx := shooting_index u L in
  match nth_error (pts old) idx with
  | None => error s
  | Some sp =>
  let '(kick, ks) := match s_kicks s with [] => (None, []) | k :: r => (k, r) end in
  let o' := match kick with Some o => o | None => ford sp end in
  let t0 := torigin old + Z.of_nat idx in
  let s1 := mkS ds ks (s_streams s) (s_ncall s) in
  let g0 := mkG o' idx 0 in
  (* check_kick *)
  if negb ((i0 <=? o') && (o' <? i2)) then
    fail KOB (mkP (pts (fst (append (empty_path maxlength 0) (mkF o' (-1) (frev sp) 0%nat)))) maxlength t0) g0 s1
  else
  (* maxlen *)
  let mres :=
    if old_ld || allowmax then Some (maxlength, s1)
    else match ds with
         | [] => None
         | r :: ds' =>
             if Qnum r <=? 0 then None    (* ZeroDivisionError *)
             else Some (draw_maxlen L r maxlength, mkS ds' ks (s_streams s) (s_ncall s))
         end in
  match mres with
  | None => error s
  | Some (ml, s2) =>
  (* shoot_backwards *)
  match run_propagate fx (ml - 1) t0 true o' i0 i2 s2 with
  | None => error s
  | Some (back, okb, s3) =>
  let trial0 := empty_path maxlength t0 in
  if negb okb then
    fail (if (maxlength - 1 <=? plen back)%nat then BTX else BTL) (iadd 0 trial0 back) g0 s3
  else
  match end_point back i0 i2 with
  | None => error s                       (* assert left <= right *)
  | Some ep =>
  if negb (in_sc pL pR (Some ep)) then fail BWI (iadd 0 trial0 back) g0 s3 else
  (* forward *)
  match run_propagate fx (ml - plen back + 1) t0 false o' i0 i2 s3 with
  | None => error s
  | Some (forw, okf, s4) =>
  let trial := paste back forw true (Some maxlength) in
  let g := mkG o' idx (plen back - 1) in
  if negb okf then
    fail (if (plen trial =? maxlength)%nat then FTX else FTL) trial g s4
  else
  let '(cst, cen, cmid) :=
    match check_interfaces trial [i0; i1; i2] with
    | Some r => (ci_start r, ci_end r, nth 1 (ci_cross r) false)
    | None => (None, None, false)
    end in
  if negb pL && (is_SL cst || is_SL cen) then mkR false ZEROL trial g 1 s4 else
  if negb (eL && eR) && negb cmid then mkR false NCR trial g 1 s4 else
  mkR true ACC trial g 1 s4
  end end end end end end.

(* ------------------------------------------------------------------ wire fencing *)

Record ensemble := mkE {
  e_i0 : Z; e_i1 : Z; e_i2 : Z;        (* interfaces *)
  e_scL : bool; e_scR : bool;          (* start_cond as a set *)
  e_move : move;                       (* mc_move *)
  e_maxlength : nat;                   (* tis_set maxlength *)
  e_allowmax : bool;                   (* tis_set allowmaxlength *)
  e_cap : option Z;                    (* tis_set interface_cap *)
  e_njumps : nat                       (* tis_set n_jumps (default 2 applied by the caller) *)
}.

Definition cap_of (e : ensemble) : Z := match e_cap e with Some c => c | None => e_i2 e end.

(* the n_jumps loop: shoot from the current segment, keep a copy of the last success *)
Fixpoint wf_jumps (fx : bool) (e : ensemble) (nj : nat) (seg : path) (succ : nat) (s : src)
  : option (path * nat * src) :=
  match nj with
  | O => Some (seg, succ, s)
  | S nj' =>
      let r := shoot fx (e_i1 e) (e_i1 e) (cap_of e) (e_scL e) (e_scR e) (e_maxlength e) true
                     true true seg false s in
      match r_status r with
      | ERR => None
      | _ => if r_acc r then wf_jumps fx e nj' (copy 0 (r_path r)) (S succ) (r_src r)
             else wf_jumps fx e nj' seg succ (r_src r)
      end
  end.

(* extender(source_seg, engine, ens_set, start_cond) -> (success, trial, status); None = exception *)
Definition extender (fx : bool) (e : ensemble) (seg : path) (s : src) : option (bool * path * status * src) :=
  let i0 := e_i0 e in let i2 := e_i2 e in let ml := e_maxlength e in
  match pts seg with
  | [] => None
  | f0 :: _ =>
  let step1 :=
    if (i0 <=? ford f0) && (ford f0 <? i2) then
      match run_propagate fx ml (torigin seg) true (ford f0) i0 i2 s with
      | None => None
      | Some (back, _, s1) => Some (paste back seg true (Some ml), s1)
      end
    else Some (copy 0 seg, s) in
  match step1 with
  | None => None
  | Some (trial, s1) =>
  match rev (pts trial) with
  | [] => None
  | fl :: _ =>
  let step2 :=
    if (i0 <=? ford fl) && (ford fl <? i2) then
      match run_propagate fx ml 0 false (ford fl) i0 i2 s1 with
      | None => None
      | Some (forth, _, s2) =>
          Some (mkP (removelast (pts trial) ++ pts forth) (maxlen trial) (torigin trial), s2)
      end
    else Some (trial, s1) in
  match step2 with
  | None => None
  | Some (trial2, s2) =>
      if (ml <=? plen trial2)%nat then Some (false, trial2, FTX, s2)
      else Some (true, trial2, ACC, s2)
  end end end end.

(* subt_acceptance(trial, ens_set, engine, start_cond) -> (success, trial, trial.weight) *)
Definition subt_acceptance (e : ensemble) (scL scR : bool) (trial : path) : option (bool * path * Z) :=
  let c3 := match e_move e with Mwf => cap_of e | _ => e_i2 e end in
  match compute_weight (orders trial) (e_i0 e) (e_i1 e) c3 (e_move e) with
  | None => None
  | Some w =>
  match start_point trial (e_i0 e) c3 with
  | None => None
  | Some sp =>
  let '(trial1, w1) := if negb (sc_is scL scR sp) then (reverse 0 trial true, 0) else (trial, w) in
  match start_point trial1 (e_i0 e) c3 with
  | None => None
  | Some sp1 =>
      if negb (sc_is scL scR sp1) then Some (false, trial1, w1) else Some (true, trial1, w1)
  end end end.

Definition wire_fencing (fx : bool) (e : ensemble) (scL scR : bool) (old : path) (s : src) : result :=
  let cap := cap_of e in
  let ords := orders old in
  if (wf_nframes (e_i1 e) cap ords =? 0)%nat then fail NSG old gen0 s else
  match s_draws s with
  | [] => error s
  | u :: ds =>
  match wf_pick (e_i1 e) cap ords u with
  | None => error s       (* the pick loop fell through: an empty segment, shoot raises *)
  | Some sg =>
  let seg0 := mkP (pts (fst (append_all (empty_path (maxlen old) 0) (seg_frames sg (pts old)))))
                  (maxlen old) (torigin old) in
  let s1 := mkS ds (s_kicks s) (s_streams s) (s_ncall s) in
  match wf_jumps fx e (e_njumps e) seg0 0%nat s1 with
  | None => error s
  | Some (seg, succ, s2) =>
  if (succ =? 0)%nat then fail NSG old (mkG 9000 0 (plen old)) s2 else
  match extender fx e seg s2 with
  | None => error s
  | Some (ok1, trial, st1, s3) =>
  if negb ok1 then fail st1 trial (mkG 9000 succ (plen trial)) s3 else
  match subt_acceptance e scL scR trial with
  | None => error s
  | Some (ok2, trial2, w) =>
  let g := mkG 9000 succ (plen trial2) in
  if negb ok2 then mkR false BWI trial2 g w s3 else
  match start_point trial2 (e_i0 e) (e_i2 e) with
  | None => error s
  | Some sp => if sc_is scL scR sp then mkR true ACC trial2 g w s3 else mkR false AST trial2 g w s3
  end end end end end end.

(* ------------------------------------------------------------------ select_shoot / run_md *)

(* select_shoot with one picked ensemble: dispatch on mc_move, start_cond = the ensemble's *)
Definition select_shoot (fx : bool) (e : ensemble) (old : path) (old_ld : bool) (s : src) : result :=
  match e_move e with
  | Msh => shoot fx (e_i0 e) (e_i1 e) (e_i2 e) (e_scL e) (e_scR e) (e_maxlength e) (e_allowmax e)
                 (e_scL e) (e_scR e) old old_ld s
  | Mwf => wire_fencing fx e (e_scL e) (e_scR e) old s
  | Mss => error s        (* KeyError: sh_moves has no 'ss' *)
  end.

(* run_md: the path kept by the ensemble afterwards and the weights attached to it *)
Definition run_md (fx : bool) (e : ensemble) (old : path) (old_ld : bool) (s : src)
           (intfs : list Z) (mvs : list move) (lm1 : option Z) (capg : option Z) (minus : bool)
  : result * path * option (list Z) :=
  let r := select_shoot fx e old old_ld s in
  if status_eqb (r_status r) ACC
  then (r, r_path r, calc_cv_vector (orders (r_path r)) intfs mvs lm1 capg minus)
  else (r, old, None).
