(* The lattice random walk used as the exactly solvable test system of property C01 (the
   plug-in engine py/plugins/engines.py LatticeEngine): x -> x +- 1 with probability 1/2,
   interfaces at k + 1/2.  A path of ensemble [k+] has reached lambda_k, i.e. position k+1; it
   reaches lambda_{k+1} (position k+2) before returning to the stable state (position 0) with the
   gambler's-ruin probability.  Exact rational arithmetic.  No proofs in this file. *)
From Coq Require Import QArith Qminmax List.
Open Scope Q_scope.

(* exact conditional crossing probability P(lambda_{k+1} | lambda_k) *)
Definition cross_exact (k : nat) : Q := inject_Z (Z.of_nat (k + 1)) / inject_Z (Z.of_nat (k + 2)).

(* the estimator the check applies to the data file: weighted fraction of paths of ensemble
   [k+] that reach lambda_{k+1}; a row is (frac/weight, reached?) *)
Fixpoint est_num (rows : list (Q * bool)) : Q :=
  match rows with nil => 0 | (a, b) :: r => (if b then a else 0) + est_num r end.
Fixpoint est_den (rows : list (Q * bool)) : Q :=
  match rows with nil => 0 | (a, _) :: r => a + est_den r end.
Definition estimator (rows : list (Q * bool)) : Q := est_num rows / est_den rows.

(* Metropolis-Hastings acceptance *)
Definition mh_acc (a b : Q) : Q := Qmin 1 (b / a).
