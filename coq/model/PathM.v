(* Executable model of infretis/classes/path.py (Path, paste_paths) and the part of
   classes/system.py it relies on.  No proofs here.

   A frame (System) is reduced to what the path algebra observes: its PROGRESS COORDINATE
   [ford] = order[0] (an order parameter may return further collective variables,
   order[1:]; the code never reads them and they belong to the payload), the
   velocity-reversal flag, an object identity [oid] used only to
   talk about aliasing (Path.copy/reverse/__iadd__ allocate new System objects,
   paste_paths and append do not), and an opaque payload [ftag] standing for EVERYTHING
   ELSE the System object carries: every other attribute in vars(frame) -- config,
   order[1:], pos, vel, ekin, vpot, box, temperature and any attribute attached later.
   The path algebra never looks inside the payload; System.copy() must carry it over
   unchanged.  The C15 check encodes the whole of vars(frame) into it (one integer per
   distinct content), so the theorems hold for arbitrary contents of those fields. *)
From Coq Require Import ZArith List Bool Lia.
Import ListNotations.
Open Scope Z_scope.

Record frame := mkF { ford : Z; ftag : Z; frev : bool; foid : nat }.

Record path := mkP { pts : list frame; maxlen : nat; torigin : Z }.

Definition plen (p : path) : nat := length (pts p).

Definition empty_path (ml : nat) (t0 : Z) : path := mkP [] ml t0.

(* Path.append: refuses when length >= maxlen *)
Definition append (p : path) (f : frame) : path * bool :=
  if (plen p <? maxlen p)%nat then (mkP (pts p ++ [f]) (maxlen p) (torigin p), true)
  else (p, false).

(* a loop "for f in fs: if not append: return" *)
Fixpoint append_all (p : path) (fs : list frame) : path * bool :=
  match fs with
  | [] => (p, true)
  | f :: r => let '(p', ok) := append p f in
              if ok then append_all p' r else (p', false)
  end.

(* System.copy(): new object, same fields -- order, velocity flag and the whole payload *)
Definition copy_frame (o : nat) (f : frame) : frame := mkF (ford f) (ftag f) (frev f) o.

Fixpoint copy_frames (next : nat) (fs : list frame) : list frame :=
  match fs with
  | [] => []
  | f :: r => copy_frame next f :: copy_frames (S next) r
  end.

Definition flip (f : frame) : frame := mkF (ford f) (ftag f) (negb (frev f)) (foid f).

(* paste_paths(path_back, path_forw, overlap, maxlen) *)
Definition paste (back forw : path) (overlap : bool) (ml : option nat) : path :=
  let m := match ml with
           | Some m => m
           | None => if (maxlen back =? maxlen forw)%nat then maxlen back
                     else Nat.max (maxlen back) (maxlen forw)
           end in
  let np := empty_path m (torigin back - Z.of_nat (plen back) + 1) in
  let '(p1, ok) := append_all np (rev (pts back)) in
  if ok then fst (append_all p1 (if overlap then tl (pts forw) else pts forw))
  else p1.

(* Path.reverse(order_function=None or velocity independent, rev_v) ;
   [next] = first unused object identity *)
Definition reverse (next : nat) (p : path) (rev_v : bool) : path :=
  let cp := copy_frames next (rev (pts p)) in
  let cp := if rev_v then map flip cp else cp in
  fst (append_all (empty_path (maxlen p) 0) cp).

(* Path.copy() *)
Definition copy (next : nat) (p : path) : path :=
  let np := fst (append_all (empty_path (maxlen p) 0) (copy_frames next (pts p))) in
  mkP (pts np) (maxlen p) (torigin p).

(* self += other *)
Definition iadd (next : nat) (p other : path) : path :=
  fst (append_all p (copy_frames next (pts other))).

(* ------------------------------------------------------------------ extremes *)

(* np.argmin / np.argmax: first index of the extreme value *)
Fixpoint argmin_from (best : Z) (bi : nat) (i : nat) (l : list Z) : Z * nat :=
  match l with
  | [] => (best, bi)
  | x :: r => if x <? best then argmin_from x i (S i) r else argmin_from best bi (S i) r
  end.

Fixpoint argmax_from (best : Z) (bi : nat) (i : nat) (l : list Z) : Z * nat :=
  match l with
  | [] => (best, bi)
  | x :: r => if best <? x then argmax_from x i (S i) r else argmax_from best bi (S i) r
  end.

Definition orders (p : path) : list Z := map ford (pts p).

Definition ordermin (p : path) : option (Z * nat) :=
  match orders p with [] => None | x :: r => Some (argmin_from x 0%nat 1%nat r) end.

Definition ordermax (p : path) : option (Z * nat) :=
  match orders p with [] => None | x :: r => Some (argmax_from x 0%nat 1%nat r) end.

Inductive side := SL | SR | SNone.   (* 'L', 'R', None / '?' *)

Definition classify (left right x : Z) : side :=
  if x <=? left then SL else if right <=? x then SR else SNone.

(* get_start_point / get_end_point: None models the AssertionError (left > right) and
   the IndexError on an empty path *)
Definition start_point (p : path) (left right : Z) : option side :=
  if right <? left then None else
  match orders p with [] => None | x :: _ => Some (classify left right x) end.

Definition end_point (p : path) (left right : Z) : option side :=
  if right <? left then None else
  match rev (orders p) with [] => None | x :: _ => Some (classify left right x) end.

Definition zmin_list (d : Z) (l : list Z) : Z := fold_left Z.min l d.
Definition zmax_list (d : Z) (l : list Z) : Z := fold_left Z.max l d.

Record ci_result := mkCI { ci_start : option side; ci_end : option side; ci_middle : bool; ci_cross : list bool }.

(* check_interfaces(interfaces); interfaces must be non-empty with a second entry
   (the code indexes cross[1]) *)
Definition check_interfaces (p : path) (intf : list Z) : option ci_result :=
  match ordermin p, ordermax p, intf with
  | Some (omin, _), Some (omax, _), i0 :: irest =>
      let cross := map (fun l => (omin <? l) && (l <=? omax)) intf in
      let left := zmin_list i0 irest in
      let right := zmax_list i0 irest in
      Some (mkCI (start_point p left right) (end_point p left right) (nth 1 cross false) cross)
  | _, _, _ => None
  end.

(* Path.success(target): self.ordermax[0] > target (strict); None models the error on an
   empty path *)
Definition success (p : path) (target : Z) : option bool :=
  match ordermax p with
  | Some (omax, _) => Some (target <? omax)
  | None => None
  end.
