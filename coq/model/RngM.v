(* Executable model of the random-stream bookkeeping of infretis/classes/repex.py:
   numpy SeedSequence identities.  A stream is identified by (entropy, spawn_key); spawning
   the n-th child of a sequence appends n to the key.  The scheduler owns (seed, []);
   pick()/pick_lock() spawn one child per job (spawn index = number of children spawned so
   far) and from it one child per ensemble of the job (the move stream), prep_md_items spawns
   from each of those the engine stream.  set_rgen() after a restart rebuilds the scheduler's
   sequence.  [fixed] selects the repaired set_rgen (fix 439cda4: entropy = the run's seed,
   spawn counter = cstep + number of recorded in-flight jobs, done once) or the original one
   (entropy 0, counter = cstep, re-done before every first-phase pick).
   No proofs in this file. *)
From Coq Require Import List Bool Arith Lia.
Import ListNotations.
Open Scope nat_scope.

Definition sid : Type := (nat * list nat)%type.   (* entropy, spawn key *)

Record jobstreams := mkJS { js_index : nat;            (* spawn index of the job's child *)
                            js_move : list sid;        (* one per ensemble of the job *)
                            js_engine : list sid }.

Record rstate := mkRS {
  seed : nat;              (* config['simulation']['seed'] *)
  entropy : nat;           (* entropy of the scheduler's current SeedSequence *)
  nchild : nat;            (* its n_children_spawned *)
  issued : list jobstreams (* jobs issued and not lost, oldest first *)
}.

Definition rinit (sd : nat) : rstate := mkRS sd sd 0 [].

Definition scheduler_stream (s : rstate) : sid := (entropy s, []).

Definition job_of (e n nens : nat) : jobstreams :=
  mkJS n (map (fun k => (e, [n; k])) (seq 0 nens)) (map (fun k => (e, [n; k; 0])) (seq 0 nens)).

Inductive rop :=
| RPick (nens : nat)                 (* a job on nens (1 or 2) ensembles is issued *)
| RRestart (lost : nat) (fixed : bool)
    (* stop + restart: the [lost] most recently issued jobs (issued after the last write of
       the restart file) are forgotten; set_rgen rebuilds the sequence *)
| RResetOrig (cstep : nat).          (* original code only: set_rgen() called again by pick_lock *)

Definition removelast_n {A} (n : nat) (l : list A) : list A := firstn (length l - n) l.

Definition rstep (s : rstate) (o : rop) : rstate :=
  match o with
  | RPick nens => mkRS (seed s) (entropy s) (S (nchild s)) (issued s ++ [job_of (entropy s) (nchild s) nens])
  | RRestart lost fixed =>
      (* cstep + len(locked) = jobs issued before the last write = nchild - lost *)
      if fixed then mkRS (seed s) (seed s) (nchild s - lost) (removelast_n lost (issued s))
      else mkRS (seed s) 0 (nchild s - lost) (removelast_n lost (issued s))
  | RResetOrig c => mkRS (seed s) 0 c (issued s)
  end.

Definition rrun (s : rstate) (ops : list rop) : rstate := fold_left rstep ops s.

Definition all_streams (s : rstate) : list sid :=
  flat_map (fun j => js_move j ++ js_engine j) (issued s).

(* only repaired restarts, no original resets *)
Definition fixed_ops (ops : list rop) : bool :=
  forallb (fun o => match o with RPick _ => true | RRestart _ f => f | RResetOrig _ => false end) ops.

(* ------------------------------------------------------------------ draw sites (C07) *)

(* classification of the receiver of a random draw found in the sources *)
Inductive recv := RJobStream | RSchedulerStream | RGlobal | RFresh | RUnknown.

Definition site_ok (moves_code : bool) (r : recv) : bool :=
  match r with
  | RJobStream => true
  | RSchedulerStream => negb moves_code   (* the scheduler's own stream may only be used by the scheduler *)
  | _ => false
  end.

(* ------------------------------------------------------------------ persistence (C06) *)

(* what write_toml stores of the scheduler's generator: the bit-generator state (opaque
   here: a number), and the spawn counter ONLY when it differs from cstep + #locked
   (fix: rng_children); the seed is part of the configuration *)
Record rng_full := mkRF { rf_entropy : nat; rf_nchild : nat; rf_bits : nat }.

Record rng_disk := mkRD { rd_seed : nat; rd_cstep : nat; rd_nlocked : nat;
                          rd_children : option nat; rd_bits : nat }.

Definition rng_persist (sd cstep nlocked : nat) (g : rng_full) : rng_disk :=
  mkRD sd cstep nlocked
       (if rf_nchild g =? cstep + nlocked then None else Some (rf_nchild g))
       (rf_bits g).

(* set_rgen.  [fixed = false]: the original code (entropy 0, counter = cstep) *)
Definition rng_recover (fixed : bool) (d : rng_disk) : rng_full :=
  if fixed then
    mkRF (rd_seed d)
         (match rd_children d with Some n => n | None => rd_cstep d + rd_nlocked d end)
         (rd_bits d)
  else mkRF 0 (rd_cstep d) (rd_bits d).
