(* Executable model of infretis/setup.py: check_config and the defaults filled in by
   setup_config ("normalise"), plus the property's own list of what a valid
   configuration is ([valid], declarative; [validb], its boolean form used as an oracle by
   the harness), and the route by which a configuration reaches setup_config (fresh input
   file or restart file: [setup_from]).  No proofs here.

   The model follows the code WITH /verif/proposed_fixes/C18_check_config.diff applied
   (lead L8; see py/checks/c18.py for what the unpatched code does differently):
     - the "at least 2 interfaces" test comes first, so nothing is indexed before it;
     - the interface cap is tested with "is not None" (a cap of 0.0 is a number);
     - the lower cap bound is intf[0] and a cap that is not strictly above the interface
       of a wire-fencing ensemble is rejected;
     - setup_config does not index the (empty) default engine list when quantis is on.
   and WITH /verif/proposed_fixes/C18_short_ensemble_engines.diff applied:
     - an explicit ensemble_engines list with fewer entries than there are interfaces is a
       configuration error (raised right before the undefined-engine test).  Before that
       repair such a list was accepted and the first picks then indexed it out of range
       (REPEX_state.prep_md_items: ens_engs[ens_num + 1], [pick_engines] below).  The boolean
       [fixed] of [check_engines_g] / [stage2_g] / [check_config_g] / [setup_config_g] /
       [setup_from_g] selects the code with ([true], = [check_config], the model every
       theorem is about) or without that test ([false], = [check_config_before_fix], kept so
       that the defect stays refuted in theorems/C18.v and so that the harness can tie itself
       to a tree that lacks the repair while the oracle reports it).
   setup_config's defaults are modelled one statement at a time, in program order, with
   check_config last (validation follows normalisation; see [normalise], [setup_config]).
   Everything else is the code as it is, statement by statement, including the exceptions
   Python would raise (IndexError / KeyError are explicit results, not swept away).

   Python truthiness is explicit:  interface_cap : absent | number,
   lambda_minus_one : absent | false | number  (0.0 is falsy in "quantis and l_-1"),
   ensemble_engines : absent | list  (the empty list is falsy in setup_config).
   Engine / section names are opaque identifiers (Z); only "engine" and "engine0", the
   names setup_config invents, are distinguished.  A top-level table is reduced to what
   check_config reads: its "class" (gromacs or not, or missing), its "input_path"
   (an identifier, or missing) and a fingerprint of all remaining settings. *)
From Coq Require Import ZArith QArith List Bool Sorted SetoidList.
Import ListNotations.

Definition name := Z.
Definition name_engine : name := 0%Z.    (* "engine"  *)
Definition name_engine0 : name := 1%Z.   (* "engine0" *)

Inductive move := Sh | Wf.               (* check_config only ever asks  move == "wf" *)
Inductive eclass := Gromacs | OtherClass.

Record section := mkS { s_class : option eclass; s_input : option Z; s_rest : Z }.

Record config := mkC {
  interfaces : list Q;                      (* simulation.interfaces *)
  workers : Z;                              (* runner.workers *)
  moves : list move;                        (* simulation.shooting_moves *)
  cap : option Q;                           (* tis_set.interface_cap: absent | number *)
  quantis : option bool;                    (* tis_set.quantis: absent | bool *)
  lm1 : option (option Q);                  (* tis_set.lambda_minus_one: absent | false | number *)
  accept_all : option bool;                 (* tis_set.accept_all *)
  seed : option Z;                          (* simulation.seed *)
  ens_engs : option (list (list name));     (* simulation.ensemble_engines *)
  sections : list (name * section)          (* the top-level tables: config.keys() *)
}.

Inductive cfg_err :=
| EFewIntf | ELm1 | EQuantisLm1 | EWorkers | EUnsorted | EDuplicate | EMoves
| ECapHigh | ECapLow | ECapWf (i : nat) | EEngineListShort | EEngineUndef (e : name) | EGmxDup.
Inductive exn := IndexError | KeyError.
Inductive result := Ok | ConfigError (k : cfg_err) | Crash (e : exn).

(* ------------------------------------------------------------------ comparisons *)
Definition qle (a b : Q) : bool := Qle_bool a b.            (* a <= b *)
Definition qlt (a b : Q) : bool := negb (Qle_bool b a).     (* a <  b *)
Definition qeq (a b : Q) : bool := Qeq_bool a b.            (* a == b (1 == 1.0) *)

(* sorted(l): a stable insertion sort *)
Fixpoint insert (x : Q) (l : list Q) : list Q :=
  match l with
  | [] => [x]
  | y :: r => if qle x y then x :: y :: r else y :: insert x r
  end.
Fixpoint py_sorted (l : list Q) : list Q :=
  match l with [] => [] | x :: r => insert x (py_sorted r) end.

(* l1 == l2 on lists of numbers *)
Fixpoint list_qeqb (a b : list Q) : bool :=
  match a, b with
  | [], [] => true
  | x :: r, y :: s => qeq x y && list_qeqb r s
  | _, _ => false
  end.

(* set(l): one representative per ==-class; only its size is observed *)
Fixpoint py_set (l : list Q) : list Q :=
  match l with
  | [] => []
  | x :: r => if existsb (qeq x) r then py_set r else x :: py_set r
  end.

Definition last_error (l : list Q) : option Q :=
  match l with [] => None | x :: r => Some (last r x) end.

(* ------------------------------------------------------------------ field access *)
Definition quantis_val (c : config) : bool :=
  match quantis c with Some b => b | None => false end.      (* .get("quantis", False) *)
Definition lm1_val (c : config) : option Q :=                  (* None = False *)
  match lm1 c with Some (Some v) => Some v | _ => None end.
Definition lm1_truthy (c : config) : bool :=
  match lm1_val c with Some v => negb (qeq v 0) | None => false end.
Definition is_wf (m : move) : bool := match m with Wf => true | Sh => false end.

Fixpoint lookup (k : name) (s : list (name * section)) : option section :=
  match s with
  | [] => None
  | (k', v) :: r => if Z.eqb k k' then Some v else lookup k r
  end.
Definition defined (s : list (name * section)) (k : name) : bool :=
  match lookup k s with Some _ => true | None => false end.

Definition mem (k : name) (l : list name) : bool := existsb (Z.eqb k) l.
Fixpoint uniq_acc (acc l : list name) : list name :=
  match l with
  | [] => acc
  | x :: r => if mem x acc then uniq_acc acc r else uniq_acc (acc ++ [x]) r
  end.
Definition unique_engines (ee : list (list name)) : list name := uniq_acc [] (concat ee).

(* ------------------------------------------------------------------ check_config *)

(* if lambda_minus_one is not False and lambda_minus_one >= intf[0]: raise *)
Definition check_lm1 (c : config) (rest : result) : result :=
  match lm1_val c with
  | None => rest
  | Some v =>
    match hd_error (interfaces c) with
    | None => Crash IndexError
    | Some i0 => if qle i0 v then ConfigError ELm1 else rest
    end
  end.

(* for i, move in enumerate(sh_moves[:n_ens]):
       intf_i = intf[max(i - 1, 0)]
       if move == "wf" and intf_cap <= intf_i: raise *)
Fixpoint wf_loop (intf : list Q) (q : Q) (i : nat) (ms : list move) : result :=
  match ms with
  | [] => Ok
  | m :: r =>
    match nth_error intf (pred i) with
    | None => Crash IndexError
    | Some li => if is_wf m && qle q li then ConfigError (ECapWf i) else wf_loop intf q (S i) r
    end
  end.

Definition check_cap (c : config) (rest : result) : result :=
  let intf := interfaces c in
  match cap c with
  | None => rest                                   (* intf_cap is None *)
  | Some q =>
    match last_error intf with                     (* intf[-1] *)
    | None => Crash IndexError
    | Some il =>
      if qlt il q then ConfigError ECapHigh else
      match hd_error intf with                     (* intf[0] *)
      | None => Crash IndexError
      | Some i0 =>
        if qlt q i0 then ConfigError ECapLow else
        match wf_loop intf q 0 (firstn (length intf) (moves c)) with
        | Ok => rest
        | other => other
        end
      end
    end
  end.

(* gromacs check, inner loop over key2 *)
Fixpoint gmx_inner (r1 p1 : Z) (keys : list name) (secs : list (name * section)) : result :=
  match keys with
  | [] => Ok
  | k2 :: r =>
    match lookup k2 secs with
    | None => Crash KeyError
    | Some s2 =>
      match s_input s2 with
      | None => Crash KeyError                     (* eng2.pop("input_path") *)
      | Some p2 =>
        let same := match s_class s2 with Some Gromacs => Z.eqb r1 (s_rest s2) | _ => false end in
        if negb same && Z.eqb p1 p2 then ConfigError EGmxDup else gmx_inner r1 p1 r secs
      end
    end
  end.

Fixpoint gmx_outer (todo all : list name) (secs : list (name * section)) : result :=
  match todo with
  | [] => Ok
  | k1 :: r =>
    match lookup k1 secs with
    | None => Crash KeyError
    | Some s1 =>
      match s_class s1 with
      | None => Crash KeyError                     (* config[key1]["class"] *)
      | Some OtherClass => gmx_outer r all secs
      | Some Gromacs =>
        match s_input s1 with
        | None => Crash KeyError                   (* eng1.pop("input_path") *)
        | Some p1 =>
          match gmx_inner (s_rest s1) p1 all secs with
          | Ok => gmx_outer r all secs
          | other => other
          end
        end
      end
    end
  end.

(* what remains after the engine-defined test: only the gromacs check *)
Definition gmx_tail (c : config) : result :=
  match ens_engs c with
  | None => Crash KeyError                         (* config["simulation"]["ensemble_engines"] *)
  | Some ee => let u := unique_engines ee in gmx_outer u u (sections c)
  end.

(* # engine checks
   n_ens_engs = len(config["simulation"]["ensemble_engines"])
   if n_ens_engs < n_ens: raise                     (only in the repaired code: [fixed])
   unique_engines = ...; for key1 in unique_engines: if key1 not in config.keys(): raise *)
Definition check_engines_g (fixed : bool) (c : config) : result :=
  match ens_engs c with
  | None => Crash KeyError
  | Some ee =>
    if fixed && (length ee <? length (interfaces c))%nat then ConfigError EEngineListShort else
    match find (fun k => negb (defined (sections c) k)) (unique_engines ee) with
    | Some k => ConfigError (EEngineUndef k)
    | None => gmx_tail c
    end
  end.

Definition stage2_g (fixed : bool) (c : config) : result :=
  let intf := interfaces c in
  let n_ens := length intf in
  if quantis_val c && lm1_truthy c then ConfigError EQuantisLm1 else
  if (Z.of_nat n_ens - 1 <? workers c)%Z then ConfigError EWorkers else
  if negb (list_qeqb (py_sorted intf) intf) then ConfigError EUnsorted else
  if negb (length (py_set intf) =? n_ens)%nat then ConfigError EDuplicate else
  if (length (moves c) <? n_ens)%nat then ConfigError EMoves else
  check_cap c (check_engines_g fixed c).

Definition check_config_g (fixed : bool) (c : config) : result :=
  if (length (interfaces c) <? 2)%nat then ConfigError EFewIntf else
  check_lm1 c (stage2_g fixed c).

(* the code as it is (with the repair) ... *)
Definition check_engines : config -> result := check_engines_g true.
Definition stage2 : config -> result := stage2_g true.
Definition check_config : config -> result := check_config_g true.
(* ... and as it was before proposed_fixes/C18_short_ensemble_engines.diff *)
Definition check_config_before_fix : config -> result := check_config_g false.

(* what the first picks do with an accepted configuration (REPEX_state.prep_md_items):
       ens_engs = self.config["simulation"]["ensemble_engines"]
       for ens_num in md_items["ens_nums"]: eng_names += ens_engs[ens_num + 1]
   The ensembles [0-], [0+], [1+], ... are numbered -1, 0, ..., n-2, so ensemble number i-1 reads
   entry i of the list, i < n = len(interfaces).  None = the IndexError (KeyError) Python raises. *)
Definition pick_engines (c : config) (i : nat) : option (list name) :=
  match ens_engs c with
  | None => None
  | Some ee => nth_error ee i
  end.

(* ------------------------------------------------------------------ setup_config defaults *)

(* The tail of setup_config, statement by statement and IN THE ORDER OF THE CODE: six
   assignments that fill in defaults (one of them, under quantis, substitutes the engine of
   [0-]), and only then check_config, on the configuration as those statements left it.  Each
   statement is one function below; [normalise] is their composition in program order. *)

(* has_ens_engs = config["simulation"].get("ensemble_engines", False)
   (absent and the empty list are both falsy) *)
Definition has_ens_engs (c : config) : bool :=
  match ens_engs c with Some (_ :: _) => true | _ => false end.

Definition with_ens_engs (c : config) (ee : list (list name)) : config :=
  mkC (interfaces c) (workers c) (moves c) (cap c) (quantis c) (lm1 c) (accept_all c) (seed c)
      (Some ee) (sections c).

(* 1.  if not has_ens_engs:
           ens_engs = [["engine"] for _ in interfaces]
           config["simulation"]["ensemble_engines"] = ens_engs *)
Definition step_engines (c : config) : config :=
  if has_ens_engs c then c
  else with_ens_engs c (map (fun _ => [name_engine]) (interfaces c)).

(* 2.  if "seed" not in config["simulation"]: config["simulation"]["seed"] = 0 *)
Definition step_seed (c : config) : config :=
  mkC (interfaces c) (workers c) (moves c) (cap c) (quantis c) (lm1 c) (accept_all c)
      (Some (match seed c with Some s => s | None => 0%Z end)) (ens_engs c) (sections c).

(* 3.  quantis = tis_set.get("quantis", False); tis_set["quantis"] = quantis *)
Definition step_quantis (c : config) : config :=
  mkC (interfaces c) (workers c) (moves c) (cap c) (Some (quantis_val c)) (lm1 c) (accept_all c)
      (seed c) (ens_engs c) (sections c).

(* 4.  l_1 = tis_set.get("lambda_minus_one", False); tis_set["lambda_minus_one"] = l_1 *)
Definition step_lm1 (c : config) : config :=
  mkC (interfaces c) (workers c) (moves c) (cap c) (quantis c) (Some (lm1_val c)) (accept_all c)
      (seed c) (ens_engs c) (sections c).

(* 5.  if quantis and not has_ens_engs and ens_engs:
           config["simulation"]["ensemble_engines"][0] = ["engine0"]
       [has] is the value has_ens_engs had BEFORE statement 1 (a local variable of the code);
       "and ens_engs": the default list is empty when there are no interfaces *)
Definition step_engine0 (has : bool) (c : config) : config :=
  if quantis_val c && negb has then
    match ens_engs c with
    | Some (_ :: r) => with_ens_engs c ([name_engine0] :: r)
    | _ => c
    end
  else c.

(* 6.  accept_all = tis_set.get("accept_all", False); tis_set["accept_all"] = accept_all *)
Definition step_accept_all (c : config) : config :=
  mkC (interfaces c) (workers c) (moves c) (cap c) (quantis c) (lm1 c)
      (Some (match accept_all c with Some b => b | None => false end))
      (seed c) (ens_engs c) (sections c).

Definition normalise (c : config) : config :=
  let has := has_ens_engs c in
  step_accept_all (step_engine0 has (step_lm1 (step_quantis (step_seed (step_engines c))))).

(* 7.  check_config(config); return config
   setup_config = fill in the defaults (statements 1-6), THEN check what they produced: the
   engine "engine0" that statement 5 gives to [0-] is seen by the engine-defined test *)
Definition setup_config_g (fixed : bool) (c : config) : config * result :=
  let c' := normalise c in (c', check_config_g fixed c').
Definition setup_config : config -> config * result := setup_config_g true.

(* ------------------------------------------------------------------ the route into setup_config *)

(* setup_config reads either an input file without a [current] table (a fresh start) or one
   that has it: the restart.toml the program wrote - possibly edited by the user since (more
   steps, more workers, another cap, ...) - or an infretis.toml that is replaced by an "equal"
   restart.toml.  What the  if "current" in config:  branch looks at, before the defaults and
   the checks (which are the same statements for both branches): *)
Record current := mkCur {
  cstep : Z;                  (* current.cstep *)
  paths_present : bool        (* every path in current.active has load_dir/<n>/traj.txt *)
}.

(* None = setup_config returns None: nothing is set up, nothing is sampled *)
Definition setup_from_g (fixed : bool) (steps : Z) (cur : option current) (c : config)
  : option (config * result) :=
  match cur with
  | Some k =>                                    (* if "current" in config: *)
    if (cstep k =? steps)%Z then None            (*   cstep == steps: return None *)
    else if negb (paths_present k) then None     (*   an active path is missing: return None *)
    else Some (setup_config_g fixed c)           (*   restarted_from, trim_data_file; then the
                                                      defaults and check_config *)
  | None => Some (setup_config_g fixed c)        (* else: current := step 0, write_header; then
                                                      the defaults and check_config *)
  end.
Definition setup_from : Z -> option current -> config -> option (config * result) :=
  setup_from_g true.

(* the run goes on to setup_internal / the scheduler only with a configuration that
   setup_config returned, i.e. one that check_config let through *)
Definition sampling_starts (o : option (config * result)) : Prop :=
  exists c', o = Some (c', Ok).

(* ------------------------------------------------------------------ the property's list *)

(* ensemble i ([0-], [0+], [1+], ...) sits at interface max(i-1,0); a wire-fencing move in it
   works on the region [that interface, cap) *)
Definition ens_interface (intf : list Q) (i : nat) : Q := nth (pred i) intf 0.

(* [v_englen]: every ensemble has its own entry in ensemble_engines (the first picks read entry
   i for ensemble i, [pick_engines]); an explicit list may have more entries than there are
   interfaces, not fewer.  Like [v_engines] it speaks about the list check_config sees (after the
   defaults of setup_config there always is one). *)
Record valid (c : config) : Prop := mkValid {
  v_two     : (2 <= length (interfaces c))%nat;
  v_sorted  : StronglySorted Qle (interfaces c);
  v_nodup   : NoDupA Qeq (interfaces c);
  v_workers : (workers c <= Z.of_nat (length (interfaces c)) - 1)%Z;
  v_moves   : (length (interfaces c) <= length (moves c))%nat;
  v_cap     : forall q, cap c = Some q ->
                hd 0 (interfaces c) <= q /\ q <= last (interfaces c) 0 /\
                forall i, (i < length (interfaces c))%nat ->
                          nth_error (moves c) i = Some Wf ->
                          ens_interface (interfaces c) i < q;
  v_englen  : forall ee, ens_engs c = Some ee -> (length (interfaces c) <= length ee)%nat;
  v_engines : forall ee e, ens_engs c = Some ee -> In e (concat ee) ->
                           In e (map fst (sections c));
  v_lm1     : forall v, lm1_val c = Some v -> v < hd 0 (interfaces c)
}.

(* boolean form, written independently of check_config (adjacent strict increase instead
   of sort-and-compare / set size) *)
Fixpoint strictly_inc (l : list Q) : bool :=
  match l with
  | [] => true
  | x :: r => match r with [] => true | y :: _ => qlt x y && strictly_inc r end
  end.

Definition validb (c : config) : bool :=
  let intf := interfaces c in
  let n := length intf in
  (2 <=? n)%nat && strictly_inc intf && (workers c <=? Z.of_nat n - 1)%Z
  && (n <=? length (moves c))%nat
  && match cap c with
     | None => true
     | Some q => qle (hd 0 intf) q && qle q (last intf 0)
                 && forallb (fun i => match nth_error (moves c) i with
                                      | Some Wf => qlt (ens_interface intf i) q
                                      | _ => true end) (seq 0 n)
     end
  && match ens_engs c with
     | None => true
     | Some ee => (n <=? length ee)%nat
                  && forallb (fun e => mem e (map fst (sections c))) (concat ee)
     end
  && match lm1_val c with None => true | Some v => qlt v (hd 0 intf) end.
