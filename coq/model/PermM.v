(* Executable model of the swap-probability code of infretis/classes/repex.py:
     REPEX_state.inf_retis, find_blocks, quick_prob, permanent_prob, fast_glynn_perm,
     the prob property (with its cache) and lock / unlock / swap / add_traj (matrix part).
   Literal translation over exact rationals (stdlib Q): same branches, same comparison
   operators, same order of effects.  No proofs here.

   Conventions
   * a matrix is a list of rows (list (list Q)); out-of-range reads give 0 / [];
   * numpy's longdouble arithmetic is replaced by exact Q arithmetic; [Qred] is applied
     where the extracted model would otherwise carry exploding denominators (it does not
     change the value: Qred x == x);
   * np.argsort(...) (default kind) is NOT stable on the machines the code runs on
     (numpy >= 1.25 dispatches 64-bit argsort to an AVX-512 sorting network; measured in
     this sandbox: keys (-2,-2,-3,-3) -> [3,2,1,0]).  The model uses the canonical stable
     order [argsort]; [inf_retis_with] takes the two permutations as explicit inputs so that
     the independence of the result from the tie order can be stated (proofs/PermP.v);
   * where numpy would raise (argmax of an empty matrix, KeyError, the TypeError of
     iterating the 1x1 result of find_blocks, a failing np.allclose assertion) or produce
     nan/inf (division by a zero row maximum / zero row sum), the model returns None;
   * random_prob (blocks larger than 12, Monte Carlo on the scheduler's generator) is a
     Section variable: outside the exactness claim, named in the trusted base. *)
From Coq Require Import ZArith NArith QArith Qabs List Bool Arith Lia.
Import ListNotations.
Open Scope Q_scope.

Definition matrix := list (list Q).

(* ------------------------------------------------------------------ list / numpy helpers *)

Definition qnth (l : list Q) (j : nat) : Q := nth j l 0.
Definition rownth (M : matrix) (i : nat) : list Q := nth i M [].
Definition mget (M : matrix) (i j : nat) : Q := qnth (rownth M i) j.

Fixpoint zipw {A B C} (f : A -> B -> C) (l1 : list A) (l2 : list B) : list C :=
  match l1, l2 with
  | a :: r1, b :: r2 => f a b :: zipw f r1 r2
  | _, _ => []
  end.

(* np.sum *)
Definition qsuml (l : list Q) : Q := fold_right Qplus 0 l.
(* np.multiply.reduce *)
Definition qprodl (l : list Q) : Q := fold_right Qmult 1 l.

(* arr.shape[1] (0 when there is no row: the shape (0, m) is not represented) *)
Definition ncols (M : matrix) : nat := match M with [] => O | r :: _ => length r end.

Definition col (j : nat) (M : matrix) : list Q := map (fun r => qnth r j) M.
(* M.T as a list of columns, given the number of columns *)
Definition columns (m : nat) (M : matrix) : list (list Q) := map (fun j => col j M) (seq 0 m).
(* inverse: rows from a list of columns, given the number of rows *)
Definition of_columns (nrows : nat) (cols : list (list Q)) : matrix :=
  map (fun i => map (fun c => qnth c i) cols) (seq 0 nrows).

(* x[mask] *)
Fixpoint keep {A} (mask : list bool) (l : list A) : list A :=
  match mask, l with
  | b :: mr, x :: lr => if b then x :: keep mr lr else keep mr lr
  | _, _ => []
  end.

Definition count_true (l : list bool) : nat := length (filter (fun b => b) l).

Fixpoint upd {A} (l : list A) (i : nat) (v : A) : list A :=
  match l, i with
  | [], _ => []
  | _ :: r, O => v :: r
  | x :: r, S k => x :: upd r k v
  end.

(* np.max over a row (0 for an empty row; numpy would raise) *)
Definition qmaxl (l : list Q) : Q :=
  match l with
  | [] => 0
  | x :: r => fold_left (fun m y => if Qle_bool y m then m else y) r x
  end.

(* ------------------------------------------------------------------ quick_prob *)

(* np.where(arr != 0, 1, 0) *)
Definition ind01 (x : Q) : Q := if Qeq_bool x 0 then 0 else 1.
(* total_traj_prob[np.where(total_traj_prob < 0)] = 0 *)
Definition clamp0 (x : Q) : Q := if Qle_bool 0 x then x else 0.

(* one iteration of the column loop: returns (ens, new total_traj_prob) *)
Definition quick_step (t : list Q) (column : list Q) : list Q * list Q :=
  let ens := zipw Qmult column t in
  let s := qsuml ens in
  let ens' := if Qeq_bool s 0 then ens else map (fun x => Qred (x / s)) ens in
  (ens', map clamp0 (zipw (fun a b => Qred (a - b)) t ens')).

(* columns in processing order (last column first); returns the ens vectors in that order *)
Fixpoint quick_loop (t : list Q) (cols : list (list Q)) : list (list Q) :=
  match cols with
  | [] => []
  | c :: r => let '(e, t') := quick_step t c in e :: quick_loop t' r
  end.

Definition quick_prob (arr : matrix) : matrix :=
  let wm := map (map ind01) arr in
  let cols := rev (columns (ncols arr) wm) in            (* working_mat.T[::-1] *)
  let outc := quick_loop (repeat 1 (length arr)) cols in (* out_mat[:, -(i+1)] = ens *)
  of_columns (length arr) (rev outc).

(* ------------------------------------------------------------------ find_blocks *)

Inductive fb_result :=
| FBsingle                                   (* the bare tuple (0, 1, 1) of the len==1 early return *)
| FBlist (l : list (nat * nat * Z)).         (* [(start, stop, direction)] *)

Definition count_nonzero (l : list Q) : nat := length (filter (fun x => negb (Qeq_bool x 0)) l).

(* temp_arr of find_blocks *)
Definition fb_temp (arr : matrix) (offset : nat) : matrix :=
  map (fun r =>
         map (fun c =>
                if (c <? offset)%nat then
                  (if (r <? offset)%nat then mget arr c r else 1)
                else mget arr r c)
             (seq 0 (length (rownth arr r))))
      (seq 0 (length arr)).

Fixpoint fb_loop (offset : nat) (start : nat) (i : nat) (nz : list nat) : list (nat * nat * Z) :=
  match nz with
  | [] => []
  | e :: r =>
    if (e =? i + 1)%nat then
      (start, e, if (start <? offset)%nat then (-1)%Z else 1%Z) :: fb_loop offset e (S i) r
    else fb_loop offset start (S i) r
  end.

Definition find_blocks (arr : matrix) (offset : nat) : fb_result :=
  if (length arr =? 1)%nat then FBsingle
  else FBlist (fb_loop offset 0 0 (map count_nonzero (fb_temp arr offset))).

(* ------------------------------------------------------------------ fast_glynn_perm *)

(* cmp(a, b) of the source *)
Definition cmpN (a b : N) : Z := if N.eqb a b then 0%Z else if N.ltb b a then 1%Z else (-1)%Z.

(* binary_power_dict[grey_diff] with binary_power_dict = {2**i: i for i in range(n)} *)
Definition power_index (n : nat) (d : N) : option nat :=
  find (fun i => N.eqb (2 ^ N.of_nat i) d) (seq 0 n).

Record gst := mkG { g_total : Q; g_old : N; g_sign : Q; g_rc : list Q }.

(* [nrm] is the normalisation applied to stored numbers: Qred in the model proper (it keeps the
   extracted arithmetic small and does not change any value: Qred x == x); the proofs also run
   the loop with the identity to reason about symbolic entries (proofs/PermP.v shows that the
   choice is immaterial). *)
Definition glynn_step_with (nrm : Q -> Q) (n : nat) (M : matrix) (st : option gst) (bin_index : nat) : option gst :=
  match st with
  | None => None
  | Some s =>
    let total := nrm (g_total s + g_sign s * qprodl (g_rc s)) in
    let b := N.of_nat bin_index in
    let new_grey := N.lxor b (N.div2 b) in
    let grey_diff := N.lxor (g_old s) new_grey in
    match power_index n grey_diff with
    | None => None                                           (* KeyError *)
    | Some idx =>
      let direction := (2 * cmpN (g_old s) new_grey)%Z in
      let rc := if (direction =? 0)%Z then g_rc s
                else zipw (fun r v => nrm (r + v * inject_Z direction)) (g_rc s) (rownth M idx) in
      Some (mkG total new_grey (- g_sign s) rc)
    end
  end.

(* column sums: np.sum(M, axis=0) *)
Definition col_sums_with (nrm : Q -> Q) (m : nat) (M : matrix) : list Q :=
  map (fun j => nrm (qsuml (col j M))) (seq 0 m).

Definition fast_glynn_perm_with (nrm : Q -> Q) (M : matrix) : option Q :=
  let n := length M in
  match n with
  | O => None                   (* 2 ** (n - 1) = 0.5: range() raises TypeError *)
  | S n1 =>
    let num_loops := Nat.pow 2 n1 in
    let st0 := mkG 0 0%N 1 (col_sums_with nrm (ncols M) M) in
    match fold_left (glynn_step_with nrm n M) (seq 1 num_loops) (Some st0) with
    | None => None
    | Some s => Some (nrm (g_total s / inject_Z (Z.of_nat num_loops)))
    end
  end.

Definition fast_glynn_perm (M : matrix) : option Q := fast_glynn_perm_with Qred M.

(* ------------------------------------------------------------------ permanent_prob *)

Fixpoint remove_nth {A} (i : nat) (l : list A) : list A :=
  match l, i with
  | [], _ => []
  | _ :: r, O => r
  | x :: r, S k => x :: remove_nth k r
  end.

(* sub_arr[:, columns] with row i and column j left out *)
Definition minor_l (i j : nat) (M : matrix) : matrix := map (remove_nth j) (remove_nth i M).

Fixpoint opt_all {A} (l : list (option A)) : option (list A) :=
  match l with
  | [] => Some []
  | None :: _ => None
  | Some x :: r => match opt_all r with None => None | Some xs => Some (x :: xs) end
  end.

Definition permanent_prob (arr : matrix) : option matrix :=
  let n := length arr in
  let maxes := map qmaxl arr in
  if existsb (fun m => Qeq_bool m 0) maxes then None            (* x / 0: nan or inf *)
  else
    let scaled := map (fun row => let mx := qmaxl row in map (fun x => Qred (x / mx)) row) arr in
    let out :=
      opt_all (map (fun i =>
        opt_all (map (fun j =>
          let w := mget scaled i j in
          if Qeq_bool w 0 then Some 0
          else match fast_glynn_perm (minor_l i j scaled) with
               | None => None
               | Some f => Some (Qred (f * w))
               end) (seq 0 n))) (seq 0 n)) in
    match out with
    | None => None
    | Some o =>
      let mx := qmaxl (map qsuml o) in
      if Qeq_bool mx 0 then None                                  (* out / 0 *)
      else Some (map (map (fun x => Qred (x / mx))) o)
    end.

(* ------------------------------------------------------------------ inf_retis *)

(* np.argmax(row > 0): index of the first entry > 0, 0 when there is none *)
Fixpoint first_pos_from (i : nat) (l : list Q) : nat :=
  match l with
  | [] => O
  | x :: r => if Qlt_le_dec 0 x then i else first_pos_from (S i) r
  end.
Definition argmax_pos (l : list Q) : nat := first_pos_from 0 l.

(* stable argsort of integer keys (canonical representative of np.argsort) *)
Fixpoint ins_key (x : Z * nat) (l : list (Z * nat)) : list (Z * nat) :=
  match l with
  | [] => [x]
  | y :: r => if (fst x <=? fst y)%Z then x :: y :: r else y :: ins_key x r
  end.
Definition argsort (keys : list Z) : list nat :=
  map snd (fold_right ins_key [] (combine keys (seq 0 (length keys)))).

(* is [idx] a possible answer of np.argsort(keys) (any tie order)? *)
Definition is_argsort (keys : list Z) (idx : list nat) : bool :=
  let n := length keys in
  (length idx =? n)%nat
  && forallb (fun i => existsb (Nat.eqb i) idx) (seq 0 n)
  && (fix sorted (l : list Z) : bool :=
        match l with
        | a :: ((b :: _) as r) => (a <=? b)%Z && sorted r
        | _ => true
        end) (map (fun i => nth i keys 0%Z) idx).

(* the i counter / insert_list loop *)
Fixpoint insert_list_from (i : nat) (locks : list bool) : list nat :=
  match locks with
  | [] => []
  | true :: r => i :: insert_list_from i r
  | false :: r => insert_list_from (S i) r
  end.

(* np.insert(l, idxs, z) for 1-d positions: z is placed before position p once for every
   occurrence of p in idxs; p = len(l) appends *)
Fixpoint np_insert_from {A} (p : nat) (l : list A) (idxs : list nat) (z : A) : list A :=
  let here := repeat z (count_occ Nat.eq_dec idxs p) in
  match l with
  | [] => here
  | x :: r => here ++ x :: np_insert_from (S p) r idxs z
  end.
Definition np_insert {A} (l : list A) (idxs : list nat) (z : A) : list A := np_insert_from 0 l idxs z.

(* position of i in the index list (out[sort_idx] = out.copy()) *)
Fixpoint index_of (i : nat) (l : list nat) : nat :=
  match l with
  | [] => O
  | x :: r => if (x =? i)%nat then O else S (index_of i r)
  end.
Definition unsort (sort_idx : list nat) (out : matrix) : matrix :=
  map (fun i => rownth out (index_of i sort_idx)) (seq 0 (length out)).

(* np.allclose(x, 1): |x - 1| <= atol + rtol * |1| with atol = 1e-8, rtol = 1e-5 *)
Definition close1 (x : Q) : bool := Qle_bool (Qabs (x - 1)) (1001 # 100000000).

(* the test  np.all(T[np.where(T[:, a:b] != T[ref, a:b])] == 0)  read row-wise on the sorted
   matrix: in every row r of [rows], every entry is equal to the row's entry in column [ref]
   or is zero *)
Definition rows_equal_or_zero (rows : matrix) (ref : nat) : bool :=
  forallb (fun row => forallb (fun x => Qeq_bool x (qnth row ref) || Qeq_bool x 0) row) rows.

Definition slice {A} (a b : nat) (l : list A) : list A := firstn (b - a) (skipn a l).

(* out[start+r][cols[c]] = temp[r][c] *)
Definition set_cols (row : list Q) (cols : list nat) (vals : list Q) : list Q :=
  fold_left (fun acc cv => upd acc (fst cv) (snd cv)) (combine cols vals) row.
Definition set_block (out : matrix) (start stop : nat) (cols : list nat) (temp : matrix) : matrix :=
  map (fun rr => let '(r, row) := rr in
                 if ((start <=? r) && (r <? stop))%nat then set_cols row cols (rownth temp (r - start)) else row)
      (combine (seq 0 (length out)) out).

Section WithRandomProb.
(* REPEX_state.random_prob: Monte Carlo estimate for blocks of more than 12 paths *)
Variable random_prob : matrix -> matrix.

(* body of the  for start, stop, direction in blocks  loop *)
Definition block_step (sorted : matrix) (acc : option matrix) (blk : nat * nat * Z) : option matrix :=
  match acc with
  | None => None
  | Some out =>
    let '(start, stop, direction) := blk in
    (* column indices cstart:cstop:direction *)
    let cols := if (direction =? -1)%Z then rev (seq start (stop - start)) else seq start (stop - start) in
    let subarr := map (fun row => map (qnth row) cols) (slice start stop sorted) in
    if (length subarr =? 1)%nat then
      Some (set_block out start stop (seq start (stop - start))
                      (repeat (repeat 1 (stop - start)) (stop - start)))
    else if rows_equal_or_zero subarr 0 then
      Some (set_block out start stop cols (quick_prob subarr))
    else if (length subarr <=? 12)%nat then
      match permanent_prob subarr with
      | None => None
      | Some temp => Some (set_block out start stop cols temp)
      end
    else Some (set_block out start stop cols (random_prob subarr))
  end.

(* inf_retis after the locked rows / columns have been dropped and before they are re-inserted:
   sort, equal test, fast or block-wise path, un-sort, the two np.allclose assertions.
   The two argsort answers are supplied from outside. *)
Definition inf_core (minus_idx pos_idx0 : list nat) (offset : nat) (non_locked : matrix) : option matrix :=
  let m := length non_locked in
  if (m =? 0)%nat then None                        (* argmax of an empty sequence *)
  else
    let pos_idx := map (fun i => (i + offset)%nat) pos_idx0 in
    let sort_idx := minus_idx ++ pos_idx in
    let sorted := map (rownth non_locked) sort_idx in
    let equal_minus := rows_equal_or_zero (firstn offset sorted) (offset - 1) in
    let equal_pos := if (m <=? offset)%nat then true
                     else rows_equal_or_zero (skipn offset sorted) offset in
    let zeros := repeat (repeat 0 m) m in
    let out :=
      if equal_minus && equal_pos then
        Some (map (@rev Q) (quick_prob (map (@rev Q) (firstn offset sorted)))
              ++ (if (offset <? m)%nat then quick_prob (skipn offset sorted)
                  else skipn offset zeros))
      else
        match find_blocks sorted offset with
        | FBsingle => None                           (* cannot unpack non-iterable int *)
        | FBlist blocks => fold_left (block_step sorted) blocks (Some zeros)
        end in
    match out with
    | None => None
    | Some o =>
      let o := unsort sort_idx o in
      if forallb close1 (map qsuml o) && forallb close1 (map (fun j => qsuml (col j o)) (seq 0 m))
      then Some o
      else None                                      (* AssertionError *)
    end.

(* inf_retis with the two argsort answers supplied from outside *)
Definition inf_retis_with (minus_idx pos_idx0 : list nat) (off_ : nat) (input_mat : matrix)
           (locks : list bool) : option matrix :=
  let offset := (off_ - count_true (firstn off_ locks))%nat in
  let insert_list := insert_list_from 0 locks in
  let free := map negb locks in
  let non_locked := map (keep free) (keep free input_mat) in
  match inf_core minus_idx pos_idx0 offset non_locked with
  | None => None
  | Some o =>
    let rows := np_insert o insert_list (repeat 0 (length non_locked)) in
    Some (map (fun r => np_insert r insert_list 0) rows)
  end.

Definition minus_keys (off_ : nat) (input_mat : matrix) (locks : list bool) : list Z :=
  let offset := (off_ - count_true (firstn off_ locks))%nat in
  let free := map negb locks in
  let non_locked := map (keep free) (keep free input_mat) in
  map (fun row => Z.of_nat (argmax_pos row)) (firstn offset non_locked).

Definition pos_keys (off_ : nat) (input_mat : matrix) (locks : list bool) : list Z :=
  let offset := (off_ - count_true (firstn off_ locks))%nat in
  let free := map negb locks in
  let non_locked := map (keep free) (keep free input_mat) in
  map (fun row => (-1 * Z.of_nat (argmax_pos (rev row)))%Z) (skipn offset non_locked).

Definition inf_retis (off_ : nat) (input_mat : matrix) (locks : list bool) : option matrix :=
  inf_retis_with (argsort (minus_keys off_ input_mat locks))
                 (argsort (pos_keys off_ input_mat locks)) off_ input_mat locks.

(* ------------------------------------------------------------------ state: prob, lock, unlock, swap *)

Record rstate := mkR {
  r_off : nat;                       (* _offset *)
  r_state : matrix;                  (* state *)
  r_locks : list bool;               (* _locks == 1 *)
  r_last : option matrix             (* _last_prob *)
}.

(* REPEX_state.__init__: zeros, everything locked *)
Definition rx_init (off_ n : nat) : rstate := mkR off_ (repeat (repeat 0 n) n) (repeat true n) None.

(* the prob property: None = the call raised (cache untouched) *)
Definition rx_prob (s : rstate) : rstate * option matrix :=
  match r_last s with
  | Some p => (s, Some p)
  | None =>
    match inf_retis (r_off s) (map (map Qabs) (r_state s)) (r_locks s) with
    | None => (s, None)
    | Some p => (mkR (r_off s) (r_state s) (r_locks s) (Some p), Some p)
    end
  end.

(* lock(ens): cache invalidated first, then the assertion; bool = no AssertionError *)
Definition rx_lock (s : rstate) (ens : nat) : rstate * bool :=
  if nth ens (r_locks s) true then (mkR (r_off s) (r_state s) (r_locks s) None, false)
  else (mkR (r_off s) (r_state s) (upd (r_locks s) ens true) None, true).

Definition rx_unlock (s : rstate) (ens : nat) : rstate * bool :=
  if nth ens (r_locks s) false then (mkR (r_off s) (r_state s) (upd (r_locks s) ens false) None, true)
  else (mkR (r_off s) (r_state s) (r_locks s) None, false).

(* swap(traj, ens): exchanges two rows; does not touch the cache *)
Definition rx_swap (s : rstate) (traj ens : nat) : rstate :=
  let st := r_state s in
  mkR (r_off s) (upd (upd st ens (rownth st traj)) traj (rownth st ens)) (r_locks s) (r_last s).

(* add_traj(ens, traj, valid): pads the weight vector, writes the row, unlocks, evaluates prob.
   ens is the ensemble number (-1 = [0-]); None = an assertion failed / prob raised. *)
Definition rx_add_traj (s : rstate) (ens : Z) (valid : list Q) : rstate * option matrix :=
  let n := length (r_state s) in
  let valid' := if ((0 <=? ens)%Z && negb (r_off s =? 0)%nat) then repeat 0 (r_off s) ++ valid
                else if (ens <? 0)%Z then valid ++ repeat 0 (n - r_off s)
                else valid in
  let e := (ens + Z.of_nat (r_off s))%Z in
  if (e <? 0)%Z then (s, None)            (* negative index: not modelled (never produced) *)
  else
    let e := Z.to_nat e in
    if Qeq_bool (qnth valid' e) 0 then (s, None)                (* assert valid[ens] != 0 *)
    else
      let s1 := mkR (r_off s) (upd (r_state s) e valid') (r_locks s) None in
      let '(s2, ok) := rx_unlock s1 e in
      if ok then rx_prob s2 else (s2, None).

End WithRandomProb.
