(* Executable model of the REPEX bookkeeping of infretis/classes/repex.py:
   swap / lock / unlock, pick (with the optional [0-]<->[0+] partner), pick_lock after a
   restart, add_traj, treat_output (lock list, path numbering, fraction credit, data rows),
   sort_trajstate (literal loop on fuel), and assign_engines of engines/factory.py.

   What is NOT computed here is the probability matrix P: it is an input of the operations
   that use it (the random pick outcome, the credited rows).  Property C02 ties the
   implementation's P to the permanent ratios; here P only has to satisfy the stated
   hypotheses.  Weights are integers (0/1 for shooting ensembles, frame counts, doubled, for
   wire fencing).  Index 0 is [0-], the last index is the permanently locked ghost.
   No proofs in this file. *)
From Coq Require Import ZArith QArith List Bool Lia.
Import ListNotations.
Open Scope nat_scope.

(* ------------------------------------------------------------------ list helpers *)

Fixpoint set_nth {A} (i : nat) (x : A) (l : list A) : list A :=
  match l, i with
  | [], _ => []
  | _ :: r, 0 => x :: r
  | a :: r, S k => a :: set_nth k x r
  end.

Definition swap_nth {A} (d : A) (i j : nat) (l : list A) : list A :=
  set_nth i (nth j l d) (set_nth j (nth i l d) l).

Fixpoint index_of (x : nat) (l : list nat) : option nat :=
  match l with
  | [] => None
  | a :: r => if a =? x then Some 0 else option_map S (index_of x r)
  end.

Definition memn (x : nat) (l : list nat) : bool := existsb (Nat.eqb x) l.

(* ------------------------------------------------------------------ state *)

Record job := mkJob { jcols : list nat;      (* matrix columns held (ens + offset) *)
                      jpaths : list nat;     (* path numbers, same order *)
                      jpin : nat }.

Record rstate := mkR {
  W : list (list Z);        (* n rows of n weights; row = slot *)
  trajs : list nat;         (* path number in each slot (the ghost slot holds a dummy) *)
  locks : list bool;        (* busy flag per slot/ensemble; last is always true *)
  locked : list job;        (* in-flight jobs, in issue order *)
  traj_num : nat            (* next unused path number *)
}.

Definition size (s : rstate) : nat := length (locks s).

Definition wij (s : rstate) (i j : nat) : Z := nth j (nth i (W s) []) 0%Z.

Definition is_locked (s : rstate) (i : nat) : bool := nth i (locks s) true.

(* REPEX_state.swap(traj, ens): exchange rows and the paths sitting in them *)
Definition swap (s : rstate) (i j : nat) : rstate :=
  mkR (swap_nth [] i j (W s)) (swap_nth 0 i j (trajs s)) (locks s) (locked s) (traj_num s).

(* lock / unlock: [None] = the code's assertion fails *)
Definition lock (s : rstate) (e : nat) : option rstate :=
  if is_locked s e then None
  else Some (mkR (W s) (trajs s) (set_nth e true (locks s)) (locked s) (traj_num s)).

Definition unlock (s : rstate) (e : nat) : option rstate :=
  if is_locked s e then Some (mkR (W s) (trajs s) (set_nth e false (locks s)) (locked s) (traj_num s))
  else None.

(* ------------------------------------------------------------------ pick *)

(* The random outcome of pick(): row i and column j drawn from P (so P_ij > 0), and, when
   the 50% zero-swap branch is taken, the row k drawn for the partner ensemble. *)
Record pick_choice := mkPick { pk_i : nat; pk_j : nat; pk_zs : option nat }.

(* guard implied by drawing from P: idle row, idle column, non-zero weight *)
Definition pick_enabled (s : rstate) (i j : nat) : bool :=
  negb (is_locked s i) && negb (is_locked s j) && negb (wij s i j =? 0)%Z.

Definition partner (j : nat) : option nat :=
  match j with 0 => Some 1 | 1 => Some 0 | _ => None end.

(* pick(): returns the new state and the job issued *)
Definition pick (s : rstate) (c : pick_choice) (pin : nat) : option (rstate * job) :=
  let i := pk_i c in let j := pk_j c in
  if negb (pick_enabled s i j) then None else
  match lock (swap s i j) j with
  | None => None
  | Some s1 =>
      let traj := nth j (trajs s1) 0 in
      match pk_zs c, partner j with
      | Some k, Some other =>
          (* only offered when the partner ensemble is idle *)
          if is_locked s1 other then None else
          if negb (pick_enabled s1 k other) then None else
          match lock (swap s1 k other) other with
          | None => None
          | Some s2 =>
              let otraj := nth other (trajs s2) 0 in
              let jb := if j =? 1 then mkJob [0; 1] [otraj; traj] pin
                        else mkJob [0; 1] [traj; otraj] pin in
              Some (mkR (W s2) (trajs s2) (locks s2) (locked s2 ++ [jb]) (traj_num s2), jb)
          end
      | Some _, None => None
      | None, _ =>
          let jb := mkJob [j] [traj] pin in
          Some (mkR (W s1) (trajs s1) (locks s1) (locked s1 ++ [jb]) (traj_num s1), jb)
      end
  end.

(* pick_lock() with a recorded (ensembles, paths) entry after a restart: each path is
   looked up among the live paths, swapped into its ensemble's slot and locked.
   The re-issued job is appended to [locked] (repaired behaviour, fix 1925ac7). *)
Fixpoint pick_lock_entries (s : rstate) (cols paths : list nat) : option rstate :=
  match cols, paths with
  | [], [] => Some s
  | c :: cr, p :: pr =>
      match index_of p (removelast (trajs s)) with
      | None => None
      | Some idx =>
          (* the code does not re-check the weight here; a zero weight would be a job on a
             path that is not valid in its ensemble, which the model refuses, as it refuses
             a recorded path that is already held by another job *)
          if (wij s idx c =? 0)%Z || is_locked s idx then None else
          match lock (swap s idx c) c with
          | None => None
          | Some s1 => pick_lock_entries s1 cr pr
          end
      end
  | _, _ => Some s   (* zip stops at the shorter list *)
  end.

Definition pick_lock (s : rstate) (cols paths : list nat) (pin : nat) : option (rstate * job) :=
  match pick_lock_entries s cols paths with
  | None => None
  | Some s1 =>
      let jb := mkJob cols paths pin in
      Some (mkR (W s1) (trajs s1) (locks s1) (locked s1 ++ [jb]) (traj_num s1), jb)
  end.

(* ------------------------------------------------------------------ treat_output *)

(* the loop "for idx, lock in enumerate(self.locked): if str(pn_old) in lock[1]: pop(idx)"
   (popping while enumerating skips the element that slides into idx) *)
Fixpoint pop_matching (pn : nat) (l : list job) : list job :=
  match l with
  | [] => []
  | j :: r =>
      if memn pn (jpaths j) then
        match r with [] => [] | j2 :: r2 => j2 :: pop_matching pn r2 end
      else j :: pop_matching pn r
  end.

(* result for one ensemble of the job: accepted? and the weight row of the path that now
   sits there (the old one again when rejected), already padded to n entries *)
Record ens_result := mkRes { r_col : nat; r_pn_old : nat; r_acc : bool; r_row : list Z }.

(* add_traj: assert valid[ens] != 0; install path and row; unlock *)
Definition add_traj (s : rstate) (c : nat) (pn : nat) (row : list Z) : option rstate :=
  if (nth c row 0 =? 0)%Z then None else
  unlock (mkR (set_nth c row (W s)) (set_nth c pn (trajs s)) (locks s) (locked s) (traj_num s)) c.

(* the per-ensemble part of treat_output.  The code keeps the running path number in a
   local variable and stores it back at the end; nothing reads the stored value in
   between, so the model updates the field at once. *)
Definition treat_one (s : rstate) (r : ens_result) : option rstate :=
  let lk := pop_matching (r_pn_old r) (locked s) in
  if r_acc r then
    add_traj (mkR (W s) (trajs s) (locks s) lk (S (traj_num s))) (r_col r) (traj_num s) (r_row r)
  else
    add_traj (mkR (W s) (trajs s) (locks s) lk (traj_num s)) (r_col r) (r_pn_old r) (r_row r).

Fixpoint treat_results (s : rstate) (rs : list ens_result) : option rstate :=
  match rs with
  | [] => Some s
  | r :: rest =>
      match treat_one s r with
      | None => None
      | Some s1 => treat_results s1 rest
      end
  end.

(* ------------------------------------------------------------------ sort_trajstate *)

Fixpoint find_first {A} (f : nat -> A -> bool) (i : nat) (l : list A) : option nat :=
  match l with
  | [] => None
  | a :: r => if f i a then Some i else find_first f (S i) r
  end.

(* needstomove: first slot idx in 0..n-2 with state[idx][idx] == 0 *)
Definition first_bad (s : rstate) : option nat :=
  find_first (fun i row => (nth i row 0 =? 0)%Z) 0 (removelast (W s)).

Inductive sort_result := SortOk (s : rstate) (iters : nat) | SortValueError | SortFuel.

(* one iteration of the while loop; ValueError when .index() finds nothing *)
Definition sort_step (s : rstate) (ens_idx : nat) : option rstate :=
  let n := size s in
  let row := nth ens_idx (W s) [] in
  (* zero_idx = list(row[1:-1]).index(0) + 1 *)
  match find_first (fun _ x => (x =? 0)%Z) 1 (removelast (tl row)) with
  | None => None
  | Some zero_idx =>
      (* first row (0..n-2) with a non-zero entry in that column whose path is not locked *)
      match find_first (fun i r => negb (nth zero_idx r 0 =? 0)%Z && negb (is_locked s i)) 0 (removelast (W s)) with
      | None => None
      | Some trj_idx => Some (swap s ens_idx trj_idx)
      end
  end.

Fixpoint sort_loop (fuel : nat) (s : rstate) (iters : nat) : sort_result :=
  match first_bad s with
  | None => SortOk s iters
  | Some ens_idx =>
      match fuel with
      | 0 => SortFuel
      | S f =>
          match sort_step s ens_idx with
          | None => SortValueError
          | Some s1 => sort_loop f s1 (S iters)
          end
      end
  end.

Definition sort_trajstate (s : rstate) : sort_result :=
  sort_loop (size s * size s * size s + 8) s 0.

(* ------------------------------------------------------------------ fractions (C04) *)

Definition qrow := list Q.

Fixpoint qrow_add (a b : qrow) : qrow :=
  match a, b with
  | x :: ra, y :: rb => Qred (x + y) :: qrow_add ra rb
  | _, _ => []
  end.

Fixpoint assoc_get (k : nat) (l : list (nat * qrow)) : option qrow :=
  match l with [] => None | (a, v) :: r => if a =? k then Some v else assoc_get k r end.

Fixpoint assoc_set (k : nat) (v : qrow) (l : list (nat * qrow)) : list (nat * qrow) :=
  match l with
  | [] => [(k, v)]
  | (a, w) :: r => if a =? k then (a, v) :: r else (a, w) :: assoc_set k v r
  end.

Fixpoint assoc_del (k : nat) (l : list (nat * qrow)) : list (nat * qrow) :=
  match l with [] => [] | (a, w) :: r => if a =? k then r else (a, w) :: assoc_del k r end.

Record fstate := mkFS {
  core : rstate;
  fracs : list (nat * qrow);   (* traj_data[pn]['frac'], n entries each *)
  data : list (nat * qrow);    (* rows appended to the data file: (path number, its frac) *)
  steps_done : nat
}.

(* "record weights": every live path that is not locked gets its row of P added.
   traj_data[live] raises KeyError when the path has no record: [None]. *)
Fixpoint credit (s : rstate) (P : list qrow) (i : nat) (slots : list nat) (fr : list (nat * qrow))
  : option (list (nat * qrow)) :=
  match slots with
  | [] => Some fr
  | pn :: r =>
      if is_locked s i then credit s P (S i) r fr
      else match assoc_get pn fr with
           | Some v => credit s P (S i) r (assoc_set pn (qrow_add v (nth i P [])) fr)
           | None => None
           end
  end.

(* write_to_pathens for the archived path numbers: append the row, drop from traj_data *)
Fixpoint archive (pns : list nat) (fr : list (nat * qrow)) (dt : list (nat * qrow))
  : list (nat * qrow) * list (nat * qrow) :=
  match pns with
  | [] => (fr, dt)
  | pn :: r =>
      match assoc_get pn fr with
      | Some v => archive r (assoc_del pn fr) (dt ++ [(pn, v)])
      | None => archive r fr dt
      end
  end.

Definition zero_qrow (n : nat) : qrow := repeat 0%Q n.

(* new accepted paths get a zero fraction vector (done inside the per-ensemble loop) *)
Fixpoint new_fracs (rs : list ens_result) (tn : nat) (n : nat) (fr : list (nat * qrow))
  : list (nat * qrow) :=
  match rs with
  | [] => fr
  | r :: rest => if r_acc r then new_fracs rest (S tn) n (assoc_set tn (zero_qrow n) fr)
                 else new_fracs rest tn n fr
  end.

(* treat_output as a whole: per-ensemble loop, credit with the P of that moment, archive on
   ACC (md_items['status'] == 'ACC' means every ensemble of the job was accepted), sort,
   traj_num update.  [P] is the probability matrix the code computed after add_traj. *)
Inductive treat_result :=
| TreatOk (f : fstate) | TreatAssert | TreatSortError | TreatSortHang.

Definition treat_output (f : fstate) (rs : list ens_result) (acc : bool) (P : list qrow) : treat_result :=
  let s := core f in
  match treat_results s rs with
  | None => TreatAssert
  | Some s1 =>
      let fr1 := new_fracs rs (traj_num s) (size s) (fracs f) in
      match credit s1 P 0 (removelast (trajs s1)) fr1 with
      | None => TreatAssert
      | Some fr2 =>
      let '(fr3, dt) := if acc then archive (map r_pn_old rs) fr2 (data f) else (fr2, data f) in
      match sort_trajstate s1 with
      | SortOk s2 _ => TreatOk (mkFS s2 fr3 dt (S (steps_done f)))
      | SortValueError => TreatSortError
      | SortFuel => TreatSortHang
      end
      end
  end.

(* ------------------------------------------------------------------ operations *)

(* results of a job as treat_output sees them: one entry per ensemble of the job, in the
   job's order, with the weight rows supplied by the move *)
Fixpoint results_of (cols paths : list nat) (acc : bool) (rows : list (list Z)) : list ens_result :=
  match cols, paths, rows with
  | c :: cr, p :: pr, w :: wr => mkRes c p acc w :: results_of cr pr acc wr
  | _, _, _ => []
  end.

Inductive op :=
| OpPick (c : pick_choice) (pin : nat)                       (* prep_md_items -> pick() *)
| OpPickLock (cols paths : list nat) (pin : nat)             (* prep_md_items -> pick_lock() with a recorded entry *)
| OpTreat (k : nat) (acc : bool) (rows : list (list Z)) (P : list qrow).  (* treat_output of the k-th in-flight job *)

Definition with_core (f : fstate) (s : rstate) : fstate := mkFS s (fracs f) (data f) (steps_done f).

Definition step (f : fstate) (o : op) : option fstate :=
  match o with
  | OpPick c pin =>
      if memn pin (map jpin (locked (core f))) then None else
      option_map (fun x => with_core f (fst x)) (pick (core f) c pin)
  | OpPickLock cols paths pin =>
      if memn pin (map jpin (locked (core f))) then None else
      (* a recorded entry names at least one ensemble and as many paths *)
      if negb ((length cols =? length paths) && negb (length cols =? 0)) then None else
      option_map (fun x => with_core f (fst x)) (pick_lock (core f) cols paths pin)
  | OpTreat k acc rows P =>
      match nth_error (locked (core f)) k with
      | None => None
      | Some jb =>
          if negb ((length rows =? length (jcols jb)) && (length (jpaths jb) =? length (jcols jb))) then None else
          match treat_output f (results_of (jcols jb) (jpaths jb) acc rows) acc P with
          | TreatOk f' => Some f'
          | _ => None
          end
      end
  end.

Fixpoint run (f : fstate) (ops : list op) : option fstate :=
  match ops with
  | [] => Some f
  | o :: r => match step f o with None => None | Some f' => run f' r end
  end.

(* ------------------------------------------------------------------ engines (factory.py) *)

(* engine_occ[eng] = list of pins, None = -1 (free) *)
Definition occ_t := list (nat * list (option nat)).   (* engine type id -> instances *)

Definition free_pin (pin : nat) (o : occ_t) : occ_t :=
  map (fun '(e, l) => (e, map (fun x => match x with
                                        | Some p => if p =? pin then None else Some p
                                        | None => None end) l)) o.

Fixpoint first_free (i : nat) (l : list (option nat)) : option nat :=
  match l with [] => None | None :: _ => Some i | Some _ :: r => first_free (S i) r end.

Fixpoint occ_take (e : nat) (pin : nat) (o : occ_t) : occ_t * option nat :=
  match o with
  | [] => ([], None)
  | (a, l) :: r =>
      if a =? e then
        match first_free 0 l with
        | Some i => ((a, set_nth i (Some pin) l) :: r, Some i)
        | None => ((a, l) :: r, None)
        end
      else let '(r', x) := occ_take e pin r in ((a, l) :: r', x)
  end.

(* assign_engines(engine_occ, eng_names, pin) -> (occ', [(engine, instance)]);
   instance None = no free instance found (the code then fails later with a KeyError) *)
Fixpoint assign_loop (names : list nat) (pin : nat) (o : occ_t) : occ_t * list (nat * option nat) :=
  match names with
  | [] => (o, [])
  | e :: r => let '(o1, x) := occ_take e pin o in
              let '(o2, xs) := assign_loop r pin o1 in (o2, (e, x) :: xs)
  end.

Definition assign_engines (o : occ_t) (names : list nat) (pin : nat) : occ_t * list (nat * option nat) :=
  assign_loop names pin (free_pin pin o).
