(* Executable model of the on-the-fly trajectory readers of
   infretis/classes/engines/engineparts.py (ReadAndProcessOnTheFly, xyz_reader,
   lammpstrj_reader) and of the TRR polling loop of infretis/classes/engines/gromacs.py
   (GromacsRunner.get_gromacs_frames, read_remaining_trr).  No proofs here.

   Text readers.  A poll of ReadAndProcessOnTheFly opens the file, seeks to
   current_position and hands the file object to the reader, which calls readline until it
   returns "".  The model of one poll is therefore a function of [buf], the bytes that are
   on disk from current_position to the end of the file: [readlines buf] is the sequence
   of strings readline returns (every line keeps its "\n"; only the last one can lack it),
   [split] is str.split() (ASCII white space), [parse_int] is int() on a token, and
   float() / numpy's string->float64 conversion is the Section variable [fok] (does the
   conversion succeed?); the numeric value itself is never needed: a returned number is
   the token it was converted from.  tell() is the start position plus the lengths of the
   lines read so far.  Assumed about the input: ASCII, no carriage returns (universal
   newline translation is not modelled).

   The boolean [fixed] selects the reader as it is in /repo when the defect of lead L1 is
   present ([false]) or the repaired reader of /verif/proposed_fixes/C13_*.diff ([true]):
     xyz_reader       [true]: a line without its newline ends the poll; block_size = 0
                              ends the poll instead of dividing by zero;
     lammpstrj_reader [true]: an atom line must also end with a newline. *)
From Coq Require Import ZArith List Bool Ascii Lia.
Import ListNotations.
Open Scope Z_scope.
Open Scope char_scope.

Definition token := list ascii.

Definition nl : ascii := "010".

Definition is_nl (c : ascii) : bool := Ascii.eqb c nl.

(* the ASCII characters str.split() treats as white space *)
Definition is_ws (c : ascii) : bool :=
  match c with
  | "009" | "010" | "011" | "012" | "013" | "028" | "029" | "030" | "031" | " " => true
  | _ => false
  end.

(* str.split() *)
Fixpoint split (s : list ascii) : list token :=
  match s with
  | [] => []
  | c :: r =>
    if is_ws c then split r
    else match r with
         | [] => [[c]]
         | d :: _ =>
           if is_ws d then [c] :: split r
           else match split r with
                | t :: ts => (c :: t) :: ts
                | [] => [[c]]
                end
         end
  end.

(* the strings successive readline() calls return on a buffer *)
Fixpoint readlines (s : list ascii) : list (list ascii) :=
  match s with
  | [] => []
  | c :: r =>
    if is_nl c then [c] :: readlines r
    else match readlines r with
         | [] => [[c]]
         | l :: ls => (c :: l) :: ls
         end
  end.

(* line[-1] == "\n"  (readline never returns the empty string inside the loop) *)
Definition terminated (l : list ascii) : bool := is_nl (last l "000"%char).

Definition digit_val (c : ascii) : option Z :=
  match c with
  | "0" => Some 0 | "1" => Some 1 | "2" => Some 2 | "3" => Some 3 | "4" => Some 4
  | "5" => Some 5 | "6" => Some 6 | "7" => Some 7 | "8" => Some 8 | "9" => Some 9
  | _ => None
  end.

Fixpoint parse_digits (acc : Z) (s : list ascii) : option Z :=
  match s with
  | [] => Some acc
  | c :: r => match digit_val c with
              | Some d => parse_digits (10 * acc + d) r
              | None => None
              end
  end.

Definition parse_nat (s : token) : option Z :=
  match s with [] => None | _ => parse_digits 0 s end.

(* int(token): optional sign, decimal digits (underscores and non-ASCII digits are not
   modelled; None = ValueError) *)
Definition parse_int (s : token) : option Z :=
  match s with
  | "-" :: r => option_map Z.opp (parse_nat r)
  | "+" :: r => parse_nat r
  | _ => parse_nat s
  end.

(* A concrete instance for [fok]: the strings float() accepts, restricted to plain decimal
   literals  [+-] (D+ [. D*] | . D+) [ (e|E) [+-] D+ ]  (inf/nan/underscores not modelled). *)
Inductive fstate := F0 | Fsign | Fint | Fdot | Fdot0 | Ffrac | Fe | Fesign | Fexp | Fbad.

Definition is_digit (c : ascii) : bool := match digit_val c with Some _ => true | None => false end.

Definition fnext (s : fstate) (c : ascii) : fstate :=
  let d := is_digit c in
  let dot := Ascii.eqb c "." in
  let e := Ascii.eqb c "e" || Ascii.eqb c "E" in
  let sg := Ascii.eqb c "+" || Ascii.eqb c "-" in
  match s with
  | F0 => if d then Fint else if dot then Fdot0 else if sg then Fsign else Fbad
  | Fsign => if d then Fint else if dot then Fdot0 else Fbad
  | Fint => if d then Fint else if dot then Fdot else if e then Fe else Fbad
  | Fdot => if d then Ffrac else if e then Fe else Fbad
  | Fdot0 => if d then Ffrac else Fbad
  | Ffrac => if d then Ffrac else if e then Fe else Fbad
  | Fe => if d then Fexp else if sg then Fesign else Fbad
  | Fesign => if d then Fexp else Fbad
  | Fexp => if d then Fexp else Fbad
  | Fbad => Fbad
  end.

Definition py_float_ok (t : token) : bool :=
  match fold_left fnext t F0 with
  | Fint | Fdot | Ffrac | Fexp => true
  | _ => false
  end.

Definition zero_char : ascii := "000".

Close Scope char_scope.

Inductive exn := EZeroDiv | EValue | EIndex.

(* what processing one line does to the loop *)
Inductive step_res (S : Type) : Type :=
| Continue (s : S)          (* go on with the next line *)
| Return (s : S)            (* `return trajectory` *)
| Raised (e : exn) (s : S). (* an exception propagates out of the poll *)
Arguments Continue {S} s.
Arguments Return {S} s.
Arguments Raised {S} e s.

(* outcome of the checks made on one line before the loop state is updated *)
Inductive chk (T : Type) : Type :=
| CGo (x : T)
| CRet
| CRaise (e : exn).
Arguments CGo {T} x.
Arguments CRet {T}.
Arguments CRaise {T} e.

Fixpoint run_lines {S : Type} (step : S -> list ascii -> step_res S) (st : S)
         (lines : list (list ascii)) : step_res S :=
  match lines with
  | [] => Continue st
  | l :: r => match step st l with
              | Continue s => run_lines step s r
              | other => other
              end
  end.

Definition res_state {S} (r : step_res S) : S :=
  match r with Continue s | Return s | Raised _ s => s end.
Definition res_exn {S} (r : step_res S) : option exn :=
  match r with Raised e _ => Some e | _ => None end.

Definition is_nil {A} (l : list A) : bool := match l with [] => true | _ => false end.

Definition blen (l : list ascii) : Z := Z.of_nat (length l).

Section Readers.
Variable fok : token -> bool.

(* ------------------------------------------------------------------ xyz_reader *)

(* a frame = rows of three number tokens (np.array(frame_coordinates)) *)
Definition xyz_frame := list (list token).

Record xyz_state := mkX {
  x_i : Z;                       (* enumerate index *)
  x_N : Z;                       (* N_atoms *)
  x_bs : Z;                      (* block_size *)
  x_cur : list (list token);     (* frame_coordinates, newest first *)
  x_traj : list xyz_frame;       (* trajectory, newest first *)
  x_read : Z;                    (* tell() - start position *)
  x_pos : Z                      (* current_position - start position *)
}.

Definition xyz_init : xyz_state := mkX 0 0 0 [] [] 0 0.

Definition xyz_line (fixed : bool) (st : xyz_state) (line : list ascii) : step_res xyz_state :=
  if fixed && negb (terminated line) then Return st
  else
    let rd := x_read st + blen line in
    let spl := split line in
    let i := x_i st in
    match (if (i =? 0) && negb (is_nil spl)
           then match parse_int (hd [] spl) with
                | Some n => Some (n, n + 2)
                | None => None
                end
           else Some (x_N st, x_bs st)) with
    | None => Raised EValue st
    | Some (N, bs) =>
      if bs =? 0 then (if fixed then Return st else Raised EZeroDiv st)
      else
        let r := i mod bs in
        let after_check :=
          if r >? 1 then
            if negb (Nat.eqb (length spl) 4) then CRet
            else
              let row := firstn 3 (tl spl) in
              if forallb fok row then CGo (row :: x_cur st) else CRaise EValue
          else CGo (x_cur st) in
        match after_check with
        | CRet => Return st
        | CRaise e => Raised e st
        | CGo cur =>
          if (r =? N + 1) && (i >? 0)
          then Continue (mkX (i + 1) N bs [] (rev cur :: x_traj st) rd rd)
          else Continue (mkX (i + 1) N bs cur (x_traj st) rd (x_pos st))
        end
    end.

(* one poll: (exception, frames returned if none was raised, new position - old position) *)
Definition xyz_read (fixed : bool) (buf : list ascii) : option exn * list xyz_frame * Z :=
  let r := run_lines (xyz_line fixed) xyz_init (readlines buf) in
  (res_exn r, rev (x_traj (res_state r)), x_pos (res_state r)).

(* ------------------------------------------------------------------ lammpstrj_reader *)

(* a frame = (box rows: 2 or 3 tokens each, missing third column is 0 ;
              coordinate rows: None = row never written (zeros), Some = the six tokens) *)
Definition lmp_frame := (list (list token) * list (option (list token)))%type.

Record lmp_state := mkL {
  l_i : Z;
  l_N : Z;
  l_bs : Z;
  l_box : list (list token);             (* box_snapshot rows *)
  l_coord : list (option (list token));  (* coordinate_snapshot rows *)
  l_traj : list lmp_frame;               (* newest first *)
  l_read : Z;
  l_pos : Z
}.

Definition lmp_init : lmp_state := mkL 0 0 4 [] [] [] 0 0.

Definition zeros_box : list (list token) := [[]; []; []].
Definition zeros_coord (N : Z) : list (option (list token)) := repeat None (Z.to_nat N).

Fixpoint set_nth {A} (n : nat) (x : A) (l : list A) : list A :=
  match l, n with
  | [], _ => []
  | _ :: r, O => x :: r
  | a :: r, S m => a :: set_nth m x r
  end.

Definition lmp_line (fixed : bool) (st : lmp_state) (line : list ascii) : step_res lmp_state :=
  let i := l_i st in
  let rd := l_read st + blen line in
  if (i =? 0) && (match line with [c] => is_nl c | _ => false end)
  then Return (mkL i (l_N st) (l_bs st) (l_box st) (l_coord st) (l_traj st) rd rd)
  else
    let spl := split line in
    let term := terminated line in
    (* i == 3 : the number of atoms *)
    let hdr :=
      if i =? 3 then
        if is_nil spl || negb term then CRet
        else match parse_int (hd [] spl) with
             | None => CRaise EValue
             | Some n => if n <? 0 then CRaise EValue
                         else CGo (n, n + 9, zeros_box, zeros_coord n)
             end
      else CGo (l_N st, l_bs st, l_box st, l_coord st) in
    match hdr with
    | CRet => Return st
    | CRaise e => Raised e st
    | CGo (N, bs, box, coord) =>
      if bs =? 0 then Raised EZeroDiv st
      else
        let line_nr := i mod bs in
        let body :=
          if (5 <=? line_nr) && (line_nr <=? 7) then
            let n := length spl in
            if negb (Nat.eqb n 2 || Nat.eqb n 3) || negb term then CRet
            else if forallb fok spl
                 then CGo (set_nth (Z.to_nat (line_nr - 5)) spl box, coord)
                 else CRaise EValue
          else if 9 <=? line_nr then
            if negb (Nat.eqb (length spl) 9)
               || negb (if list_eq_dec ascii_dec (hd [] spl) (last spl []) then true else false)
               || (fixed && negb term)
            then CRet
            else match parse_int (hd [] spl) with
                 | None => CRaise EValue
                 | Some id =>
                   let atom := id - 1 in
                   let row := firstn 6 (skipn 2 spl) in
                   if (atom <? - N) || (N <=? atom) then CRaise EIndex
                   else if forallb fok row
                        then CGo (box, set_nth (Z.to_nat (if atom <? 0 then atom + N else atom))
                                               (Some row) coord)
                        else CRaise EValue
                 end
          else CGo (box, coord) in
        match body with
        | CRet => Return st
        | CRaise e => Raised e st
        | CGo (box', coord') =>
          if (line_nr =? bs - 1) && (i >? 0)
          then Continue (mkL (i + 1) N bs zeros_box (zeros_coord N)
                             ((box', coord') :: l_traj st) rd rd)
          else Continue (mkL (i + 1) N bs box' coord' (l_traj st) rd (l_pos st))
        end
    end.

Definition lmp_read (fixed : bool) (buf : list ascii) : option exn * list lmp_frame * Z :=
  let r := run_lines (lmp_line fixed) lmp_init (readlines buf) in
  (res_exn r, rev (l_traj (res_state r)), l_pos (res_state r)).

(* ------------------------------------------------------------------ decidable form of the
   well-formedness hypotheses of the theorems (proofs/ReadersP.v: xyz_wf, lmp_wf); the
   correspondence harness evaluates them on every generated file to count how many cases lie
   inside the theorems' domain *)
Definition cleanb (l : list ascii) : bool := forallb (fun c => negb (is_nl c)) l.

Definition count_okb (N : nat) (cl : list ascii) : bool :=
  match split cl with
  | tk :: _ => match parse_int tk with Some n => n =? Z.of_nat N | None => false end
  | [] => false
  end.

Definition xyz_atom_okb (a : list ascii) : bool :=
  match split a with
  | [_; t1; t2; t3] => fok t1 && fok t2 && fok t3
  | _ => false
  end.

Definition xyz_wfb (N : nat) (f : list (list ascii)) : bool :=
  match f with
  | cl :: _ :: atoms =>
    Nat.eqb (length atoms) N && forallb cleanb f && count_okb N cl && forallb xyz_atom_okb atoms
  | _ => false
  end.

Definition lmp_box_okb (b : list ascii) : bool :=
  let s := split b in (Nat.eqb (length s) 2 || Nat.eqb (length s) 3) && forallb fok s.

Definition lmp_atom_okb (N : nat) (a : list ascii) : bool :=
  let s := split a in
  Nat.eqb (length s) 9 &&
  (if list_eq_dec ascii_dec (hd [] s) (last s []) then true else false) &&
  match parse_int (hd [] s) with Some id => (1 <=? id) && (id <=? Z.of_nat N) | None => false end &&
  forallb fok (firstn 6 (skipn 2 s)).

Fixpoint lmp_lines_okb (N : nat) (m : Z) (ls : list (list ascii)) : bool :=
  match ls with
  | [] => true
  | l :: r =>
    (if (5 <=? m) && (m <=? 7) then lmp_box_okb l else true) &&
    (if 9 <=? m then lmp_atom_okb N l else true) && lmp_lines_okb N (m + 1) r
  end.

Definition lmp_wfb (N : nat) (f : list (list ascii)) : bool :=
  match f with
  | h0 :: _ :: _ :: cnt :: tail =>
    negb (is_nil h0) && count_okb N cnt && forallb cleanb f &&
    Nat.eqb (length tail) (N + 5) && lmp_lines_okb N 4 tail
  | _ => false
  end.

(* ------------------------------------------------------------------ polling
   ReadAndProcessOnTheFly.read_and_process_content called repeatedly while the file
   grows: [file] is what the writer will eventually have written, each cut is the number
   of bytes on disk at one poll, [pos] is current_position. *)
Fixpoint polls {F : Type} (read : list ascii -> option exn * list F * Z)
         (file : list ascii) (pos : Z) (cuts : list nat)
  : list (option exn * list F * Z) :=
  match cuts with
  | [] => []
  | c :: r =>
    let '(e, fr, d) := read (skipn (Z.to_nat pos) (firstn c file)) in
    (e, fr, pos + d) :: polls read file (pos + d) r
  end.

End Readers.

(* ------------------------------------------------------------------ TRR polling
   The file is a sequence of frames, frame j = a header of [fst] bytes followed by [snd]
   bytes of data (the sum of the TRR_DATA_ITEMS sizes stored in that header).  The loop
   never looks at the file except through os.path.getsize and reads of a known length at
   offset bytes_read, so the model works on sizes: an observation is one value returned by
   getsize while GROMACS is running; [trr_finish] is read_remaining_trr after it exited.
   [head] is TRR_HEAD_SIZE. *)
Definition layout := list (Z * Z).

Fixpoint frame_at (lay : layout) (off : Z) (idx : nat) (p : Z) : option (nat * Z * Z) :=
  match lay with
  | [] => None
  | (h, d) :: r => if p =? off then Some (idx, h, d)
                   else frame_at r (off + h + d) (S idx) p
  end.

Inductive trr_event :=
| TReadHeader (at_ len size : Z)   (* read_trr_header consumed [len] bytes at offset [at_] *)
| TReadData (at_ len size : Z)     (* get_data consumed [len] bytes at offset [at_] *)
| TYield (idx : nat)               (* the data of frame idx was yielded *)
| TGarbage (at_ : Z).              (* a header read started at a non-frame offset / short read *)

Record trr_state := mkT {
  t_br : Z;                     (* bytes_read *)
  t_hs : Z;                     (* header_size (0 until the first header was read) *)
  t_pend : option (nat * Z);    (* header of frame idx read, waiting for its data_size bytes *)
  t_bad : bool                  (* a read went wrong (would raise / desynchronise) *)
}.

Definition trr_init : trr_state := mkT 0 0 None false.

(* one os.path.getsize observation inside get_gromacs_frames *)
Definition trr_observe (head : Z) (lay : layout) (st : trr_state) (size : Z)
  : trr_state * list trr_event :=
  if t_bad st then (st, [])
  else
    match t_pend st with
    | None =>
      let guard := if t_hs st =? 0 then head else t_hs st in
      if size >=? t_br st + guard then
        match frame_at lay 0 0%nat (t_br st) with
        | Some (idx, h, d) =>
          if t_br st + h <=? size
          then (mkT (t_br st + h) h (Some (idx, d)) false, [TReadHeader (t_br st) h size])
          else (mkT (t_br st) (t_hs st) None true, [TGarbage (t_br st)])
        | None => (mkT (t_br st) (t_hs st) None true, [TGarbage (t_br st)])
        end
      else (st, [])
    | Some (idx, d) =>
      if size >=? t_br st + d
      then (mkT (t_br st + d) (t_hs st) None false, [TReadData (t_br st) d size; TYield idx])
      else (st, [])
    end.

Fixpoint trr_run (head : Z) (lay : layout) (st : trr_state) (sizes : list Z)
  : trr_state * list trr_event :=
  match sizes with
  | [] => (st, [])
  | s :: r => let '(st1, ev1) := trr_observe head lay st s in
              let '(st2, ev2) := trr_run head lay st1 r in
              (st2, ev1 ++ ev2)
  end.

(* read_remaining_trr(filename, fileh, start = bytes_read) with the file complete *)
Fixpoint trr_remaining (fuel : nat) (lay : layout) (br total : Z) : Z * list trr_event :=
  match fuel with
  | O => (br, [])
  | S f =>
    if br >=? total then (br, [])
    else match frame_at lay 0 0%nat br with
         | Some (idx, h, d) =>
           if br + h + d <=? total
           then let '(b, ev) := trr_remaining f lay (br + h + d) total in
                (b, TReadHeader br h total :: TReadData (br + h) d total :: TYield idx :: ev)
           else (br, [TGarbage br])
         | None => (br, [TGarbage br])
         end
  end.

(* poll() is not None: stop, read what is left (only reached between frames) *)
Definition trr_finish (lay : layout) (st : trr_state) (total : Z) : Z * list trr_event :=
  if t_bad st then (t_br st, [])
  else if total - t_br st >? 0 then trr_remaining (S (length lay)) lay (t_br st) total
  else (t_br st, []).

Definition layout_size (lay : layout) : Z := fold_right (fun hd acc => fst hd + snd hd + acc) 0 lay.

(* ------------------------------------------------------------------ TRR: every interleaving
   of the writer with every observation of get_gromacs_frames.

   The loop learns about the outside world at two kinds of points only: check_poll()
   ("has GROMACS ended?") and os.path.getsize(trr_file) (a read is issued only for bytes a
   previous getsize has shown to be on disk, and the file is append-only, so its result does
   not depend on when it happens).  [trr_pc] names these points in program order; one
   [trr_step] is the code between one observation and the next, given what the observation
   returned: [size] = bytes on disk, [ended] = GROMACS has exited with return code 0 (a
   non-zero code makes check_poll raise: a failed run, by design).  The writer may write
   any amount and exit between ANY two observations: a schedule is the size on disk at every
   observation made while GROMACS is still running (its length is the index of the first
   observation that sees GROMACS ended) and the final size [fin].

   [recheck = true] is the code as it is: in the wait-for-data loop, after check_poll() has
   said "ended", the size is read AGAIN and the loop stops only if the data of the frame is
   still incomplete.  [recheck = false] is the variant that decides with the size read BEFORE
   check_poll() (refuted: it loses complete frames). *)
Inductive trr_pc :=
| PcPoll        (* top of the outer loop: check_poll() *)
| PcHdrSize     (* poll was None: getsize, is the next header on disk? *)
| PcDataSize    (* header read: getsize at the top of `while data is None` *)
| PcGuardPoll   (* data not ready: check_poll() of the ended-guard *)
| PcGuardSize   (* ... it has ended: the second getsize of the guard *)
| PcFinSize     (* outer poll not None: getsize for `getsize - bytes_read > 0` *)
| PcRemSize     (* read_remaining_trr: bytes_total = getsize *)
| PcDone.       (* the generator has returned (stop_read = True) *)

Record trr_m := mkM { m_pc : trr_pc; m_st : trr_state }.

Definition trr_m_init : trr_m := mkM PcPoll trr_init.

Definition trr_step (recheck : bool) (head : Z) (lay : layout) (m : trr_m) (size : Z) (ended : bool)
  : trr_m * list trr_event :=
  let st := m_st m in
  match m_pc m with
  | PcPoll => (mkM (if ended then PcFinSize else PcHdrSize) st, [])
  | PcHdrSize =>
    let '(st1, ev) := trr_observe head lay st size in
    (mkM (if t_bad st1 then PcDone
          else match t_pend st1 with Some _ => PcDataSize | None => PcPoll (* sleep *) end) st1, ev)
  | PcDataSize =>
    let '(st1, ev) := trr_observe head lay st size in
    (mkM (match t_pend st1 with None => PcPoll (* yielded *) | Some _ => PcGuardPoll end) st1, ev)
  | PcGuardPoll =>
    (mkM (if ended then (if recheck then PcGuardSize else PcDone) else PcDataSize (* sleep *)) st, [])
  | PcGuardSize =>
    match t_pend st with
    | Some (_, d) => (mkM (if size <? t_br st + d then PcDone else PcDataSize (* sleep *)) st, [])
    | None => (mkM PcDone st, [])
    end
  | PcFinSize => (mkM (if size - t_br st >? 0 then PcRemSize else PcDone) st, [])
  | PcRemSize =>
    (* t_br becomes the offset after the last block read_remaining_trr consumed *)
    let '(br, ev) := trr_remaining (S (length lay)) lay (t_br st) size in
    (mkM PcDone (mkT br (t_hs st) None (t_bad st)), ev)
  | PcDone => (m, [])
  end.

Fixpoint trr_drive (recheck : bool) (head : Z) (lay : layout) (m : trr_m) (obs : list (Z * bool))
  : trr_m * list trr_event :=
  match obs with
  | [] => (m, [])
  | (s, e) :: r => let '(m1, ev1) := trr_step recheck head lay m s e in
                   let '(m2, ev2) := trr_drive recheck head lay m1 r in
                   (m2, ev1 ++ ev2)
  end.

(* the program points at which the observations are consumed (correspondence: the real loop
   makes the same sequence of poll()/getsize() calls) *)
Fixpoint trr_pcs (recheck : bool) (head : Z) (lay : layout) (m : trr_m) (obs : list (Z * bool))
  : list trr_pc :=
  match obs with
  | [] => []
  | (s, e) :: r => m_pc m :: trr_pcs recheck head lay (fst (trr_step recheck head lay m s e)) r
  end.

(* after GROMACS has ended every observation is (fin, ended); the loop returns after at most
   six of them *)
Definition trr_world (sizes : list Z) (fin : Z) : list (Z * bool) :=
  map (fun s => (s, false)) sizes ++ repeat (fin, true) 8.

Definition trr_sched (recheck : bool) (head : Z) (lay : layout) (sizes : list Z) (fin : Z)
  : trr_m * list trr_event :=
  trr_drive recheck head lay trr_m_init (trr_world sizes fin).

Definition trr_sched_pcs (recheck : bool) (head : Z) (lay : layout) (sizes : list Z) (fin : Z)
  : list trr_pc :=
  trr_pcs recheck head lay trr_m_init (trr_world sizes fin).

(* ------------------------------------------------------------------ TRR: WHOSE data size?
   The frames of one TRR file need not have the same data size: velocities and forces are
   written every nstvout / nstfout steps, positions every nstxout steps, so a file can hold
   frames with positions only, with positions + velocities, with positions + velocities +
   forces in any pattern.  A [layout] is a list: every frame has its own (header, data) size,
   and in [trr_observe] / [trr_step] the pending frame carries the data size [d] announced by
   ITS OWN header - that is the code as it is,
       self.data_size = sum(header[key] for key in TRR_DATA_ITEMS)      (for every header read)
   and both guards, `size >= self.bytes_read + self.data_size` and
   `getsize < self.bytes_read + self.data_size`, use it.

   [trr_step_g dg] is the same loop with the two guards using [dg lay idx d] instead of [d];
   the read itself is unchanged (get_data reads the blocks the header announces: [d] bytes),
   so a read the guard lets through with fewer than [d] bytes on disk goes wrong (struct.error
   on a short block / EOFError on an empty one, then a re-read from the middle of the frame):
   TGarbage, [t_bad].  [own_size] gives back the loop as it is (proofs/ReadersTrrP.v:
   trr_sched_g_own); [cached_size] is the variant "computed once, while data_size is still 0,
   like the header size": the guard of frame idx uses the first non-zero data size among
   frames 0..idx. *)
Definition own_size (lay : layout) (idx : nat) (d : Z) : Z := d.

Fixpoint cached_ds (lay : layout) (idx : nat) : Z :=
  match lay with
  | [] => 0
  | (_, d) :: r => if d =? 0 then match idx with O => 0 | S i => cached_ds r i end else d
  end.

Definition cached_size (lay : layout) (idx : nat) (d : Z) : Z := cached_ds lay idx.

Definition trr_observe_g (dg : layout -> nat -> Z -> Z) (head : Z) (lay : layout) (st : trr_state) (size : Z)
  : trr_state * list trr_event :=
  if t_bad st then (st, [])
  else
    match t_pend st with
    | None => trr_observe head lay st size
    | Some (idx, d) =>
      if size >=? t_br st + dg lay idx d
      then if t_br st + d <=? size
           then (mkT (t_br st + d) (t_hs st) None false, [TReadData (t_br st) d size; TYield idx])
           else (mkT (t_br st) (t_hs st) None true, [TGarbage (t_br st)])
      else (st, [])
    end.

Definition trr_step_g (dg : layout -> nat -> Z -> Z) (head : Z) (lay : layout) (m : trr_m) (size : Z) (ended : bool)
  : trr_m * list trr_event :=
  let st := m_st m in
  match m_pc m with
  | PcDataSize =>
    let '(st1, ev) := trr_observe_g dg head lay st size in
    (mkM (match t_pend st1 with None => PcPoll | Some _ => PcGuardPoll end) st1, ev)
  | PcGuardSize =>
    match t_pend st with
    | Some (idx, d) => (mkM (if size <? t_br st + dg lay idx d then PcDone else PcDataSize) st, [])
    | None => (mkM PcDone st, [])
    end
  | _ => trr_step true head lay m size ended
  end.

Fixpoint trr_drive_g (dg : layout -> nat -> Z -> Z) (head : Z) (lay : layout) (m : trr_m) (obs : list (Z * bool))
  : trr_m * list trr_event :=
  match obs with
  | [] => (m, [])
  | (s, e) :: r => let '(m1, ev1) := trr_step_g dg head lay m s e in
                   let '(m2, ev2) := trr_drive_g dg head lay m1 r in
                   (m2, ev1 ++ ev2)
  end.

Definition trr_sched_g (dg : layout -> nat -> Z -> Z) (head : Z) (lay : layout) (sizes : list Z) (fin : Z)
  : trr_m * list trr_event :=
  trr_drive_g dg head lay trr_m_init (trr_world sizes fin).
