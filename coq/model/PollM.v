(* Executable model of the POLLING / PAIRING logic of the engine classes
   (infretis/classes/engines/{lammps,cp2k,gromacs,ase_engine,turtlemdengine}.py,
   `_propagate_from`), one level above the byte readers (those are C13's ReadersM).

   Inputs of every loop (nothing is an axiom):
   * the FULL TRAJECTORY the MD program would write: one [conf] per frame, the three
     integer tags standing for that frame's own positions, velocities and box;
   * the order parameter as an arbitrary function [ord] of (pos, vel, box) tags; the sign of
     the velocity tag is the velocity direction ([Z.opp] = reversed velocities); for the
     extracted runner [ord] is a finite table ([ord_lookup]);
   * an ARRIVAL SCHEDULE: what is visible in the output file(s) at each poll (between two
     polls the engine sleeps), and whether the program is still running;
   * the program's exit code and what the files contain once it has exited.

   [fx] selects the stop rule of EngineBase.add_to_path: true = the rule as it is now
   (`if path.length == path.maxlen and not success`), false = the rule before the repair of
   lead L11 (= EngineM.add_to_path: a crossing frame that is also the maxlen-th is a failure).
   [fixL2] / [fixL3] / [fixL14] select the repaired (true) or the original (false) code for
   the recorded leads (L14: see Section Gmx): L2 = lammps.py pairs a frame with `box_trajectory.pop()` (the LAST box
   read in this poll) instead of `pop(0)`; L3 = gromacs.py negates the velocities for
   reverse=True before calling calculate_order, which negates them again for vel_rev.
   No proofs here. *)
From Coq Require Import ZArith List Bool Lia.
Import ListNotations.
From Inf Require Import model.PathM model.EngineM.
Open Scope Z_scope.

Record conf := mkC { cpos : Z; cvel : Z; cbox : Z }.

(* finite table for the order parameter: ((pos, vel, box), value); default 0 *)
Definition ord_entry := (Z * Z * Z * Z)%type.
Fixpoint ord_lookup (tbl : list ord_entry) (p v b : Z) : Z :=
  match tbl with
  | [] => 0
  | (p', v', b', o) :: r =>
      if (p =? p') && (v =? v') && (b =? b') then o else ord_lookup r p v b
  end.

(* how the external program ended, as seen by the engine class when it returns *)
Inductive pstate :=
| PKilled            (* still running when the stop rule fired: SIGTERM to the group + wait *)
| PExited (code : Z) (* the engine observed (poll) / the program had exited by itself *)
| PRunning           (* returned while the program is still running (never produced) *)
| PNone.             (* in-process engine: no external program *)

Inductive poll_result :=
| Ret (p : path) (success : bool) (ps : pstate)  (* normal return after the stop rule fired *)
| Trunc (p : path) (ps : pstate)   (* normal return (False, "propagating ...") WITHOUT a stop:
                                      the frames ran out although the exit code was 0 *)
| Raise (p : path) (ps : pstate)   (* RuntimeError: non-zero exit code *)
| IdxError                         (* IndexError (maxlen = 0 / pop from an empty list) *)
| Hang (p : path).                 (* waits forever for data that never arrives *)

(* EngineBase.add_to_path(path, phase_point, left, right) -> (success, stop, add), see the
   header for [fx].  [None] = IndexError of phasepoints[-1] on an empty path (maxlen = 0). *)
Definition add_to_path_x (fx : bool) (p : path) (f : frame) (left right : Z)
  : option (path * bool * bool * bool) :=
  let '(p1, add) := append p f in
  let success := false in
  let stop := negb add in
  match rev (pts p1) with
  | [] => None
  | lastf :: _ =>
      let '(success, stop) :=
        if ford lastf <? left then (true, true)
        else if right <? ford lastf then (true, true)
        else (success, stop) in
      let '(success, stop) :=
        if (plen p1 =? maxlen p1)%nat && (if fx then negb success else true)
        then (false, true) else (success, stop) in
      Some (p1, success, stop, add)
  end.

(* the loop every _propagate_from runs around add_to_path (EngineM.propagate_loop for [fx]) *)
Fixpoint propagate_loop_x (fx : bool) (p : path) (stream : list frame) (left right : Z) (n : nat)
  : prop_result :=
  match stream with
  | [] => PRExhausted p
  | f :: r =>
      match add_to_path_x fx p f left right with
      | None => PRError
      | Some (p1, success, stop, _) =>
          if stop then PR p1 success (S n) else propagate_loop_x fx p1 r left right (S n)
      end
  end.

(* EngineBase.propagate seen from outside: the initial phase point is added first *)
Definition propagate_x (fx : bool) (p : path) (init : frame) (stream : list frame) (left right : Z)
  : prop_result := propagate_loop_x fx p (init :: stream) left right 0.

(* The failure test on the program's return code.  [code] is what subprocess.Popen.poll() /
   .returncode reports: the exit status (>= 0) of a program that exited, and the NEGATIVE number
   -N for a program that was killed by signal N (-9: SIGKILL from the OOM killer or a batch
   system, -11: SIGSEGV, -15: a SIGTERM the engine did not send; the engine's own SIGTERM is
   the [PKilled] outcome, where the code is not looked at).  [strict = true] is the test of
   /repo: `return_code != 0` (lammps.py, cp2k.py), `poll != 0` (GromacsRunner.check_poll).
   [strict = false] is the variant `> 0`, which takes a death by signal for a clean exit
   (refuted: C12_*_signal_death_gt0_refuted). *)
Definition exit_failed (strict : bool) (code : Z) : bool :=
  if strict then negb (code =? 0) else 0 <? code.

Section Poll.
Variable fx : bool.
Variable ord : Z -> Z -> Z -> Z.
Variables left right : Z.
Variable rv : bool.        (* `reverse` of propagate() = system.vel_rev in _propagate_from *)
Variable traj : list conf. (* what the program writes if it is never stopped *)
Variable code : Z.         (* its return code when it ends by itself (signed, see exit_failed) *)
Variable strict : bool.    (* the failure test on the return code: true = `!= 0` (as in /repo) *)

(* EngineBase.calculate_order(system, xyz, vel, box):
   system.vel = vel * -1.0 if system.vel_rev else vel ; order_function.calculate(system) *)
Definition calc_order (vel_rev : bool) (p v b : Z) : Z :=
  ord p (if vel_rev then - v else v) b.

(* snapshot = {order, config: (traj_file, step_nr), vel_rev: reverse} -> snapshot_to_system *)
Definition snapshot (o : Z) (step : nat) : frame := mkF o (Z.of_nat step) rv step.

Definition exit_state : pstate := PExited code.

(* result of the loop falling through without a stop: `if return_code != 0 and not
   was_terminated: raise RuntimeError` else return (success=False, status); a NEGATIVE return
   code (death by signal) is a failure like any other non-zero code *)
Definition fell_through (p : path) : poll_result :=
  if exit_failed strict code then Raise p exit_state else Trunc p exit_state.

(* frames handed out by one call of ReadAndProcessOnTheFly.read_and_process_content when
   the reader has already returned [rd] frames and [c] complete frames are in the file *)
Definition new_frames {A} (stream : list A) (rd c : nat) : list A := skipn rd (firstn c stream).

(* ------------------------------------------------------------------ LAMMPS *)
Section Lammps.
Variable fixL2 : bool.

(* box = box_trajectory.pop()  (original)   /   box_trajectory.pop(0)  (repaired) *)
Definition pop_box (bx : list Z) : option (Z * list Z) :=
  if fixL2 then match bx with [] => None | b :: r => Some (b, r) end
  else match rev bx with [] => None | b :: r => Some (b, rev r) end.

Inductive for_out :=
| FStop (p : path) (success : bool)
| FCont (p : path) (step : nat) (tr : list conf) (bx : list Z)
| FErr.

(* for frame in range(len(trajectory)): posvel = trajectory.pop(0); box = box_trajectory.pop..;
   pos, box = shift_boxbounds(pos, box); order = calculate_order(system, pos, vel, box);
   add_to_path; if stop: break; step_nr += 1 *)
Fixpoint lmp_for (n : nat) (tr : list conf) (bx : list Z) (p : path) (step : nat) : for_out :=
  match n with
  | O => FCont p step tr bx
  | S n' =>
      match tr, pop_box bx with
      | f :: tr', Some (b, bx') =>
          let o := calc_order rv (cpos f) (cvel f) b in
          match add_to_path_x fx p (snapshot o step) left right with
          | None => FErr
          | Some (p1, success, stop, _) =>
              if stop then FStop p1 success else lmp_for n' tr' bx' p1 (S step)
          end
      | _, _ => FErr
      end
  end.

(* while exe.poll() is None or iterations_after_stop <= 1:  one list element = one iteration:
   (complete frames in the dump file at the read, program still running when the stop rule
   fires).  The empty list = the loop condition became false (program exited, the
   after-exit iterations are done). *)
Fixpoint lmp_polls (reads : list (nat * bool)) (rd : nat) (tr : list conf) (bx : list Z)
         (p : path) (step : nat) : poll_result :=
  match reads with
  | [] => fell_through p
  | (c, alive) :: rest =>
      let fs := new_frames traj rd c in
      let tr1 := tr ++ fs in                 (* trajectory += frames[0] *)
      let bx1 := bx ++ map cbox fs in        (* box_trajectory += frames[1] *)
      match lmp_for (length tr1) tr1 bx1 p step with
      | FErr => IdxError
      | FStop p1 s => Ret p1 s (if alive then PKilled else exit_state)
      | FCont p1 step1 tr2 bx2 => lmp_polls rest (rd + length fs) tr2 bx2 p1 step1
      end
  end.

(* [dead_at_start]: the program was seen dead while waiting for the dump file to appear;
   `if exe.poll() is None or exe.returncode == 0:` guards the whole reading loop *)
Definition lammps_run (p0 : path) (dead_at_start : bool) (reads : list (nat * bool)) : poll_result :=
  if dead_at_start && exit_failed strict code then Raise p0 exit_state
  else lmp_polls reads 0 [] [] p0 0.
End Lammps.

(* ------------------------------------------------------------------ CP2K *)
(* positions and velocities come from two files read by two readers; the box is the one of
   the initial configuration (constant: the code documents NVT only) *)
Section Cp2k.
Variable box0 : Z.

Inductive for2_out :=
| F2Stop (p : path) (success : bool)
| F2Cont (p : path) (step : nat) (ps : list Z) (vs : list Z)
| F2Err.

(* for frame in range(min(len(pos_traj), len(vel_traj))): pos = pos_traj.pop(0);
   vel = vel_traj.pop(0); write_xyz_trajectory(traj_file, pos, vel, atoms, box); ... *)
Fixpoint cp2k_for (n : nat) (ps vs : list Z) (p : path) (step : nat) : for2_out :=
  match n with
  | O => F2Cont p step ps vs
  | S n' =>
      match ps, vs with
      | x :: ps', v :: vs' =>
          let o := calc_order rv x v box0 in
          match add_to_path_x fx p (snapshot o step) left right with
          | None => F2Err
          | Some (p1, success, stop, _) =>
              if stop then F2Stop p1 success else cp2k_for n' ps' vs' p1 (S step)
          end
      | _, _ => F2Err
      end
  end.

(* one element = one iteration: (frames complete in -pos-1.xyz, in -vel-1.xyz, alive) *)
Fixpoint cp2k_polls (reads : list (nat * nat * bool)) (rdp rdv : nat) (ps vs : list Z)
         (p : path) (step : nat) : poll_result :=
  match reads with
  | [] => fell_through p
  | (cp, cv, alive) :: rest =>
      let fp := new_frames (map cpos traj) rdp cp in
      let fv := new_frames (map cvel traj) rdv cv in
      let ps1 := ps ++ fp in
      let vs1 := vs ++ fv in
      match cp2k_for (Nat.min (length ps1) (length vs1)) ps1 vs1 p step with
      | F2Err => IdxError
      | F2Stop p1 s => Ret p1 s (if alive then PKilled else exit_state)
      | F2Cont p1 step1 ps2 vs2 =>
          cp2k_polls rest (rdp + length fp) (rdv + length fv) ps2 vs2 p1 step1
      end
  end.

Definition cp2k_run (p0 : path) (dead_at_start : bool) (reads : list (nat * nat * bool)) : poll_result :=
  if dead_at_start && exit_failed strict code then Raise p0 exit_state
  else cp2k_polls reads 0 0 [] [] p0 0.
End Cp2k.

(* ------------------------------------------------------------------ GROMACS *)
(* GromacsRunner.get_gromacs_frames consumed by the for loop of _propagate_from.
   File sizes in bytes; [hsz]/[dsz] = header / data size of one TRR frame, [head0] =
   TRR_HEAD_SIZE (the size demanded before the very first header is read).
   An EPOCH is the time between two sleeps: while the program runs, everything observed
   inside one epoch sees the same file size [size]; the list of epochs is the arrival
   schedule; after the last epoch the program has exited with [code] and the file has
   [final_size] bytes. *)
Section Gmx.
Variable fixL3 : bool.
(* L14: the inner `while data is None` loop of get_gromacs_frames never looks at the process;
   a program that ends after writing a frame header but not its data makes it wait forever.
   fixL14 = true: the repaired loop polls the program when the data is not there (check_poll
   raises on a non-zero code) and stops reading if the frame can no longer be completed. *)
Variable fixL14 : bool.
Variables hsz dsz head0 : nat.
Variable final_size : nat.

(* system.vel = data["v"]; if reverse: system.vel *= -1 (removed by the repair);
   order = calculate_order(system, xyz=system.pos, vel=system.vel, box=system.box) *)
Definition gmx_order (c : conf) : Z :=
  let v := if fixL3 then cvel c else (if rv then - cvel c else cvel c) in
  calc_order rv (cpos c) v (cbox c).

(* body of `for i, data in enumerate(gro.get_gromacs_frames())` *)
Definition gmx_consume (p : path) (i : nat) (c : conf) : option (path * bool * bool) :=
  match add_to_path_x fx p (snapshot (gmx_order c) i) left right with
  | None => None
  | Some (p1, success, stop, _) => Some (p1, success, stop)
  end.

Inductive gphase := GOuter | GInner.   (* GInner: header read, waiting for the data *)

Inductive drain_out :=
| DStop (p : path) (success : bool)
| DSleep (ph : gphase) (br hs i : nat) (p : path) (rem : list conf)
| DErr
| DBad.    (* the size announces a frame the trajectory does not have: ill-formed world *)

(* everything the generator + consumer do inside one epoch of a running program:
   outer: `if size >= bytes_read + (header_size or TRR_HEAD_SIZE)`: read header, then
   inner: `if size >= bytes_read + data_size`: read data, yield (consumer may break),
   otherwise sleep.  Recursion on the frames not yet consumed. *)
Fixpoint gmx_drain (rem : list conf) (size : nat) (ph : gphase) (br hs i : nat) (p : path)
  : drain_out :=
  let inner (br hs : nat) :=
    if (br + dsz <=? size)%nat then
      match rem with
      | [] => DBad
      | c :: rem' =>
          match gmx_consume p i c with
          | None => DErr
          | Some (p1, s, true) => DStop p1 s
          | Some (p1, _, false) => gmx_drain rem' size GOuter (br + dsz) hs (S i) p1
          end
      end
    else DSleep GInner br hs i p rem in
  match ph with
  | GInner => inner br hs
  | GOuter =>
      let need := if (hs =? 0)%nat then head0 else hs in
      if (br + need <=? size)%nat then inner (br + hsz)%nat hsz else DSleep GOuter br hs i p rem
  end.

(* read_remaining_trr: every remaining complete frame, consumed one by one *)
Fixpoint gmx_consume_all (cs : list conf) (i : nat) (p : path) : poll_result :=
  match cs with
  | [] => Trunc p exit_state
  | c :: r =>
      match gmx_consume p i c with
      | None => IdxError
      | Some (p1, s, true) => Ret p1 s exit_state
      | Some (p1, _, false) => gmx_consume_all r (S i) p1
      end
  end.

(* check_poll() sees the program exited: RuntimeError if `poll != 0` (exit_failed); otherwise
   `if getsize - bytes_read > 0: for data in read_remaining_trr(...)` *)
Definition gmx_exit (rem : list conf) (br i : nat) (p : path) : poll_result :=
  if exit_failed strict code then Raise p exit_state
  else gmx_consume_all (firstn ((final_size - br) / (hsz + dsz)) rem) i p.

Fixpoint gmx_epochs (eps : list nat) (rem : list conf) (ph : gphase) (br hs i : nat) (p : path)
  : poll_result :=
  match eps with
  | [] =>
      match ph with
      | GOuter => gmx_exit rem br i p
      | GInner =>   (* the inner wait loop: original code never looks at the process *)
          if (br + dsz <=? final_size)%nat then
            match rem with
            | [] => Hang p
            | c :: rem' =>
                match gmx_consume p i c with
                | None => IdxError
                | Some (p1, s, true) => Ret p1 s exit_state
                | Some (p1, _, false) => gmx_exit rem' (br + dsz) (S i) p1
                end
            end
          else if fixL14 then fell_through p
          else Hang p
      end
  | size :: rest =>
      match gmx_drain rem size ph br hs i p with
      | DStop p1 s => Ret p1 s PKilled
      | DSleep ph' br' hs' i' p' rem' => gmx_epochs rest rem' ph' br' hs' i' p'
      | DErr => IdxError
      | DBad => Hang p
      end
  end.

(* GromacsRunner.start(): waits for the .trr and .edr; check_poll raises on a non-zero code *)
Definition gromacs_run (p0 : path) (dead_at_start : bool) (eps : list nat) : poll_result :=
  if dead_at_start && exit_failed strict code then Raise p0 exit_state
  else gmx_epochs eps traj GOuter 0 0 0 p0.
End Gmx.

(* ------------------------------------------------------------------ in-process engines *)
(* ASE / TurtleMD: `for i in range(subcycles * maxlen): if i % subcycles == 0: <frame>; step`
   over the fine-grained states [fine] (one per MD step); the lattice plug-in is the case
   subcycles = 1.  [i0] = loop index of the head of [fine]. *)
Section Inproc.
Variable s : nat.
Fixpoint inproc_loop (fine : list conf) (i : nat) (p : path) (step : nat) : poll_result :=
  match fine with
  | [] => Trunc p PNone
  | c :: r =>
      if (i mod s =? 0)%nat then
        let o := calc_order rv (cpos c) (cvel c) (cbox c) in
        match add_to_path_x fx p (snapshot o step) left right with
        | None => IdxError
        | Some (p1, success, stop, _) =>
            if stop then Ret p1 success PNone else inproc_loop r (S i) p1 (S step)
        end
      else inproc_loop r (S i) p step
  end.
End Inproc.

(* ------------------------------------------------------------------ calculate_order: overrides or the file *)
(* EngineBase.calculate_order(system, xyz=None, vel=None, box=None):
     if any((xyz is None, vel is None, box is None)):
         xyz, vel, box = self._read_configuration(system.config[0])[:3]
     if xyz is not None: system.pos = xyz
     if vel is not None: system.vel = vel * -1.0 if system.vel_rev else vel
     if box is not None: system.box = box
     return self.order_function.calculate(system)
   ONE missing override makes the call ignore the other two and use the configuration FILE the
   System points to.  [file] is what _read_configuration returns for system.config[0]; its box is
   optional (the comment line of an xyz snapshot need not carry a "Box:" entry); [sysbox] is
   system.box before the call (it stays when neither an override nor the file provides a box). *)
Record fconf := mkFC { fc_pos : Z; fc_vel : Z; fc_box : option Z }.

Definition calculate_order_args (vel_rev : bool) (xyz vel box : option Z) (file : fconf) (sysbox : Z) : Z :=
  match xyz, vel, box with
  | Some x, Some v, Some b => calc_order vel_rev x v b
  | _, _, _ => calc_order vel_rev (fc_pos file) (fc_vel file)
                 (match fc_box file with Some b => b | None => sysbox end)
  end.

(* The in-process loop with its call site spelled out: inside the loop system.config[0] is still
   the INITIAL configuration file [init] (propagate() has pointed the System to it), the state of
   the current step is handed over as overrides,
       order = self.calculate_order(system, xyz=<pos of c>, vel=<vel of c>, box=<boxarg c>)
   (TurtleMD: box = tmd_system.box.length, ASE: box = atoms.cell.diagonal(), never None). *)
Section InprocArgs.
Variable s : nat.
Variable boxarg : conf -> option Z.
Variable init : fconf.
Variable sysbox : Z.
Fixpoint inproc_loop_args (fine : list conf) (i : nat) (p : path) (step : nat) : poll_result :=
  match fine with
  | [] => Trunc p PNone
  | c :: r =>
      if (i mod s =? 0)%nat then
        let o := calculate_order_args rv (Some (cpos c)) (Some (cvel c)) (boxarg c) init sysbox in
        match add_to_path_x fx p (snapshot o step) left right with
        | None => IdxError
        | Some (p1, success, stop, _) =>
            if stop then Ret p1 success PNone else inproc_loop_args r (S i) p1 (S step)
        end
      else inproc_loop_args r (S i) p step
  end.
End InprocArgs.

End Poll.

(* ------------------------------------------------------------------ specification side *)
(* the frame an engine must store for the k-th configuration [c] it ran through:
   order of c's OWN positions, box, and velocities in the forward-time direction
   ((-1)^vel_rev times what is in the file), config index k, the requested direction *)
Definition own_frame (ord : Z -> Z -> Z -> Z) (rv : bool) (k : nat) (c : conf) : frame :=
  mkF (ord (cpos c) (if rv then - cvel c else cvel c) (cbox c)) (Z.of_nat k) rv k.

Fixpoint own_stream_from (ord : Z -> Z -> Z -> Z) (rv : bool) (k : nat) (cs : list conf) : list frame :=
  match cs with
  | [] => []
  | c :: r => own_frame ord rv k c :: own_stream_from ord rv (S k) r
  end.

Definition own_stream ord rv cs := own_stream_from ord rv 0 cs.

(* every s-th element, starting with the first *)
Fixpoint every_from (s i : nat) (l : list conf) : list conf :=
  match l with
  | [] => []
  | c :: r => if (i mod s =? 0)%nat then c :: every_from s (S i) r else every_from s (S i) r
  end.

(* abstract time-reversible dynamics on configurations: velocity reversal *)
Definition crev (c : conf) : conf := mkC (cpos c) (- cvel c) (cbox c).
Fixpoint iter {A} (n : nat) (f : A -> A) (x : A) : A :=
  match n with O => x | S m => f (iter m f x) end.
(* the trajectory a program with one-step map [T] writes from [c0]: n frames *)
Fixpoint orbit (T : conf -> conf) (n : nat) (c0 : conf) : list conf :=
  match n with O => [] | S m => c0 :: orbit T m (T c0) end.

(* ---------------------------------------------------------------- process groups
   What "SIGTERM to the group" (PKilled) relies on when the configured command is a launcher
   (wrapper script, MPI launcher) that runs the MD program as ITS child.  A process table is a
   list of processes (pid, process group, alive).  The engines start their command with
   preexec_fn=os.setsid, so the direct child leads a new group (pgid = pid); a process started
   by a member of the group inherits the group (fork). *)
Record proc := mkProc { pr_pid : Z; pr_pgid : Z; pr_alive : bool }.

Definition stop_proc (p : proc) : proc := mkProc (pr_pid p) (pr_pgid p) false.

(* os.killpg(g, SIGTERM): every process of group g (default disposition or a handler that
   ends the process, as the MD programs have) *)
Definition sig_group (g : Z) (tb : list proc) : list proc :=
  map (fun p => if pr_pgid p =? g then stop_proc p else p) tb.

(* Popen.send_signal / terminate: the one process with that pid *)
Definition sig_pid (x : Z) (tb : list proc) : list proc :=
  map (fun p => if pr_pid p =? x then stop_proc p else p) tb.

(* fork by process [parent]: the child inherits the parent's group *)
Definition spawn (parent child : Z) (tb : list proc) : list proc :=
  match find (fun p => pr_pid p =? parent) tb with
  | Some p => tb ++ [mkProc child (pr_pgid p) true]
  | None => tb
  end.

Definition in_group (g : Z) (tb : list proc) : list proc := filter (fun p => pr_pgid p =? g) tb.
Definition any_alive (tb : list proc) : bool := existsb pr_alive tb.
