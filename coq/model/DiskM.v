(* Abstract model of what the main process of infretis keeps on disk and of the file-system
   effects of one completed Monte Carlo step (REPEX_state.treat_output: PathStorage.output for
   every new path, deletion of an expired old path, write_to_pathens, write_toml), of a crash
   (process death) at any effect boundary or half-way through a write, and of what a restart
   reads back (setup_config: restart.toml, active paths, trim_data_file).

   A file of a stored path is (path number, file id): ids 0,1,2 are order.txt, energy.txt and
   traj.txt, ids >= 3 the trajectory files moved into load/<pn>/accepted/.  Writes can be torn
   (a prefix is on disk), renames/moves/removals are atomic.
   [fixed = true] is the code after fixes e6cb539 (restart.toml written to a temporary file and
   swapped in) and 741f412 (trim_data_file on restart); [fixed = false] the original code.
   No proofs in this file. *)
From Coq Require Import List Bool Arith Lia.
Import ListNotations.
Open Scope nat_scope.

Record rrec := mkRec { r_cstep : nat; r_active : list nat; r_locked : list (list nat * list nat); r_trajnum : nat }.

Record disk := mkDisk {
  files : list (nat * nat * bool);   (* path number, file id, complete? *)
  rows : list (nat * bool);          (* rows of the data file: path number, complete? *)
  rec : option rrec;                 (* restart.toml *)
  rec_torn : bool                    (* restart.toml is a torn prefix (original code only) *)
}.

Inductive eff :=
| ENop                         (* mkdir / rmdir: no content *)
| EPut (pn f : nat)            (* txt file written (f < 3, tearable) or trajectory file moved in (atomic) *)
| EDel (pn f : nat)            (* os.remove *)
| ERow (pn : nat)              (* append one row to the data file (tearable) *)
| ERecInPlace (r : rrec)       (* original: open('restart.toml','wb') + dump (tearable) *)
| ERecTmp                      (* repaired: write restart.toml.tmp (tearable, invisible) *)
| ERecSwap (r : rrec).         (* repaired: os.replace (atomic) *)

Definition tearable (e : eff) : bool :=
  match e with
  | EPut _ f => f <? 3
  | ERow _ | ERecInPlace _ | ERecTmp => true
  | _ => false
  end.

Definition same (pn f : nat) (x : nat * nat * bool) : bool :=
  let '(a, b, _) := x in (a =? pn) && (b =? f).

Definition drop_file (pn f : nat) (l : list (nat * nat * bool)) := filter (fun x => negb (same pn f x)) l.

(* [torn = true]: only a prefix of the effect reaches the disk *)
Definition apply (torn : bool) (d : disk) (e : eff) : disk :=
  match e with
  | ENop | ERecTmp => d
  | EPut pn f => mkDisk ((pn, f, negb torn) :: drop_file pn f (files d)) (rows d) (rec d) (rec_torn d)
  | EDel pn f => mkDisk (drop_file pn f (files d)) (rows d) (rec d) (rec_torn d)
  | ERow pn => mkDisk (files d) (rows d ++ [(pn, negb torn)]) (rec d) (rec_torn d)
  | ERecInPlace r => mkDisk (files d) (rows d) (Some r) torn
  | ERecSwap r => mkDisk (files d) (rows d) (Some r) false
  end.

Definition apply_list (d : disk) (es : list eff) : disk := fold_left (apply false) es d.

(* process death after the first k effects; the next one torn when [torn] and it is a write *)
Definition crash (k : nat) (torn : bool) (d : disk) (es : list eff) : disk :=
  let d1 := apply_list d (firstn k es) in
  match nth_error es k with
  | Some e => if torn && tearable e then apply true d1 e else d1
  | None => d1
  end.

Definition has (d : disk) (pn f : nat) : bool :=
  existsb (fun x => let '(a, b, w) := x in (a =? pn) && (b =? f) && w) (files d).

Section Step.
  (* the files every stored path consists of (txt files and its trajectory files) *)
  Variable need : nat -> list nat.

  Definition loadable (d : disk) (pn : nat) : bool := forallb (has d pn) (need pn).

  (* one completed step.  treat_output handles the ensembles of the job one after the other:
     the new path is stored (when the move was accepted), then an expired old path may be
     deleted with its files; afterwards the replaced paths get their data rows and the restart
     file is rewritten. *)
  Record stepinfo := mkStep { parts : list (nat * list (nat * list nat));   (* new path, deletions after it *)
                              olds : list nat;                               (* replaced paths (archived) *)
                              rnew : rrec }.

  Definition news (st : stepinfo) : list nat := map fst (parts st).
  Definition dels (st : stepinfo) : list (nat * list nat) := flat_map snd (parts st).

  Definition put_path (pn : nat) : list eff := ENop :: map (EPut pn) (need pn).
  Definition del_path (x : nat * list nat) : list eff := map (EDel (fst x)) (snd x) ++ [ENop].
  Definition part_effects (p : nat * list (nat * list nat)) : list eff :=
    put_path (fst p) ++ flat_map del_path (snd p).

  Definition pre_effects (st : stepinfo) : list eff :=
    flat_map part_effects (parts st) ++ map ERow (olds st).

  Definition effects (fixed : bool) (st : stepinfo) : list eff :=
    pre_effects st ++ (if fixed then [ERecTmp; ERecSwap (rnew st)] else [ERecInPlace (rnew st)]).

  (* trim_data_file: drop torn rows and rows of paths the restart record lists as active *)
  Definition trim (active : list nat) (rs : list (nat * bool)) : list (nat * bool) :=
    filter (fun x => snd x && negb (existsb (Nat.eqb (fst x)) active)) rs.

  (* what a restart finds: the record, provided restart.toml is readable and every active path
     loads, and the data rows it will keep *)
  Definition recover (fixed : bool) (d : disk) : option (rrec * list (nat * bool)) :=
    match rec d with
    | None => None
    | Some r =>
        if rec_torn d then None
        else if forallb (loadable d) (r_active r)
             then Some (r, if fixed then trim (r_active r) (rows d) else rows d)
             else None
    end.
End Step.
