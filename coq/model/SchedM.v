(* Executable model of the submit/complete loop of infretis/scheduler.py with
   REPEX_state.initiate / REPEX_state.loop (classes/repex.py), and of the task runner protocol
   of infretis/asyncrunner.py (queue, worker wrappers, futures, as_completed, stop).
   Jobs are identified by their ordinal (order of submission).  The order in which in-flight
   jobs complete is an input: a schedule (list of indices into the pending list).
   No proofs in this file. *)
From Coq Require Import ZArith List Bool Lia.
Import ListNotations.
Open Scope nat_scope.

(* ------------------------------------------------------------------ scheduler *)

Record sch := mkS {
  cstep : nat;            (* config['current']['cstep'] *)
  tsteps : nat;           (* config['simulation']['steps'] *)
  workers : nat;
  toinit : Z;             (* REPEX_state.toinitiate *)
  pending : list nat;     (* futures not yet handed out by as_completed (ordinals) *)
  submitted : nat;        (* number of runner.submit_work calls = next ordinal *)
  completed : list nat;   (* ordinals in the order treat_output consumed them *)
  restart_cstep : nat;    (* cstep in restart.toml as last written *)
  restart_locked : list nat  (* in-flight jobs recorded by the last write_toml *)
}.

Definition set_cstep (s : sch) (c : nat) : sch :=
  mkS c (tsteps s) (workers s) (toinit s) (pending s) (submitted s) (completed s) (restart_cstep s) (restart_locked s).

(* prep_md_items + runner.submit_work + futures.add *)
Definition submit (s : sch) : sch :=
  mkS (cstep s) (tsteps s) (workers s) (toinit s) (pending s ++ [submitted s]) (S (submitted s))
      (completed s) (restart_cstep s) (restart_locked s).

(* REPEX_state.initiate.  [capped] = the repaired rule of fix 49b84d7 ("never start more jobs
   than there are steps left": toinitiate is cut to 0 once workers - toinitiate >= tsteps -
   cstep); [capped = false] is the original rule. *)
Definition initiate_g (capped : bool) (s : sch) : bool * sch :=
  if negb (cstep s <? tsteps s) then (false, s)
  else let t0 := if capped && (0 <? toinit s)%Z && (toinit s <=? Z.of_nat (workers s) - Z.of_nat (tsteps s - cstep s))%Z
                 then 0%Z else toinit s in
       let t := (t0 - 1)%Z in
       ((0 <=? t)%Z, mkS (cstep s) (tsteps s) (workers s) t (pending s) (submitted s) (completed s)
                         (restart_cstep s) (restart_locked s)).

Definition initiate := initiate_g true.

(* write_toml: records cstep and the jobs still in flight *)
Definition write_toml (s : sch) : sch :=
  mkS (cstep s) (tsteps s) (workers s) (toinit s) (pending s) (submitted s) (completed s) (cstep s) (pending s).

(* REPEX_state.loop *)
Definition loop (s : sch) : bool * sch :=
  if tsteps s <=? cstep s then (false, write_toml s)
  else let s1 := set_cstep s (S (cstep s)) in (cstep s1 <=? tsteps s1, s1).

Fixpoint remove_nth {A} (i : nat) (l : list A) : list A :=
  match l, i with
  | [], _ => []
  | _ :: r, 0 => r
  | a :: r, S k => a :: remove_nth k r
  end.

(* futures.as_completed() + treat_output (which ends with write_toml); the schedule picks
   which pending future is done first *)
Definition complete (s : sch) (choice : nat) : sch :=
  match pending s with
  | [] => s                                  (* as_completed returned None: nothing treated *)
  | _ =>
      let i := choice mod length (pending s) in
      let o := nth i (pending s) 0 in
      write_toml (mkS (cstep s) (tsteps s) (workers s) (toinit s) (remove_nth i (pending s)) (submitted s)
                      (completed s ++ [o]) (restart_cstep s) (restart_locked s))
  end.

(* "while state.initiate(): prep; submit" *)
Fixpoint init_phase_g (capped : bool) (fuel : nat) (s : sch) : option sch :=
  match fuel with
  | 0 => None
  | S f => let '(b, s1) := initiate_g capped s in if b then init_phase_g capped f (submit s1) else Some s1
  end.

Definition init_phase := init_phase_g true.

(* "while state.loop(): as_completed; treat; if cstep + workers <= tsteps: prep; submit" *)
Fixpoint main_loop (fuel : nat) (s : sch) (sched : list nat) : option sch :=
  match fuel with
  | 0 => None
  | S f =>
      let '(b, s1) := loop s in
      if negb b then Some s1 else
      let s2 := complete s1 (hd 0 sched) in
      let s3 := if cstep s2 + workers s2 <=? tsteps s2 then submit s2 else s2 in
      main_loop f s3 (tl sched)
  end.

Definition start (c0 T W : nat) : sch := mkS c0 T W (Z.of_nat W) [] 0 [] c0 [].

Definition scheduler_g (capped : bool) (c0 T W : nat) (sched : list nat) : option sch :=
  match init_phase_g capped (W + 2) (start c0 T W) with
  | None => None
  | Some s => main_loop (T - c0 + 2) s sched
  end.

Definition scheduler := scheduler_g true.

(* ------------------------------------------------------------------ task runner *)

(* what a unit of work ends with *)
Inductive outcome := Res (v : nat) | Exc (e : nat).

Inductive fstate_t := FPending | FDone (o : outcome).

Record runner := mkRun {
  queue : list nat;                 (* submitted, not yet taken units (FIFO) *)
  busy : list (option nat);         (* per worker wrapper: the unit it is running *)
  futs : list (nat * fstate_t);     (* future of every submitted unit *)
  flist : list nat;                 (* future_list: units whose future was not yet handed out *)
  delivered : list (nat * outcome); (* what as_completed handed to the caller, in order *)
  executed : list (nat * nat);      (* (unit, wrapper) in order of execution start *)
  stopping : bool;
  next_unit : nat
}.

Definition runner_init (w : nat) : runner := mkRun [] (repeat None w) [] [] [] [] false 0.

Inductive rev_t :=
| ESubmit                         (* submit_work + futures.add *)
| ETake (w : nat)                 (* wrapper w: queue.get_nowait *)
| EFinish (w : nat) (o : outcome) (* the task of wrapper w returned / raised *)
| EDeliver                        (* future_list.as_completed hands out the first done future *)
| EStop.                          (* runner.stop() passed the "queue is empty" wait *)

Fixpoint set_nth_o {A} (i : nat) (x : A) (l : list A) : list A :=
  match l, i with
  | [], _ => []
  | _ :: r, 0 => x :: r
  | a :: r, S k => a :: set_nth_o k x r
  end.

Fixpoint fut_get (u : nat) (l : list (nat * fstate_t)) : option fstate_t :=
  match l with [] => None | (a, f) :: r => if a =? u then Some f else fut_get u r end.

Fixpoint fut_set (u : nat) (f : fstate_t) (l : list (nat * fstate_t)) : list (nat * fstate_t) :=
  match l with [] => [] | (a, g) :: r => if a =? u then (a, f) :: r else (a, g) :: fut_set u f r end.

Fixpoint first_done (fl : list nat) (fs : list (nat * fstate_t)) : option (nat * outcome) :=
  match fl with
  | [] => None
  | u :: r => match fut_get u fs with
              | Some (FDone o) => Some (u, o)
              | _ => first_done r fs
              end
  end.

Fixpoint remove_first (u : nat) (l : list nat) : list nat :=
  match l with [] => [] | a :: r => if a =? u then r else a :: remove_first u r end.

Definition rstep (r : runner) (e : rev_t) : option runner :=
  match e with
  | ESubmit =>
      if stopping r then None else
      let u := next_unit r in
      Some (mkRun (queue r ++ [u]) (busy r) (futs r ++ [(u, FPending)]) (flist r ++ [u]) (delivered r)
                  (executed r) false (S u))
  | ETake w =>
      match nth_error (busy r) w, queue r with
      | Some None, u :: q =>
          if stopping r then None else
          Some (mkRun q (set_nth_o w (Some u) (busy r)) (futs r) (flist r) (delivered r)
                      (executed r ++ [(u, w)]) (stopping r) (next_unit r))
      | _, _ => None
      end
  | EFinish w o =>
      match nth_error (busy r) w with
      | Some (Some u) =>
          match fut_get u (futs r) with
          | Some FPending =>
              Some (mkRun (queue r) (set_nth_o w None (busy r)) (fut_set u (FDone o) (futs r)) (flist r)
                          (delivered r) (executed r) (stopping r) (next_unit r))
          | _ => None        (* set_result on a done future raises InvalidStateError *)
          end
      | _ => None
      end
  | EDeliver =>
      match first_done (flist r) (futs r) with
      | Some (u, o) =>
          Some (mkRun (queue r) (busy r) (futs r) (remove_first u (flist r)) (delivered r ++ [(u, o)])
                      (executed r) (stopping r) (next_unit r))
      | None => None
      end
  | EStop =>
      match queue r with
      | [] => Some (mkRun [] (busy r) (futs r) (flist r) (delivered r) (executed r) true (next_unit r))
      | _ => None
      end
  end.

Fixpoint rrun (r : runner) (es : list rev_t) : option runner :=
  match es with
  | [] => Some r
  | e :: rest => match rstep r e with None => None | Some r' => rrun r' rest end
  end.

(* the runner is quiescent: stop was requested and every wrapper is idle *)
Definition quiescent (r : runner) : bool :=
  stopping r && forallb (fun b => match b with None => true | Some _ => false end) (busy r).
